//! C22: concurrent use of one model gives sequential results.
//!
//! loom explores every interleaving (up to the preemption bound) of 2 threads
//! x 2 calls and 3 threads x 1 call of the REAL `Model::run` /
//! `Model::partial_run` on one shared model whose plan-cache mutex is a loom
//! mutex. The calls use different (inputs, outputs) keys, so every call forces
//! a plan-cache replacement; pairs with equal keys are included. Each call's
//! result must equal what the call returns alone.

use std::sync::Arc;
use std::sync::Mutex as StdMutex;
use std::time::Duration;

use rten::{Model, ModelOptions, NodeId, RunOptions, ThreadPool, Value, ValueOrView};
use rten_tensor::prelude::*;
use rten_tensor::Tensor;
use vp_core::isolate;
use vp_core::{Ctx, Json, json};
use vp_onnx as onnx;

fn model_bytes() -> Vec<u8> {
    let mut g = onnx::Graph::new("c22");
    for n in ["x0", "x1"] {
        g.inputs.push(onnx::ValueInfo::new(n, onnx::dtype::FLOAT, &[onnx::Dim::Sym("n".into())]));
    }
    g.initializers.push(onnx::Tensor::f32("c0", &[2], &[1.0, -4.0]));
    g.nodes.push(onnx::Node::new("Add", &["x0", "c0"], &["v3"]).named("add"));
    g.nodes.push(onnx::Node::new("Relu", &["v3"], &["v4"]).named("relu"));
    g.nodes.push(onnx::Node::new("Mul", &["v4", "x1"], &["v5"]).named("mul"));
    g.nodes.push(onnx::Node::new("Sub", &["x1", "c0"], &["v6"]).named("sub"));
    for o in ["v5", "v6", "v4", "v3"] {
        g.outputs.push(onnx::ValueInfo::untyped(o));
    }
    onnx::model_bytes(&g)
}

/// A call: which inputs are supplied (with which data variant), which outputs requested.
#[derive(Clone, Copy, Debug, PartialEq, Eq)]
pub struct Call {
    pub partial: bool,
    pub inputs: &'static [&'static str],
    pub outputs: &'static [&'static str],
    /// data variant: inputs are x0 = [d, 2d], x1 = [3, -d]
    pub d: i32,
}

pub const CALLS: [Call; 7] = [
    Call { partial: false, inputs: &["x0"], outputs: &["v4"], d: 1 },
    Call { partial: false, inputs: &["x0", "x1"], outputs: &["v5"], d: 2 },
    Call { partial: false, inputs: &["x1"], outputs: &["v6"], d: 3 },
    Call { partial: false, inputs: &["x0", "x1"], outputs: &["v6", "v3"], d: 4 },
    Call { partial: true, inputs: &["x0"], outputs: &["v5"], d: 5 },
    // same key as CALLS[1], different data
    Call { partial: false, inputs: &["x0", "x1"], outputs: &["v5"], d: 6 },
    // a superset of the inputs of CALLS[1] with the same outputs: the intermediate v3 is
    // supplied by the caller, so Add must not run and v5 must be computed from the supplied v3
    Call { partial: false, inputs: &["x0", "x1", "v3"], outputs: &["v5"], d: 7 },
];

fn input_data(name: &str, d: i32) -> Vec<f32> {
    let d = d as f32;
    match name {
        "x0" => vec![d, 2.0 * d],
        "v3" => vec![10.0 * d, -d],
        _ => vec![3.0, -d],
    }
}

/// What the call returns when made alone (plain arithmetic; values are small integers).
fn expected(c: &Call) -> Vec<(String, Vec<f32>)> {
    let x0 = input_data("x0", c.d);
    let x1 = input_data("x1", c.d);
    let c0 = [1.0f32, -4.0];
    let v3: Vec<f32> = if c.inputs.contains(&"v3") { input_data("v3", c.d) } else { (0..2).map(|i| x0[i] + c0[i]).collect() };
    let v4: Vec<f32> = v3.iter().map(|v| v.max(0.0)).collect();
    let v5: Vec<f32> = (0..2).map(|i| v4[i] * x1[i]).collect();
    let v6: Vec<f32> = (0..2).map(|i| x1[i] - c0[i]).collect();
    let get = |n: &str| match n {
        "v3" => v3.clone(),
        "v4" => v4.clone(),
        "v5" => v5.clone(),
        _ => v6.clone(),
    };
    if c.partial {
        // partial_run(x0 -> v5): evaluates Add, Relu; Mul needs x1. Leaf returned: v4.
        vec![("v4".to_string(), v4.clone())]
    } else {
        c.outputs.iter().map(|o| (o.to_string(), get(o))).collect()
    }
}

fn do_call(model: &Model, c: &Call, pool: &Arc<ThreadPool>) -> Result<Vec<(String, Vec<f32>)>, String> {
    let tensors: Vec<(NodeId, Tensor<f32>)> = c.inputs.iter().map(|n| (model.find_node(n).unwrap(), Tensor::from_data(&[2], input_data(n, c.d)))).collect();
    let inputs: Vec<(NodeId, ValueOrView)> = tensors.iter().map(|(id, t)| (*id, ValueOrView::from(t.view()))).collect();
    let out_ids: Vec<NodeId> = c.outputs.iter().map(|n| model.find_node(n).unwrap()).collect();
    let opts = Some(RunOptions::default().with_thread_pool(Some(pool.clone())));
    let to_vec = |v: Value| -> Result<Vec<f32>, String> {
        let t: Tensor<f32> = v.try_into().map_err(|_| "non-float output".to_string())?;
        Ok(t.to_vec())
    };
    if c.partial {
        let r = model.partial_run(inputs, &out_ids, opts).map_err(|e| format!("{e}"))?;
        let mut out = Vec::new();
        for (id, v) in r {
            let name = model.node_info(id).and_then(|i| i.name().map(|s| s.to_string())).unwrap_or_default();
            out.push((name, to_vec(v)?));
        }
        Ok(out)
    } else {
        let r = model.run(inputs, &out_ids, opts).map_err(|e| format!("{e}"))?;
        let mut out = Vec::new();
        for (n, v) in c.outputs.iter().zip(r) {
            out.push((n.to_string(), to_vec(v)?));
        }
        Ok(out)
    }
}

pub struct Scenario {
    pub threads: Vec<Vec<usize>>,
}

impl Scenario {
    fn to_json(&self) -> Json {
        json!({"threads": self.threads, "calls": CALLS.iter().map(|c| format!("{c:?}")).collect::<Vec<_>>()})
    }
}

pub fn scenarios(thorough: bool) -> Vec<Scenario> {
    let n = CALLS.len();
    let mut out = Vec::new();
    // 2 threads x 2 calls
    for a in 0..n {
        for b in 0..n {
            for c in 0..n {
                for d in 0..n {
                    if (a, b) <= (c, d) {
                        out.push(Scenario { threads: vec![vec![a, b], vec![c, d]] });
                    }
                }
            }
        }
    }
    // 3 threads x 1 call
    for a in 0..n {
        for b in a..n {
            for c in b..n {
                out.push(Scenario { threads: vec![vec![a], vec![b], vec![c]] });
            }
        }
    }
    if thorough {
        // 3 threads: 2 + 1 + 1 calls
        for a in 0..n {
            for b in 0..n {
                for c in 0..n {
                    for d in c..n {
                        out.push(Scenario { threads: vec![vec![a, b], vec![c], vec![d]] });
                    }
                }
            }
        }
    }
    out
}

pub fn explore_scenario(sc: &Scenario, bound: usize) -> (u64, Vec<String>, usize) {
    let problems = Arc::new(StdMutex::new(Vec::<String>::new()));
    let orders = Arc::new(StdMutex::new(std::collections::BTreeSet::<Vec<(usize, usize)>>::new()));
    let threads = sc.threads.clone();
    let (p2, o2) = (problems.clone(), orders.clone());
    let bytes = model_bytes();
    let res = crate::explore(bound, move || {
        let mut opts = ModelOptions::with_all_ops();
        opts.enable_optimization(false);
        let model = Arc::new(opts.load(bytes.clone()).expect("model loads"));
        let pool = Arc::new(ThreadPool::verif_inline());
        // completion order of calls, to measure how many distinct interleavings were seen
        let log = Arc::new(StdMutex::new(Vec::<(usize, usize)>::new()));
        let mut handles = Vec::new();
        for (t, calls) in threads.iter().enumerate() {
            let (model, pool, log, problems, calls) = (model.clone(), pool.clone(), log.clone(), p2.clone(), calls.clone());
            handles.push(loom::thread::spawn(move || {
                for (k, &ci) in calls.iter().enumerate() {
                    let c = &CALLS[ci];
                    let got = do_call(&model, c, &pool);
                    log.lock().unwrap().push((t, k));
                    match got {
                        Ok(vals) => {
                            let want = expected(c);
                            if vals != want {
                                problems.lock().unwrap().push(format!("call {c:?} returned {vals:?}, alone it returns {want:?}"));
                            }
                        }
                        Err(e) => problems.lock().unwrap().push(format!("call {c:?} failed because of concurrent calls: {e}")),
                    }
                }
            }));
        }
        for h in handles {
            h.join().unwrap();
        }
        o2.lock().unwrap().insert(log.lock().unwrap().clone());
    });
    let mut ps = std::mem::take(&mut *problems.lock().unwrap());
    let execs = match res {
        Ok(n) => n,
        Err(m) => {
            ps.push(format!("execution panicked or deadlocked: {m}"));
            0
        }
    };
    ps.sort();
    ps.dedup();
    (execs, ps, orders.lock().unwrap().len())
}

fn signature_of(p: &str) -> String {
    if p.contains("returned") {
        "concurrent run returned a result that differs from the sequential result".into()
    } else if p.contains("failed because") {
        format!("concurrent run failed: {}", vp_core::truncate(p.split("calls: ").nth(1).unwrap_or(""), 50))
    } else {
        format!("concurrent runs: {}", vp_core::truncate(p, 60))
    }
}

pub fn run(ctx: Ctx) -> ! {
    let thorough = ctx.tier.is_thorough();
    let bound = if thorough { 3 } else { 2 };
    if isolate::worker_name().is_some() {
        isolate::worker_loop(|case| {
            let scs = scenarios(case["thorough"].as_bool().unwrap_or(false));
            let i = case["index"].as_u64().unwrap_or(0) as usize;
            let (execs, problems, distinct) = explore_scenario(&scs[i], case["bound"].as_u64().unwrap_or(2) as usize);
            json!({"execs": execs, "problems": problems, "distinct": distinct})
        });
    }
    if let Some(path) = &ctx.replay {
        let case = vp_core::read_replay_case(path);
        let scs = scenarios(case["thorough"].as_bool().unwrap_or(false));
        let i = case["index"].as_u64().unwrap_or(0) as usize;
        let (execs, problems, _) = explore_scenario(&scs[i], case["bound"].as_u64().unwrap_or(2) as usize);
        for p in &problems {
            ctx.violation(signature_of(p), case.clone(), p.clone());
        }
        ctx.finish("model_checking", json!({"states": execs.max(1), "transitions": execs.max(1), "traces_validated_against_impl": execs, "samples": [case]}), vec![]);
    }
    let scs = scenarios(thorough);
    let cases: Vec<Json> = (0..scs.len()).map(|i| json!({"index": i, "thorough": thorough, "bound": bound, "scenario": scs[i].to_json()["threads"]})).collect();
    let totals = StdMutex::new((0u64, 0u64, 0u64));
    let ctxr = &ctx;
    isolate::run_all("c22", &cases, vp_core::par::threads(), Duration::from_secs(300), 4 << 30, |_i, case, out| match out {
        isolate::Outcome::Answer(v) => {
            let mut t = totals.lock().unwrap();
            t.0 += v["execs"].as_u64().unwrap_or(0);
            let d = v["distinct"].as_u64().unwrap_or(0);
            t.1 += d;
            if d > 1 {
                t.2 += 1;
            }
            for p in v["problems"].as_array().cloned().unwrap_or_default() {
                let p = p.as_str().unwrap_or("").to_string();
                ctxr.violation(signature_of(&p), case.clone(), p);
            }
        }
        isolate::Outcome::Died(st) => ctxr.violation("concurrent runs: exploration process died (panic/abort inside an execution)", case.clone(), st),
        isolate::Outcome::Timeout => ctxr.machinery(&format!("{}: a loom deadlock or livelock is reported by loom itself (process death), so a wall-clock timeout means the exploration is too slow on this machine; case {case}", "concurrent runs: exploration did not finish within 300 s (deadlock?)")),
    });
    let t = totals.into_inner().unwrap();
    if t.0 < scs.len() as u64 * 2 || t.2 == 0 {
        ctx.machinery(&format!("C22 vacuous: {} executions over {} scenarios", t.0, scs.len()));
    }
    let cov = json!({
        "states": t.1,
        "transitions": t.0,
        "traces_validated_against_impl": t.0,
        "samples": [scs[0].to_json(), scs[scs.len() / 2].to_json()["threads"]],
        "exhaustive": true,
        "scenarios": scs.len(),
        "preemption_bound": bound,
        "schedules_explored": t.0,
        "distinct_call_completion_orders_summed": t.1,
        "scenarios_with_more_than_one_completion_order": t.2,
        "explanation": "transitions = complete executions of real Model::run/partial_run calls explored by loom (plan-cache mutex and buffer-pool primitives are loom's); states = distinct call-completion orders observed, summed over scenarios",
    });
    ctx.finish(
        "model_checking",
        cov,
        vec![
            "runs execute inline on the calling (loom) thread via a ThreadPool without a rayon pool; races inside operator kernels or rayon are invisible to loom".into(),
            "the only shared mutable state on the run path is Graph::cached_plan (DESIGN C22); per-run state is created per call".into(),
        ],
    )
}
