//! C23: the buffer pool hands out each buffer once with adequate capacity.
//!
//! Scenarios: 2 threads x <=2 operations and 3 threads x 1 operation over an
//! alphabet of alloc<T>/add/PoolRef operations with capacities around the
//! minimum-size threshold and element types of equal and different
//! size/alignment, on pools pre-seeded with 0-2 buffers. Every schedule up to
//! the preemption bound is explored by loom on the REAL `rten::BufferPool`.
//! In every execution: capacity >= requested; no buffer held by two holders;
//! hit/miss bookkeeping balances (every added buffer is in the pool or was
//! handed out exactly once); and the vector of per-operation outcomes equals
//! that of SOME sequential order of the atomic steps on a reference pool.

use std::collections::{BTreeSet, HashSet};
use std::sync::Mutex as StdMutex;
use std::time::Duration;

use rten::{BufferPool, PoolRef};
use vp_core::isolate;
use vp_core::{Ctx, Json, json};

#[derive(Clone, Copy, Debug, PartialEq, Eq, Hash)]
pub enum Ty {
    F32,
    I32,
    U8,
    U64,
    /// `[u8; 4]`: the element size of f32/i32 with alignment 1
    B4,
}

impl Ty {
    fn size(self) -> usize {
        match self {
            Ty::F32 | Ty::I32 | Ty::B4 => 4,
            Ty::U8 => 1,
            Ty::U64 => 8,
        }
    }
    fn align(self) -> usize {
        match self {
            Ty::B4 => 1,
            _ => self.size(),
        }
    }
}

#[derive(Clone, Copy, Debug, PartialEq, Eq, Hash)]
pub enum Op {
    /// allocate and keep until the thread ends
    Alloc(Ty, usize),
    /// add a fresh Vec of this type/capacity to the pool
    AddFresh(Ty, usize),
    /// allocate, then give the same buffer back (two critical sections)
    AllocReturn(Ty, usize),
    /// allocate an f32 vec, wrap it in PoolRef, drop the PoolRef
    PoolRefDrop(usize),
}

const MIN_SIZE: usize = 128;

pub fn alphabet(thorough: bool) -> Vec<Op> {
    let mut v = vec![
        Op::Alloc(Ty::F32, 32),  // exactly at the threshold
        Op::Alloc(Ty::I32, 40),  // same size/align as f32, bigger
        Op::AddFresh(Ty::F32, 48),
        Op::AllocReturn(Ty::F32, 33),
        Op::AddFresh(Ty::B4, 48), // same element size as f32, alignment 1: must never be handed out as f32
    ];
    if thorough {
        v.extend([
            Op::Alloc(Ty::U64, 16), // same bytes as a pooled f32 buffer, different alignment
            Op::Alloc(Ty::F32, 31), // below the threshold: bypasses the pool
            Op::Alloc(Ty::U8, 160), // different element size
            Op::PoolRefDrop(40),
            Op::AddFresh(Ty::U64, 16),
        ]);
    }
    v
}

pub fn seeds(thorough: bool) -> Vec<Vec<(Ty, usize)>> {
    if thorough {
        vec![vec![], vec![(Ty::F32, 32)], vec![(Ty::F32, 64), (Ty::F32, 40)], vec![(Ty::U64, 16), (Ty::F32, 40)]]
    } else {
        vec![vec![], vec![(Ty::F32, 64), (Ty::F32, 40)], vec![(Ty::B4, 64)]]
    }
}

// ---------- reference pool ----------

#[derive(Clone, Debug, PartialEq, Eq, Hash, PartialOrd, Ord)]
pub enum Outcome {
    /// pool hit with this capacity (in elements of the pooled buffer)
    Hit(usize),
    Miss,
    /// request below the threshold: pool bypassed
    Bypass,
    None,
}

#[derive(Clone, Copy, Debug)]
enum Step {
    /// (thread, op index) allocate
    Alloc(Ty, usize),
    AddFresh(Ty, usize),
    /// return the buffer obtained by the previous Alloc step of the same op
    ReturnPrev,
}

fn steps_of(op: Op) -> Vec<Step> {
    match op {
        Op::Alloc(t, c) => vec![Step::Alloc(t, c)],
        Op::AddFresh(t, c) => vec![Step::AddFresh(t, c)],
        Op::AllocReturn(t, c) => vec![Step::Alloc(t, c), Step::ReturnPrev],
        Op::PoolRefDrop(c) => vec![Step::Alloc(Ty::F32, c), Step::ReturnPrev],
    }
}

#[derive(Clone, Debug)]
struct RefBuf {
    size: usize,
    align: usize,
    cap: usize,
}

/// Run one sequential order of atomic steps on the reference pool (best fit,
/// first on ties). `order` lists thread ids; each thread executes its steps in
/// program order. Returns per-(thread, op) outcomes and the final pool size.
fn reference_run(seed: &[(Ty, usize)], progs: &[Vec<Op>], order: &[usize]) -> (Vec<Vec<Outcome>>, usize) {
    let mut pool: Vec<RefBuf> = seed.iter().filter(|(t, c)| t.size() * c >= MIN_SIZE).map(|(t, c)| RefBuf { size: t.size(), align: t.align(), cap: *c }).collect();
    let mut outcomes: Vec<Vec<Outcome>> = progs.iter().map(|p| vec![Outcome::None; p.len()]).collect();
    let flat: Vec<Vec<(usize, Step)>> =
        progs.iter().map(|p| p.iter().enumerate().flat_map(|(i, op)| steps_of(*op).into_iter().map(move |s| (i, s))).collect()).collect();
    let mut pc = vec![0usize; progs.len()];
    let mut held: Vec<Option<RefBuf>> = vec![None; progs.len()];
    for &t in order {
        let (opi, step) = flat[t][pc[t]];
        pc[t] += 1;
        match step {
            Step::Alloc(ty, cap) => {
                if cap * ty.size() < MIN_SIZE {
                    outcomes[t][opi] = Outcome::Bypass;
                    held[t] = Some(RefBuf { size: ty.size(), align: ty.align(), cap });
                    continue;
                }
                let mut best: Option<(usize, usize)> = None;
                for (i, b) in pool.iter().enumerate() {
                    if b.size == ty.size() && b.align == ty.align() && b.cap >= cap {
                        if best.map(|(_, c)| b.cap < c).unwrap_or(true) {
                            best = Some((i, b.cap));
                        }
                    }
                }
                match best {
                    Some((i, c)) => {
                        held[t] = Some(pool.remove(i));
                        outcomes[t][opi] = Outcome::Hit(c);
                    }
                    None => {
                        held[t] = Some(RefBuf { size: ty.size(), align: ty.align(), cap });
                        outcomes[t][opi] = Outcome::Miss;
                    }
                }
            }
            Step::AddFresh(ty, cap) => {
                if ty.size() * cap >= MIN_SIZE {
                    pool.push(RefBuf { size: ty.size(), align: ty.align(), cap });
                }
            }
            Step::ReturnPrev => {
                if let Some(b) = held[t].take() {
                    // capacity of a missed allocation may exceed the request; the reference
                    // keeps the requested capacity, outcomes only compare hits by pooled capacity
                    if b.size * b.cap >= MIN_SIZE {
                        pool.push(b);
                    }
                }
            }
        }
    }
    (outcomes, pool.len())
}

fn all_orders(counts: &[usize]) -> Vec<Vec<usize>> {
    fn rec(rem: &mut Vec<usize>, cur: &mut Vec<usize>, out: &mut Vec<Vec<usize>>) {
        if rem.iter().all(|&r| r == 0) {
            out.push(cur.clone());
            return;
        }
        for t in 0..rem.len() {
            if rem[t] > 0 {
                rem[t] -= 1;
                cur.push(t);
                rec(rem, cur, out);
                cur.pop();
                rem[t] += 1;
            }
        }
    }
    let mut out = Vec::new();
    rec(&mut counts.to_vec(), &mut Vec::new(), &mut out);
    out
}

// ---------- real pool under loom ----------

#[derive(Default)]
struct Shared {
    problems: Vec<String>,
    observed: BTreeSet<(Vec<Vec<Outcome>>, usize)>,
}

/// Type-erased Vec so that operations can be written once.
pub mod anyvec {
    use super::Ty;
    pub enum AnyVec {
        F32(Vec<f32>),
        I32(Vec<i32>),
        U8(Vec<u8>),
        U64(Vec<u64>),
        B4(Vec<[u8; 4]>),
    }
    impl AnyVec {
        pub fn new(ty: Ty, cap: usize) -> AnyVec {
            match ty {
                Ty::F32 => AnyVec::F32(Vec::with_capacity(cap)),
                Ty::I32 => AnyVec::I32(Vec::with_capacity(cap)),
                Ty::U8 => AnyVec::U8(Vec::with_capacity(cap)),
                Ty::U64 => AnyVec::U64(Vec::with_capacity(cap)),
                Ty::B4 => AnyVec::B4(Vec::with_capacity(cap)),
            }
        }
        pub fn alloc(pool: &rten::BufferPool, ty: Ty, cap: usize) -> AnyVec {
            match ty {
                Ty::F32 => AnyVec::F32(pool.alloc(cap)),
                Ty::I32 => AnyVec::I32(pool.alloc(cap)),
                Ty::U8 => AnyVec::U8(pool.alloc(cap)),
                Ty::U64 => AnyVec::U64(pool.alloc(cap)),
                Ty::B4 => AnyVec::B4(pool.alloc(cap)),
            }
        }
        pub fn ptr(&self) -> usize {
            match self {
                AnyVec::F32(v) => v.as_ptr() as usize,
                AnyVec::I32(v) => v.as_ptr() as usize,
                AnyVec::U8(v) => v.as_ptr() as usize,
                AnyVec::U64(v) => v.as_ptr() as usize,
                AnyVec::B4(v) => v.as_ptr() as usize,
            }
        }
        pub fn cap(&self) -> usize {
            match self {
                AnyVec::F32(v) => v.capacity(),
                AnyVec::I32(v) => v.capacity(),
                AnyVec::U8(v) => v.capacity(),
                AnyVec::U64(v) => v.capacity(),
                AnyVec::B4(v) => v.capacity(),
            }
        }
        pub fn add_to(self, pool: &rten::BufferPool) {
            match self {
                AnyVec::F32(v) => pool.add(v),
                AnyVec::I32(v) => pool.add(v),
                AnyVec::U8(v) => pool.add(v),
                AnyVec::U64(v) => pool.add(v),
                AnyVec::B4(v) => pool.add(v),
            }
        }
    }
}
use anyvec::AnyVec;

/// Registry of blocks that were handed to the pool: ptr -> (bytes, align, capacity in elements).
#[derive(Default)]
struct Registry {
    pooled: std::collections::HashMap<usize, (usize, usize, usize)>,
    live: HashSet<usize>,
    accepted_adds: usize,
    pooled_allocs: usize,
    hits: usize,
}

pub struct Scenario {
    pub seed: Vec<(Ty, usize)>,
    pub progs: Vec<Vec<Op>>,
}

impl Scenario {
    pub fn to_json(&self) -> Json {
        json!({"seed": format!("{:?}", self.seed), "threads": self.progs.iter().map(|p| format!("{p:?}")).collect::<Vec<_>>()})
    }
}

/// Explore one scenario; returns (executions, problems, distinct observed outcome vectors).
pub fn explore_scenario(sc: &Scenario, bound: usize) -> (u64, Vec<String>, usize) {
    let shared = std::sync::Arc::new(StdMutex::new(Shared::default()));
    let seed = sc.seed.clone();
    let progs = sc.progs.clone();
    let sh2 = shared.clone();
    let res = crate::explore(bound, move || {
        let pool = loom::sync::Arc::new(BufferPool::new().with_min_size(MIN_SIZE));
        let reg = std::sync::Arc::new(StdMutex::new(Registry::default()));
        let local_problems = std::sync::Arc::new(StdMutex::new(Vec::<String>::new()));
        let add = |reg: &StdMutex<Registry>, v: AnyVec, ty: Ty, pool: &BufferPool| {
            let (p, c) = (v.ptr(), v.cap());
            {
                let mut r = reg.lock().unwrap();
                r.live.remove(&p);
                if c * ty.size() >= MIN_SIZE {
                    r.pooled.insert(p, (c * ty.size(), ty.align(), c));
                    r.accepted_adds += 1;
                }
            }
            v.add_to(pool);
        };
        for (ty, cap) in &seed {
            add(&reg, AnyVec::new(*ty, *cap), *ty, &pool);
        }
        let outcomes = std::sync::Arc::new(StdMutex::new(progs.iter().map(|p| vec![Outcome::None; p.len()]).collect::<Vec<_>>()));
        let mut handles = Vec::new();
        for (t, prog) in progs.iter().enumerate() {
            let pool = pool.clone();
            let reg = reg.clone();
            let outcomes = outcomes.clone();
            let problems = local_problems.clone();
            let prog = prog.clone();
            handles.push(loom::thread::spawn(move || {
                let mut kept: Vec<AnyVec> = Vec::new();
                let do_alloc = |ty: Ty, cap: usize, opi: usize| -> AnyVec {
                    let v = AnyVec::alloc(&pool, ty, cap);
                    let mut r = reg.lock().unwrap();
                    if v.cap() < cap {
                        problems.lock().unwrap().push(format!("alloc::<{ty:?}>({cap}) returned capacity {}", v.cap()));
                    }
                    let outcome = if cap * ty.size() < MIN_SIZE {
                        Outcome::Bypass
                    } else {
                        r.pooled_allocs += 1;
                        match r.pooled.remove(&v.ptr()) {
                            Some((bytes, align, pcap)) => {
                                r.hits += 1;
                                // layout validity for the requested element type
                                if bytes != v.cap() * ty.size() || align != ty.align() {
                                    problems.lock().unwrap().push(format!(
                                        "alloc::<{ty:?}>({cap}) got a buffer allocated with layout ({bytes} bytes, align {align}), now described as {} x {} bytes",
                                        v.cap(),
                                        ty.size()
                                    ));
                                }
                                Outcome::Hit(pcap)
                            }
                            None => Outcome::Miss,
                        }
                    };
                    if !r.live.insert(v.ptr()) {
                        problems.lock().unwrap().push(format!("buffer {:#x} handed to two holders at once", v.ptr()));
                    }
                    outcomes.lock().unwrap()[t][opi] = outcome;
                    v
                };
                for (opi, op) in prog.iter().enumerate() {
                    match *op {
                        Op::Alloc(ty, cap) => kept.push(do_alloc(ty, cap, opi)),
                        Op::AddFresh(ty, cap) => {
                            let v = AnyVec::new(ty, cap);
                            let (p, c) = (v.ptr(), v.cap());
                            {
                                let mut r = reg.lock().unwrap();
                                if c * ty.size() >= MIN_SIZE {
                                    r.pooled.insert(p, (c * ty.size(), ty.align(), c));
                                    r.accepted_adds += 1;
                                }
                            }
                            v.add_to(&pool);
                        }
                        Op::AllocReturn(ty, cap) => {
                            let v = do_alloc(ty, cap, opi);
                            let (p, c) = (v.ptr(), v.cap());
                            {
                                let mut r = reg.lock().unwrap();
                                r.live.remove(&p);
                                if c * ty.size() >= MIN_SIZE {
                                    r.pooled.insert(p, (c * ty.size(), ty.align(), c));
                                    r.accepted_adds += 1;
                                }
                            }
                            v.add_to(&pool);
                        }
                        Op::PoolRefDrop(cap) => {
                            let v = do_alloc(Ty::F32, cap, opi);
                            let (p, c) = (v.ptr(), v.cap());
                            {
                                let mut r = reg.lock().unwrap();
                                r.live.remove(&p);
                                if c * 4 >= MIN_SIZE {
                                    r.pooled.insert(p, (c * 4, 4, c));
                                    r.accepted_adds += 1;
                                }
                            }
                            if let AnyVec::F32(vec) = v {
                                let r = PoolRef::new(&pool, vec);
                                drop(r);
                            }
                        }
                    }
                }
                // holders release their buffers (freed, not returned)
                let mut r = reg.lock().unwrap();
                for v in &kept {
                    r.live.remove(&v.ptr());
                }
                drop(r);
                drop(kept);
            }));
        }
        for h in handles {
            h.join().unwrap();
        }
        let r = reg.lock().unwrap();
        let pool_len = pool.len();
        let mut problems = local_problems.lock().unwrap().clone();
        if pool_len + r.hits != r.accepted_adds {
            problems.push(format!("bookkeeping: pool.len() {} + hits {} != buffers added {}", pool_len, r.hits, r.accepted_adds));
        }
        if pool.hit_count() != r.hits || pool.alloc_count() != r.pooled_allocs {
            problems.push(format!("counters: hit_count {} (observed {}), alloc_count {} (observed {})", pool.hit_count(), r.hits, pool.alloc_count(), r.pooled_allocs));
        }
        let mut sh = sh2.lock().unwrap();
        sh.problems.extend(problems);
        sh.observed.insert((outcomes.lock().unwrap().clone(), pool_len));
    });
    let mut sh = shared.lock().unwrap();
    let mut problems = std::mem::take(&mut sh.problems);
    let execs = match res {
        Ok(n) => n,
        Err(m) => {
            problems.push(format!("execution panicked: {m}"));
            0
        }
    };
    // linearizability of outcomes against the reference pool
    let counts: Vec<usize> = sc.progs.iter().map(|p| p.iter().map(|o| steps_of(*o).len()).sum()).collect();
    let allowed: HashSet<(Vec<Vec<Outcome>>, usize)> = all_orders(&counts).iter().map(|o| reference_run(&sc.seed, &sc.progs, o)).collect();
    for obs in &sh.observed {
        if !allowed.contains(obs) {
            problems.push(format!("outcomes {:?} (final pool size {}) match no sequential order of the operations on the reference pool", obs.0, obs.1));
        }
    }
    problems.sort();
    problems.dedup();
    (execs, problems, sh.observed.len())
}

pub fn scenarios(thorough: bool) -> Vec<Scenario> {
    let a = alphabet(thorough);
    let mut progs1: Vec<Vec<Op>> = a.iter().map(|o| vec![*o]).collect();
    let mut progs2 = progs1.clone();
    for &x in &a {
        for &y in &a {
            progs2.push(vec![x, y]);
        }
    }
    let mut out = Vec::new();
    for seed in seeds(thorough) {
        for p in &progs2 {
            for q in &progs2 {
                // symmetric duplicates are skipped
                let steps: usize = p.iter().chain(q.iter()).map(|o| steps_of(*o).len()).sum();
                // quick tier: at most 4 atomic steps in total; thorough: additionally every
                // pair of programs with at most 3 operations in total over the larger alphabet
                // (all 2+2 combinations of 11 operations took about an hour and found nothing more)
                if format!("{p:?}") <= format!("{q:?}") && (steps <= 4 || (thorough && p.len() + q.len() <= 3)) {
                    out.push(Scenario { seed: seed.clone(), progs: vec![p.clone(), q.clone()] });
                }
            }
        }
        progs1.truncate(if thorough { 7 } else { 4 });
        for p in &progs1 {
            for q in &progs1 {
                for r in &progs1 {
                    if format!("{p:?}") <= format!("{q:?}") && format!("{q:?}") <= format!("{r:?}") {
                        out.push(Scenario { seed: seed.clone(), progs: vec![p.clone(), q.clone(), r.clone()] });
                    }
                }
            }
        }
    }
    out
}

fn signature_of(problem: &str) -> String {
    let head = problem.split(|c: char| c.is_ascii_digit()).next().unwrap_or(problem);
    format!("BufferPool: {}", head.trim())
}

pub fn run(ctx: Ctx) -> ! {
    let thorough = ctx.tier.is_thorough();
    let bound = if thorough { 3 } else { 2 };
    let scs = scenarios(thorough);
    if let Some(name) = isolate::worker_name() {
        let _ = name;
        isolate::worker_loop(|case| {
            let i = case["index"].as_u64().unwrap_or(0) as usize;
            let th = case["thorough"].as_bool().unwrap_or(false);
            let scs = scenarios(th);
            let (execs, problems, distinct) = explore_scenario(&scs[i], case["bound"].as_u64().unwrap_or(2) as usize);
            json!({"execs": execs, "problems": problems, "distinct": distinct})
        });
    }
    if let Some(path) = &ctx.replay {
        let case = vp_core::read_replay_case(path);
        let i = case["index"].as_u64().unwrap_or(0) as usize;
        let scs = scenarios(case["thorough"].as_bool().unwrap_or(false));
        let (execs, problems, _) = explore_scenario(&scs[i], case["bound"].as_u64().unwrap_or(2) as usize);
        for p in &problems {
            ctx.violation(signature_of(p), case.clone(), p.clone());
        }
        ctx.finish("model_checking", json!({"states": execs.max(1), "transitions": execs.max(1), "traces_validated_against_impl": execs, "samples": [case]}), vec![]);
    }
    let cases: Vec<Json> = (0..scs.len()).map(|i| json!({"index": i, "thorough": thorough, "bound": bound, "scenario": scs[i].to_json()})).collect();
    let totals = StdMutex::new((0u64, 0u64, 0u64, 0u64)); // execs, scenarios with >1 outcome, distinct outcomes total, died
    let ctxr = &ctx;
    isolate::run_all("c23", &cases, vp_core::par::threads(), Duration::from_secs(300), 4 << 30, |_i, case, out| match out {
        isolate::Outcome::Answer(v) => {
            let mut t = totals.lock().unwrap();
            t.0 += v["execs"].as_u64().unwrap_or(0);
            let d = v["distinct"].as_u64().unwrap_or(0);
            t.2 += d;
            if d > 1 {
                t.1 += 1;
            }
            for p in v["problems"].as_array().cloned().unwrap_or_default() {
                let p = p.as_str().unwrap_or("").to_string();
                ctxr.violation(signature_of(&p), case.clone(), p);
            }
        }
        isolate::Outcome::Died(st) => {
            totals.lock().unwrap().3 += 1;
            ctxr.violation("BufferPool: exploration process died (panic/abort inside an execution)", case.clone(), st);
        }
        isolate::Outcome::Timeout => ctxr.machinery(&format!("{}: a loom deadlock or livelock is reported by loom itself (process death), so a wall-clock timeout means the exploration is too slow on this machine; case {case}", "BufferPool: exploration of one scenario did not finish within 300 s (deadlock/livelock?)")),
    });
    let t = totals.into_inner().unwrap();
    if t.0 < scs.len() as u64 * 2 || t.1 == 0 {
        ctx.machinery(&format!("C23 vacuous: {} executions over {} scenarios, {} scenarios with >1 outcome", t.0, scs.len(), t.1));
    }
    let cov = json!({
        "states": t.2,
        "transitions": t.0,
        "traces_validated_against_impl": t.0,
        "samples": [scs[scs.len() / 3].to_json(), scs[scs.len() - 1].to_json()],
        "exhaustive": true,
        "scenarios": scs.len(),
        "preemption_bound": bound,
        "schedules_explored": t.0,
        "scenarios_with_more_than_one_observed_outcome": t.1,
        "distinct_outcome_vectors_summed": t.2,
        "explanation": "transitions = complete executions (schedules) of the real BufferPool explored by loom up to the preemption bound; states = distinct (per-operation outcome vector, final pool size) observations summed over scenarios; every execution ran the implementation itself",
    });
    ctx.finish(
        "model_checking",
        cov,
        vec![
            "loom models sequentially consistent interleavings of its own Mutex/atomic operations; weaker memory orderings are explored only as far as loom models them".into(),
            "buffer identity and layout are tracked by pointer in a registry outside the pool".into(),
        ],
    )
}

