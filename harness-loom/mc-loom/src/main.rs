//! mc-loom: controlled-scheduler (loom) exploration of the real rten
//! `BufferPool` (C23) and of concurrent `Model::run` / `partial_run` calls on
//! one model (C22). Built with `--cfg rten_verif --cfg rten_verif_loom`, which
//! swaps the `Mutex`/atomics in rten's graph.rs and buffer_pool.rs for loom's.

mod c22;
mod c23;

use std::sync::atomic::{AtomicU64, Ordering};

pub static EXECUTIONS: AtomicU64 = AtomicU64::new(0);

/// Run `f` under loom with the given preemption bound; returns the number of
/// executions (schedules) explored, or the panic message of a failing one.
pub fn explore(preemption_bound: usize, f: impl Fn() + Send + Sync + 'static) -> Result<u64, String> {
    let before = EXECUTIONS.load(Ordering::SeqCst);
    let r = vp_core::catch(move || {
        let mut b = loom::model::Builder::new();
        b.preemption_bound = Some(preemption_bound);
        b.max_branches = 100_000;
        b.check(move || {
            EXECUTIONS.fetch_add(1, Ordering::SeqCst);
            f();
        });
    });
    let n = EXECUTIONS.load(Ordering::SeqCst) - before;
    match r {
        Ok(()) => Ok(n),
        Err(m) => Err(m),
    }
}

fn main() {
    let mut prop = std::env::args().nth(1).unwrap_or_default();
    if let Some(w) = vp_core::isolate::worker_name() {
        prop = w.to_uppercase();
    }
    match prop.as_str() {
        "C22" => c22::run(vp_core::Ctx::from_env("C22")),
        "C23" => c23::run(vp_core::Ctx::from_env("C23")),
        _ => vp_core::machinery_error(&format!("mc-loom: unknown property '{prop}'")),
    }
}
