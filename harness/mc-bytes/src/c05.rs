//! C05 — loading untrusted ONNX / .rten bytes (buffer, file, mmap) terminates
//! and returns a model or an error without panic / abort; every constant of a
//! loaded model has an element count that matches its backing data.

use std::collections::BTreeMap;
use std::path::{Path, PathBuf};
use std::time::Duration;

use rten::{Model, ModelOptions, ValueView};
use rten_tensor::prelude::*;
use vp_core::{Ctx, Json, json};
use vp_onnx::{Tensor, TensorData, dtype};

use crate::c38;
use crate::drv::{self, Batch, DrvConfig, Fault, FaultKind, hex, unhex};
use crate::fbw::{self, Inline};
use crate::gens::{self, FaultPlan, InputSet, Item, Op, SetKind};
use crate::pbref::{self, Mt};
use crate::seeds;

#[derive(Clone, Copy, PartialEq, Debug)]
pub enum Kind {
    Onnx,
    Rten,
}

pub struct SetSpec {
    pub set: InputSet,
    pub kind: Kind,
    /// entry points: 1 = load (buffer), 2 = load_file, 4 = load_mmap
    pub mask: u64,
    pub batch: u64,
}

const E_BUF: u64 = 1;
const E_FILE: u64 = 2;
const E_MMAP: u64 = 4;
const ENTRIES: [(u64, &str); 3] = [(E_BUF, "Model::load"), (E_FILE, "Model::load_file"), (E_MMAP, "Model::load_mmap")];

fn entry_name(e: u64) -> &'static str {
    if e == 100 {
        return "rten_onnx ModelProto::decode (instrumented pre-check of the decoder used by Model::load)";
    }
    ENTRIES.iter().find(|x| x.0 == e).map(|x| x.1).unwrap_or("?")
}

// ------------------------------------------------------------------ the boxes

fn rten_seeds() -> Vec<(String, Vec<u8>)> {
    let mut v = vec![("repository file model-load-file-test.rten".to_string(), seeds::RTEN_FILE_TEST.to_vec())];
    for (inl, v2) in [
        (Some(Inline::F32), true),
        (Some(Inline::I32), true),
        (Some(Inline::I8), true),
        (Some(Inline::U8), true),
        (Some(Inline::F32), false),
        (None, true),
    ] {
        let s = fbw::rten_seed(inl, v2);
        v.push((s.name, s.bytes));
    }
    v
}

fn width_faults(seed: u16, buf: &[u8], thorough: bool, out: &mut Vec<gens::Fault>) {
    let v16: &[u64] = &[0, 1, 4, 0x7fff, 0xffff];
    let v32: &[u64] = if thorough {
        &[0, 1, 2, 3, 4, 5, 8, 16, 0xffff, 0x10000, 0x3fff_ffff, 0x4000_0000, 0x7fff_ffff, 0x8000_0000, 0xffff_fffc, 0xffff_ffff]
    } else {
        &[0, 1, 3, 5, 0x10000, 0x4000_0000, 0x7fff_ffff, 0x8000_0000, 0xffff_ffff]
    };
    let v64: &[u64] = &[0, 1, 32, 0xffff_ffff, 1 << 32, 1 << 62, (1 << 63) - 1, 1 << 63, u64::MAX - 15, u64::MAX];
    for off in 0..buf.len() {
        for (w, vals) in [(2usize, v16), (4, v32), (8, v64)] {
            if off + w > buf.len() || (w == 8 && off % 4 != 0) || (w == 4 && off % 2 != 0) {
                continue;
            }
            for v in vals {
                let with = v.to_le_bytes()[..w].to_vec();
                if with[..] == buf[off..off + w] {
                    continue;
                }
                out.push(gens::Fault { seed, op: Op::Splice { off: off as u32, len: w as u32, with, what: format!("u{} at offset {off} := {v:#x}", w * 8) } });
            }
        }
    }
}

fn dims_box(thorough: bool) -> Vec<Item> {
    let d: Vec<i64> = if thorough {
        vec![0, 1, 2, 3, 1 << 31, 1 << 32, 1 << 62, i64::MAX, -1, i64::MIN]
    } else {
        vec![0, 1, 2, 1 << 31, 1 << 32, 1 << 62, i64::MAX, -1]
    };
    let mut tuples: Vec<Vec<i64>> = vec![vec![]];
    for r in 1..=3 {
        for idx in vp_core::odometer::sequences(d.len(), r) {
            tuples.push(idx.iter().map(|i| d[*i]).collect());
        }
    }
    let mut out = Vec::new();
    for dims in &tuples {
        let exact: Option<u128> = dims.iter().try_fold(1u128, |a, x| if *x < 0 { None } else { Some(a * *x as u128) });
        let wrapped: u64 = dims.iter().fold(1u64, |a, x| a.wrapping_mul(*x as u64));
        let mut counts: Vec<usize> = vec![0, 1];
        if let Some(e) = exact {
            if e <= 8 {
                counts.push(e as usize);
            }
        }
        if wrapped <= 8 {
            counts.push(wrapped as usize);
        }
        counts.sort();
        counts.dedup();
        for n in counts {
            let f: Vec<f32> = (0..n).map(|i| i as f32 + 1.0).collect();
            let variants: Vec<(&str, Tensor)> = vec![
                ("FLOAT raw_data", Tensor::f32("T", dims, &f)),
                ("FLOAT float_data", Tensor { name: "T".into(), dims: dims.clone(), data_type: dtype::FLOAT, data: TensorData::Floats(f.clone()) }),
                ("INT64 raw_data", Tensor::i64("T", dims, &(0..n as i64).collect::<Vec<_>>())),
                ("UINT8 int32_data", Tensor { name: "T".into(), dims: dims.clone(), data_type: dtype::UINT8, data: TensorData::Int32s((0..n as i32).collect()) }),
                ("FLOAT16 raw_data", Tensor { name: "T".into(), dims: dims.clone(), data_type: dtype::FLOAT16, data: TensorData::Raw(vec![0x00, 0x3c].repeat(n)) }),
                (
                    "FLOAT external (w.data)",
                    Tensor { name: "T".into(), dims: dims.clone(), data_type: dtype::FLOAT, data: TensorData::External { location: "w.data".into(), offset: Some(8), length: Some(4 * n as u64) } },
                ),
            ];
            for (vn, t) in variants {
                out.push(Item { bytes: seeds::single_init_model(&t).buf, desc: format!("ONNX initializer {vn} dims {dims:?} with {n} element(s) of data") });
            }
        }
    }
    out
}

fn rten_shape_box(thorough: bool) -> Vec<Item> {
    let u: Vec<u32> = if thorough { vec![0, 1, 2, 3, 4, 65536, 1 << 31, u32::MAX] } else { vec![0, 1, 2, 4, 65536, 1 << 31, u32::MAX] };
    let mut tuples: Vec<Vec<u32>> = vec![vec![]];
    for r in 1..=3 {
        for idx in vp_core::odometer::sequences(u.len(), r) {
            tuples.push(idx.iter().map(|i| u[*i]).collect());
        }
    }
    let mut out = Vec::new();
    for shape in &tuples {
        for (inl, v2, nm) in [(Some(Inline::F32), true, "inline f32 V2"), (Some(Inline::U8), true, "inline u8 V2"), (Some(Inline::I32), false, "inline i32 V1")] {
            for n in [0usize, 3, 4, 5] {
                let s = fbw::rten_model(inl, v2, shape, n, 0, 0);
                out.push(Item { bytes: s.bytes, desc: format!(".rten {nm} constant shape {shape:?} with {n} inline element(s)") });
            }
        }
        for (off, tds) in [(0u64, 16usize), (0, 12), (0, 0), (8, 16), (1, 16), (1 << 32, 16), (1 << 63, 16), (u64::MAX - 15, 16), (u64::MAX, 16)] {
            let s = fbw::rten_model(None, true, shape, 0, off, tds);
            out.push(Item { bytes: s.bytes, desc: format!(".rten f32 constant shape {shape:?} in a tensor-data section of {tds} byte(s) at data_offset {off}") });
        }
    }
    out
}

fn rten_prefix_box() -> Vec<Item> {
    let mut out = Vec::new();
    let mut buf = Vec::new();
    let all = InputSet { name: String::new(), kind: SetKind::AllBytes { min_len: 0, max_len: 2 } };
    for i in 0..all.len() {
        all.fill(i, &mut buf);
        let mut b = b"RTEN".to_vec();
        b.extend(&buf);
        out.push(Item { bytes: b, desc: format!("\"RTEN\" followed by bytes {}", hex(&buf)) });
    }
    // V1 sniffing: u32 root offset <= length, then zeros
    for root in [0u32, 1, 3, 4, 5, 8, 16, 17, 0x7fff_ffff, u32::MAX] {
        for len in [0usize, 4, 8, 16, 64] {
            let mut b = root.to_le_bytes().to_vec();
            b.extend(vec![0u8; len]);
            out.push(Item { bytes: b, desc: format!("u32 root offset {root} followed by {len} zero byte(s)") });
        }
    }
    out
}

pub const N_SETS: usize = 5;

pub fn build_set(i: usize, thorough: bool) -> SetSpec {
    match i {
        0 => {
            let mut seeds = seeds::onnx_seeds();
            if !thorough {
                seeds.retain(|s| ["raw", "typed", "ext", "sub"].contains(&s.name));
            }
            let plan = if thorough { FaultPlan::all_bytes() } else { FaultPlan::standard() };
            let mut faults = Vec::new();
            for (i, s) in seeds.iter().enumerate() {
                gens::protobuf_faults(i as u16, &s.msg, &plan, &mut faults);
            }
            SetSpec {
                set: InputSet { name: format!("single faults of {} ONNX seed models", seeds.len()), kind: SetKind::Faults { seeds: seeds.iter().map(|s| (s.name.to_string(), s.msg.buf.clone())).collect(), faults } },
                kind: Kind::Onnx,
                mask: if thorough { 7 } else { E_BUF | E_FILE },
                batch: 128,
            }
        }
        1 => SetSpec {
            set: InputSet { name: "ONNX initializer dims box (dims tuples x data length x storage variant)".into(), kind: SetKind::List(dims_box(thorough)) },
            kind: Kind::Onnx,
            mask: if thorough { 7 } else { E_BUF | E_FILE },
            batch: 256,
        },
        2 => {
            let seeds = rten_seeds();
            let subst: Vec<u8> = if thorough { (0..=255u8).collect() } else { vec![0x00, 0x01, 0x7f, 0x80, 0xff] };
            let mut faults = Vec::new();
            for (i, (_, b)) in seeds.iter().enumerate() {
                width_faults(i as u16, b, thorough, &mut faults);
                gens::byte_faults(i as u16, b, &subst, !thorough, &mut faults);
            }
            SetSpec {
                set: InputSet { name: "single faults of seven .rten seed files (u16/u32/u64 field at every offset := extremes, byte substitutions, truncations)".into(), kind: SetKind::Faults { seeds, faults } },
                kind: Kind::Rten,
                mask: 7,
                batch: 256,
            }
        }
        3 => SetSpec {
            set: InputSet { name: ".rten constant shape box (shape tuples x inline data length / tensor-data offset and length)".into(), kind: SetKind::List(rten_shape_box(thorough)) },
            kind: Kind::Rten,
            mask: if thorough { 7 } else { E_BUF | E_MMAP },
            batch: 256,
        },
        _ => SetSpec {
            set: InputSet { name: "\"RTEN\" + every byte string of length <=2; FlatBuffers root-offset sniffing inputs".into(), kind: SetKind::List(rten_prefix_box()) },
            kind: Kind::Rten,
            mask: if thorough { 7 } else { E_BUF },
            batch: 4096,
        },
    }
}

// ------------------------------------------------------------------ evaluation

/// Check every constant of a loaded model. Returns (number of constants,
/// number whose data was actually read back through a run).
fn check_model(model: &Model, vio: &mut dyn FnMut(String, String)) -> (u64, u64) {
    let mut n = 0;
    let mut ran = 0;
    let consts: Vec<(rten::NodeId, String)> = model
        .verif_graph()
        .iter()
        .filter(|(_, node)| node.as_constant().is_some())
        .map(|(id, node)| (id, node.name().unwrap_or("").to_string()))
        .collect();
    for (id, name) in consts {
        let Some(node) = model.verif_graph().get_node(id) else { continue };
        let Some(c) = node.as_constant() else { continue };
        n += 1;
        let shape: Vec<usize> = c.shape().to_vec();
        let prod: u128 = shape.iter().fold(1u128, |a, d| a.saturating_mul(*d as u128));
        // what the view believes / can deliver
        let (backing, elem_size): (Option<usize>, usize) = match c.as_view() {
            ValueView::FloatTensor(t) => (t.data().map(|d| d.len()), 4),
            ValueView::Int32Tensor(t) => (t.data().map(|d| d.len()), 4),
            ValueView::Int8Tensor(t) => (t.data().map(|d| d.len()), 1),
            ValueView::UInt8Tensor(t) => (t.data().map(|d| d.len()), 1),
            _ => (None, 0),
        };
        let _ = elem_size;
        match backing {
            Some(b) if b as u128 == prod => {}
            Some(b) => {
                vio(
                    "loaded model has a constant whose element count differs from its backing data".to_string(),
                    format!("constant {name:?} has shape {shape:?} (product {prod}) over a backing slice of {b} element(s)"),
                );
                continue;
            }
            None => {
                vio(
                    "loaded model has a constant that is not backed by a contiguous slice".to_string(),
                    format!("constant {name:?} shape {shape:?}"),
                );
                continue;
            }
        }
        if prod > 1 << 20 {
            continue;
        }
        // one run that asks for the constant itself
        match drv::catch(|| model.run(vec![], &[id], None)) {
            Ok(Ok(vals)) => {
                ran += 1;
                let len = vals.first().map(|v| match v {
                    rten::Value::FloatTensor(t) => t.len() as u128,
                    rten::Value::Int32Tensor(t) => t.len() as u128,
                    rten::Value::Int8Tensor(t) => t.len() as u128,
                    rten::Value::UInt8Tensor(t) => t.len() as u128,
                    _ => u128::MAX,
                });
                if len != Some(prod) {
                    vio(
                        "run returns a constant with a different number of elements than its shape".to_string(),
                        format!("constant {name:?} shape {shape:?}: run returned {len:?} element(s)"),
                    );
                }
            }
            Ok(Err(_)) => {}
            Err(p) => vio(
                format!("Model::run on a constant of a loaded model panics: \"{}\" at {}", p.norm_msg(), p.short_file()),
                format!("constant {name:?} shape {shape:?}: \"{}\" at {}:{}", p.msg, p.file, p.line),
            ),
        }
    }
    (n, ran)
}

struct Env {
    dir: PathBuf,
    /// options with all operators; built once, cloned per case (the registry is shared)
    opts: ModelOptions,
}

impl Env {
    fn new(dir: PathBuf) -> Env {
        let _ = std::fs::create_dir_all(&dir);
        let _ = std::fs::write(dir.join("w.data"), seeds::ext_file_content());
        let mut opts = ModelOptions::with_all_ops();
        opts.external_data("w.data", seeds::ext_file_content());
        Env { dir, opts }
    }
}

fn load_err_kind(e: &rten::LoadError) -> &'static str {
    use rten::LoadErrorKind as K;
    match e.kind() {
        K::IoError => "IoError",
        K::ParseError => "ParseError",
        K::OperatorInvalid => "OperatorInvalid",
        K::GraphError => "GraphError",
        K::OptimizeError => "OptimizeError",
        K::ShapeInferenceFailed => "ShapeInferenceFailed",
        K::UnknownFileType => "UnknownFileType",
        K::ExternalDataError => "ExternalDataError",
        K::FormatNotEnabled => "FormatNotEnabled",
        _ => "Other",
    }
}

fn eval(env: &Env, kind: Kind, bytes: &[u8], idx: u64, mask: u64, force_real: bool, prog: &drv::Progress, acc: &mut drv::Acc) {
    acc.n += 1;
    prog.set(idx, 0);
    // Non-termination of the protobuf decoder (property C38) would hang every
    // entry point below; detect it with the instrumented reader first.
    let mut nonterminating = false;
    let big_alloc = |w: &pbref::Walk| w.must_err().map(|o| (o.kind == "string" || o.kind == "bytes") && o.declared >= (1 << 31) && o.declared < (1 << 63)).unwrap_or(false);
    // (inputs that make the decoder allocate a huge declared length are left to the real entry points)
    if kind == Kind::Onnx && !big_alloc(&pbref::walk(bytes, Mt::Model)) && !big_alloc(&pbref::walk(bytes, Mt::SlimModel)) {
        prog.stage(100);
        let (full, sniff, backward) = c38::budget_trips(bytes);
        if full || sniff {
            nonterminating = true;
            acc.notes.push(json!([idx, if full { "full" } else { "sniff" }]));
            acc.vio(
                if backward {
                    "loading an ONNX model does not terminate: a protobuf skip with a length >= 2^63 seeks backwards and the same fields are decoded again".to_string()
                } else {
                    "loading an ONNX model does not terminate: protobuf varint reads that make no progress (10 continuation bytes)".to_string()
                },
                idx,
                format!("the instrumented reader exceeded its linear budget on this {}-byte input (decoder={full}, file-type sniffer={sniff}); the real entry points are confirmed on a sample", bytes.len()),
            );
        }
    }
    if nonterminating && !force_real {
        acc.count("skipped_nonterminating", 1);
        return;
    }
    let ext = if kind == Kind::Onnx { "onnx" } else { "rten" };
    let path = env.dir.join(format!("m.{ext}"));
    let mut wrote = false;
    let mut any_ok = false;
    for (e, ename) in ENTRIES {
        if mask & e == 0 {
            continue;
        }
        if e != E_BUF && !wrote {
            if std::fs::write(&path, bytes).is_err() {
                continue;
            }
            wrote = true;
        }
        prog.stage(e);
        let res = drv::catch(|| -> Result<(u64, u64, Vec<(String, String)>), &'static str> {
            let opts = env.opts.clone();
            let m = match e {
                E_BUF => opts.load(bytes.to_vec()),
                E_FILE => opts.load_file(&path),
                _ => unsafe { opts.load_mmap(&path) },
            };
            match m {
                Ok(model) => {
                    let mut v = Vec::new();
                    let (n, ran) = check_model(&model, &mut |s, d| v.push((s, d)));
                    Ok((n, ran, v))
                }
                Err(err) => Err(load_err_kind(&err)),
            }
        });
        match res {
            Ok(Ok((n, ran, vios))) => {
                any_ok = true;
                acc.hist(format!("{ename}: Ok"));
                acc.count("constants_checked", n);
                acc.count("constants_read_back_by_run", ran);
                for (s, d) in vios {
                    acc.vio(s, idx, format!("[{ename}] {d}"));
                }
            }
            Ok(Err(k)) => acc.hist(format!("{ename}: Err({k})")),
            Err(p) => {
                acc.hist(format!("{ename}: PANIC"));
                acc.vio(
                    format!("loading panics: \"{}\" at {}", p.norm_msg(), p.short_file()),
                    idx,
                    format!("[{ename}] panicked: \"{}\" at {}:{}", p.msg, p.file, p.line),
                );
            }
        }
    }
    prog.stage(0);
    if any_ok {
        acc.count("loaded_ok", 1);
        acc.hashes.push(vp_core::fnv(bytes));
    }
}

thread_local! {
    static SETS: std::cell::RefCell<BTreeMap<(usize, bool), &'static SetSpec>> = const { std::cell::RefCell::new(BTreeMap::new()) };
}

fn set_for(i: usize, thorough: bool) -> &'static SetSpec {
    SETS.with(|s| *s.borrow_mut().entry((i, thorough)).or_insert_with(|| Box::leak(Box::new(build_set(i, thorough)))))
}

pub fn worker() -> ! {
    drv::die_with_parent();
    let sup = drv::Supervisor::new();
    let env = Env::new(PathBuf::from(format!("/tmp/mc-bytes-c05-{}", std::process::id())));
    vp_core::isolate::worker_loop(move |req| {
        drv::install_panic_hook();
        if !env.dir.join("w.data").exists() {
            Env::new(env.dir.clone());
        }
        let case_timeout = Duration::from_millis(req["case_timeout_ms"].as_u64().unwrap_or(5000));
        let force_real = req["force_real"].as_bool().unwrap_or(false);
        if let Some(h) = req["explicit"].as_str() {
            let bytes = unhex(h);
            let kind = if req["kind"] == "rten" { Kind::Rten } else { Kind::Onnx };
            let mask = req["mask"].as_u64().unwrap_or(7);
            let mut body = |_f: u64, _t: u64, prog: &drv::Progress| -> Json {
                let mut acc = drv::Acc::default();
                eval(&env, kind, &bytes, 0, mask, force_real, prog, &mut acc);
                acc.to_json()
            };
            return drv::supervised_answer(&sup, 0, 0, 1, case_timeout, &|_| false, &mut body);
        }
        let thorough = req["thorough"].as_bool().unwrap_or(false);
        let set = req["set"].as_u64().unwrap_or(0) as usize;
        if set >= N_SETS {
            return json!({"machinery": "unknown set"});
        }
        let (start, end) = (req["start"].as_u64().unwrap_or(0), req["end"].as_u64().unwrap_or(0));
        let spec = set_for(set, thorough);
        let end = end.min(spec.set.len());
        let mut body = |from: u64, to: u64, prog: &drv::Progress| -> Json {
            let mut acc = drv::Acc::default();
            let mut buf = Vec::new();
            for idx in from..to {
                spec.set.fill(idx, &mut buf);
                eval(&env, spec.kind, &buf, idx, spec.mask, false, prog, &mut acc);
            }
            acc.to_json()
        };
        let risky = |idx: u64| -> bool {
            if spec.kind != Kind::Onnx {
                return false;
            }
            let mut b = Vec::new();
            spec.set.fill(idx, &mut b);
            let w = pbref::walk(&b, Mt::Model);
            match w.must_err() {
                Some(o) => (o.kind == "string" || o.kind == "bytes") && o.declared >= (1 << 33) && o.declared < (1 << 63),
                None => false,
            }
        };
        drv::supervised_answer(&sup, set, start, end, case_timeout, &risky, &mut body)
    })
}

const MEM_LIMIT: u64 = 8 << 30;

fn fault_sig(f: &Fault, bytes: &[u8]) -> (String, String) {
    let entry = entry_name(f.stage);
    let alloc_n: Option<u128> = f.stderr.split("memory allocation of ").nth(1).and_then(|r| r.split(' ').next()).and_then(|n| n.parse().ok());
    let sig = match &f.kind {
        FaultKind::Timeout => "loading does not return (hang)".to_string(),
        FaultKind::Died(_) => {
            if let Some(n) = alloc_n {
                if n > bytes.len() as u128 * 16 + 4096 {
                    "loading aborts the process: allocation sized by a length field of the input, far larger than the input".to_string()
                } else {
                    "loading aborts the process: memory allocation failure".to_string()
                }
            } else if f.stderr.contains("overflowed its stack") {
                "loading aborts the process: stack overflow".to_string()
            } else {
                format!("loading kills the process ({})", f.kind.short())
            }
        }
    };
    (sig, format!("{entry} on a {}-byte input: {}; stderr of the dying process: {:?}", bytes.len(), f.kind.describe(), f.stderr))
}

pub fn run(ctx: Ctx) -> ! {
    if let Some(path) = ctx.replay.clone() {
        replay(ctx, &path);
    }
    let thorough = ctx.tier.is_thorough();
    let sets: Vec<SetSpec> = (0..N_SETS).map(|i| build_set(i, thorough)).collect();

    // the unmodified seeds must load and expose the expected constants
    {
        let env = Env::new(PathBuf::from(format!("/tmp/mc-bytes-c05p-{}", std::process::id())));
        for s in seeds::onnx_seeds() {
            let mut opts = ModelOptions::with_all_ops();
            opts.external_data("w.data", seeds::ext_file_content());
            opts.enable_optimization(false);
            match vp_core::catch(|| opts.load(s.msg.buf.clone())) {
                Ok(Ok(m)) => {
                    for (name, n) in &s.constants {
                        let found = m.verif_graph().iter().find_map(|(_, node)| node.as_constant().filter(|c| c.name() == Some(*name)).map(|c| c.shape().iter().product::<usize>()));
                        if found != Some(*n) {
                            ctx.machinery(&format!("C05: seed '{}' constant {name:?}: expected {n} elements, found {found:?}", s.name));
                        }
                    }
                }
                other => ctx.machinery(&format!("C05: ONNX seed '{}' does not load: {:?}", s.name, other.map(|r| r.map(|_| ()).map_err(|e| e.to_string())))),
            }
        }
        for (name, b) in rten_seeds() {
            match vp_core::catch(|| Model::load(b.clone())) {
                Ok(Ok(m)) => {
                    if !m.verif_graph().iter().any(|(_, n)| n.as_constant().is_some()) {
                        ctx.machinery(&format!("C05: .rten seed '{name}' has no constant"));
                    }
                }
                other => ctx.machinery(&format!("C05: .rten seed '{name}' does not load: {:?}", other.map(|r| r.map(|_| ()).map_err(|e| e.to_string())))),
            }
        }
        let _ = std::fs::remove_dir_all(&env.dir);
    }

    let tot = drv::Totals::new();
    let mut batches = Vec::new();
    let only: Option<usize> = std::env::var("MC_ONLY_SET").ok().and_then(|s| s.parse().ok());
    for (i, s) in sets.iter().enumerate() {
        if only.map(|o| o != i).unwrap_or(false) {
            continue;
        }
        drv::split(i, s.set.len(), s.batch, &mut batches);
    }
    if !batches.is_empty() {
        let r = (ctx.seed as usize) % batches.len();
        batches.rotate_left(r);
    }
    let cfg = DrvConfig { worker: "c05", nworkers: vp_core::par::threads(), watchdog: Duration::from_secs(3600), confirm_watchdog: Duration::from_secs(3600), mem_limit: MEM_LIMIT };
    let case_timeout_ms: u64 = if thorough { 10_000 } else { 5_000 };
    let make_req = |b: &Batch, _p: &str, _s: bool| -> Json { json!({"set": b.set, "start": b.start, "end": b.end, "thorough": thorough, "case_timeout_ms": case_timeout_ms}) };
    let on_answer = |b: &Batch, a: &Json| tot.absorb(b.set, a);
    let on_fault = |f: &Fault| vp_core::machinery_error(&format!("C05: the supervising worker itself failed: {f:?}"));
    let stats = drv::run_batches(&cfg, &batches, &make_req, &on_answer, &on_fault);
    cleanup_tmp("mc-bytes-c05-");

    let mut buf = Vec::new();
    let fault_list = std::mem::take(&mut *tot.faults.lock().unwrap());
    let n_faults = fault_list.len();
    for f in fault_list {
        sets[f.set].set.fill(f.idx, &mut buf);
        let (sig, detail) = fault_sig(&f, &buf);
        tot.cnt.add("evaluations", 1);
        tot.book.add(&sig, 1, f.set, f.idx, &detail);
    }
    if tot.cnt.get("unconfirmed_deaths") > 0 {
        ctx.machinery("C05: a process death did not reproduce when its case was re-run alone");
    }

    // confirm a sample of the predicted non-terminating loads against the real entry points
    let mut tr: Vec<(usize, u64, String)> = tot.notes.lock().unwrap().iter().map(|(set, j)| (*set, j[0].as_u64().unwrap_or(0), j[1].as_str().unwrap_or("").to_string())).collect();
    tr.sort();
    let mut confirm_notes = Vec::new();
    let mut w = vp_core::isolate::Worker::new("c05", Duration::from_secs(600), MEM_LIMIT);
    for (set, idx, which) in tr.iter().take(2) {
        sets[*set].set.fill(*idx, &mut buf);
        for e in [E_BUF, E_FILE] {
            let out = w.run(&json!({"explicit": hex(&buf), "kind": "onnx", "mask": e, "force_real": true, "case_timeout_ms": 5000}));
            let note = match out {
                vp_core::isolate::Outcome::Answer(a) => match a["faults"].as_array().and_then(|f| f.first().cloned()) {
                    Some(f) if f["kind"] == "timeout" => format!("{} on input #{idx} of set {set} ({which}) did not return within 5 s of CPU time (confirmed hang)", entry_name(e)),
                    Some(f) => format!("{} on input #{idx} of set {set}: process died {}", entry_name(e), f["status"]),
                    None => format!("{} on input #{idx} of set {set} returned: {}", entry_name(e), a["hist"]),
                },
                other => format!("supervisor failure {other:?}"),
            };
            confirm_notes.push(note);
        }
    }
    drop(w);
    cleanup_tmp("mc-bytes-c05-");

    let hist = std::mem::take(&mut *tot.hist.lock().unwrap());
    let loaded = tot.hashes.lock().unwrap().len() as u64;
    if only.is_none() {
        if loaded < 2 || tot.cnt.get("constants_read_back_by_run") == 0 {
            ctx.machinery("C05: vacuous (no mutated model loaded / no constant was read back)");
        }
        for (_, en) in ENTRIES {
            if !hist.contains_key(&format!("{en}: Ok")) {
                ctx.machinery(&format!("C05: {en} never succeeded"));
            }
        }
    }
    for (sig, e) in tot.book.drain() {
        let (set, idx) = e.key;
        sets[set].set.fill(idx, &mut buf);
        let case = json!({
            "bytes_hex": hex(&buf),
            "length": buf.len(),
            "kind": if sets[set].kind == Kind::Onnx { "onnx" } else { "rten" },
            "from_set": sets[set].set.name,
            "index": idx,
            "what": sets[set].set.describe(idx),
        });
        ctx.violation(sig.clone(), case, e.detail.clone());
        for _ in 1..e.count {
            ctx.violation(sig.clone(), Json::Null, "");
        }
    }
    for (k, v) in std::mem::take(&mut *tot.obs.lock().unwrap()) {
        ctx.observe_n(&k, v);
    }
    let samples = vp_core::Samples::new(8);
    for (si, idx) in [(0usize, 50u64), (0, 9000), (1, 77), (2, 300), (3, 41), (4, 1000)] {
        if let Some(s) = sets.get(si) {
            if idx < s.set.len() {
                s.set.fill(idx, &mut buf);
                samples.push(|| json!({"set": s.set.name, "index": idx, "what": s.set.describe(idx), "bytes_hex": vp_core::truncate(&hex(&buf), 160)}));
            }
        }
    }
    let total: u64 = sets.iter().map(|s| s.set.len()).sum();
    println!(
        "C05 summary: {} inputs in {} sets ({} evaluated), {} distinct inputs loaded as a model, {} constants checked ({} read back by a run), {} distinct (entry, outcome) pairs, {} deaths/hangs",
        total,
        sets.len(),
        tot.cnt.get("evaluations"),
        loaded,
        tot.cnt.get("constants_checked"),
        tot.cnt.get("constants_read_back_by_run"),
        hist.len(),
        n_faults
    );
    let coverage = json!({
        "evaluations": tot.cnt.get("evaluations"),
        "distinct_nontrivial": loaded,
        "rule": "every input of every set goes through the listed entry points in an isolated process (RLIMIT_AS 8 GiB, per-case CPU watchdog); an input counts as non-trivial when at least one entry point returned a model, whose constants were then checked (u128 shape product == backing slice length == length returned by a run). Distinct by hash.",
        "samples": samples.take(),
        "exhaustive": only.is_none(),
        "sets": sets.iter().enumerate().map(|(i, s)| json!({
            "set": s.set.name,
            "inputs": s.set.len(),
            "evaluated": tot.cnt.get(&format!("set{i}_evaluations")),
            "loaded_ok": tot.cnt.get(&format!("set{i}_loaded_ok")),
            "entry_points": ENTRIES.iter().filter(|e| s.mask & e.0 != 0).map(|e| e.1).collect::<Vec<_>>(),
        })).collect::<Vec<_>>(),
        "inputs_total": total,
        "constants_checked": tot.cnt.get("constants_checked"),
        "constants_read_back_by_run": tot.cnt.get("constants_read_back_by_run"),
        "predicted_nonterminating_inputs_not_given_to_real_entry_points": tot.cnt.get("skipped_nonterminating"),
        "hang_confirmations": confirm_notes,
        "outcome_histogram": hist,
        "process_deaths_and_hangs_isolated": n_faults,
        "isolation": {"forked_children": tot.cnt.get("forks"), "timeouts_not_reproduced_alone": tot.cnt.get("unconfirmed_timeouts"), "outer": drv::stats_json(&stats)},
    });
    ctx.finish(
        "fault_enumeration",
        coverage,
        vec![
            "constants of subgraphs are checked only through the run of the top-level constants; only top-level graph constants are inspected".into(),
            "inputs on which the instrumented protobuf reader exceeds its linear budget (property C38) are reported and not handed to the real entry points, except for a confirmed sample".into(),
            "RLIMIT_AS = 8 GiB, RTEN_NUM_THREADS=1, per-case CPU-time watchdog; undefined behaviour is observed only as crash / wrong constant, there is no UB detector".into(),
        ],
    )
}

fn cleanup_tmp(prefix: &str) {
    if let Ok(rd) = std::fs::read_dir("/tmp") {
        for e in rd.flatten() {
            let n = e.file_name().to_string_lossy().to_string();
            if let Some(rest) = n.strip_prefix(prefix) {
                let pid: i32 = rest.parse().unwrap_or(0);
                let alive = pid > 0 && unsafe { libc::kill(pid, 0) } == 0;
                if !alive {
                    let _ = std::fs::remove_dir_all(e.path());
                }
            }
        }
    }
}

fn replay(ctx: Ctx, path: &Path) -> ! {
    let case = vp_core::read_replay_case(path);
    let bytes = unhex(case["bytes_hex"].as_str().unwrap_or(""));
    let kind = case["kind"].as_str().unwrap_or("onnx").to_string();
    let mut w = vp_core::isolate::Worker::new("c05", Duration::from_secs(600), MEM_LIMIT);
    let mut run_one = |force: bool| -> Json {
        match w.run(&json!({"explicit": hex(&bytes), "kind": kind, "mask": 7, "force_real": force, "case_timeout_ms": 5000})) {
            vp_core::isolate::Outcome::Answer(a) => a,
            other => vp_core::machinery_error(&format!("replay: supervisor failure {other:?}")),
        }
    };
    let a = run_one(false);
    let report = |a: &Json| {
        if let Some(vs) = a["vio"].as_array() {
            for v in vs {
                ctx.violation(v["sig"].as_str().unwrap_or("?"), case.clone(), v["detail"].as_str().unwrap_or(""));
            }
        }
        if let Some(fs) = a["faults"].as_array() {
            for f in fs {
                let (sig, detail) = fault_sig(&drv::fault_from_json(f), &bytes);
                ctx.violation(sig, case.clone(), detail);
            }
        }
        println!("replay outcomes: {} faults: {}", a["hist"], a["faults"]);
    };
    report(&a);
    if a["notes"].as_array().map(|n| !n.is_empty()).unwrap_or(false) {
        let b = run_one(true);
        println!("replay with the real entry points forced: faults: {}", b["faults"]);
    }
    drop(w);
    cleanup_tmp("mc-bytes-c05-");
    ctx.finish("fault_enumeration", json!({"evaluations": 1, "distinct_nontrivial": 2, "rule": "replay of one recorded case", "samples": [case]}), vec![])
}
