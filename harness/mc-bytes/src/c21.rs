//! C21 — external tensor data can only come from a plain, recognised file name
//! directly inside the model's directory and from a byte range inside that
//! file; everything else is a load error (never a panic / abort).

use std::collections::BTreeMap;
use std::path::{Path, PathBuf};
use std::time::Duration;

use rten::{Model, ModelOptions, ValueView};
use rten_tensor::prelude::*;
use vp_core::{Ctx, Json, json};
use vp_onnx::{Node, Tensor, TensorData, ValueInfo, dtype};

use crate::drv::{self, Batch, DrvConfig, Fault, FaultKind};
use crate::seeds;

/// length of every sandbox data file
const L: u64 = 64;

// ------------------------------------------------------------------ sandbox

/// Files directly inside the model directory (name, id). Content of file `id`
/// is `byte[i] = (id * 37 + i * 3 + 1) % 251`, so every file is distinguishable.
const DIR_FILES: [(&str, u8); 16] = [
    ("w.data", 1),
    ("w.onnx_data", 2),
    ("w.onnx_data_1", 3),
    ("w.DATA", 4),
    ("w.bin", 5),
    ("w", 6),
    (".data", 7),
    ("data", 8),
    ("ä.data", 9),
    ("inner.data", 10), // same name as the file in sub/, different content
    ("outside.data", 11), // same name as the file outside, different content
    ("w.database", 12),
    ("sub\\inner.data", 13), // backslash is an ordinary character on this platform
    ("C:", 14),
    ("~", 15),
    ("..\\outside.data", 16),
];

fn pattern(id: u8) -> Vec<u8> {
    (0..L).map(|i| ((id as u64 * 37 + i * 3 + 1) % 251) as u8).collect()
}

struct Sandbox {
    root: PathBuf,
}

impl Sandbox {
    fn create(root: PathBuf) -> Sandbox {
        let _ = std::fs::remove_dir_all(&root);
        let dir = root.join("dir");
        std::fs::create_dir_all(dir.join("sub")).unwrap();
        std::fs::create_dir_all(dir.join("d.data")).unwrap();
        for (name, id) in DIR_FILES {
            std::fs::write(dir.join(name), pattern(id)).unwrap();
        }
        std::fs::write(dir.join("empty.data"), b"").unwrap();
        std::fs::write(dir.join("sub").join("inner.data"), pattern(100)).unwrap();
        std::fs::write(root.join("outside.data"), pattern(101)).unwrap();
        Sandbox { root }
    }
    fn dir(&self) -> PathBuf {
        self.root.join("dir")
    }
}

// --------------------------------------------------------------------- cases

#[derive(Clone, Debug)]
pub struct Case {
    pub location: String,
    pub offset: String,
    pub length: String,
    /// dims of the UINT8 initializer
    pub dims: Vec<i64>,
    /// Some(location): the model has an earlier external tensor W0 (offset 0, length 4) at this
    /// (valid) location, loaded before W - the loaders keep per-file state between tensors
    pub first: Option<String>,
}

impl Case {
    fn to_json(&self) -> Json {
        json!({"location": self.location, "location_bytes_hex": drv::hex(self.location.as_bytes()), "offset": self.offset, "length": self.length, "dims": self.dims, "first": self.first})
    }
    fn from_json(j: &Json) -> Case {
        Case {
            location: String::from_utf8_lossy(&drv::unhex(j["location_bytes_hex"].as_str().unwrap_or(""))).to_string(),
            offset: j["offset"].as_str().unwrap_or("0").to_string(),
            length: j["length"].as_str().unwrap_or("0").to_string(),
            dims: j["dims"].as_array().map(|a| a.iter().map(|x| x.as_i64().unwrap_or(0)).collect()).unwrap_or_default(),
            first: j["first"].as_str().map(|s| s.to_string()),
        }
    }
}

const COMPONENTS_FULL: [&str; 21] = [
    "w.data", "w.onnx_data", "w.onnx_data_1", "w.DATA", "w.bin", "w", ".data", "data", "sub", ".", "..", "", "ä.data", "w.data\0", "C:", "~", "inner.data",
    "outside.data", "d.data", "w.database", "empty.data",
];
const COMPONENTS_SMALL: [&str; 8] = ["w.data", "sub", ".", "..", "", "inner.data", "w.bin", "outside.data"];

fn location_strings(comps: &[&str], n: usize, out: &mut Vec<String>) {
    for idx in vp_core::odometer::sequences(comps.len(), n) {
        let parts: Vec<&str> = idx.iter().map(|i| comps[*i]).collect();
        for sep in ["/", "\\"] {
            if n == 1 && sep == "\\" {
                // a single component has no inner separator; the trailing/leading variants below still use both
            }
            let joined = parts.join(sep);
            for prefix in ["", "/", "\\\\", "C:\\"] {
                for trailing in [false, true] {
                    let mut s = String::new();
                    s.push_str(prefix);
                    s.push_str(&joined);
                    if trailing {
                        s.push_str(sep);
                    }
                    out.push(s);
                }
            }
        }
    }
}

fn numeric_extremes() -> Vec<u64> {
    vec![0, 1, 8, 16, L - 1, L, L + 1, (1 << 31) - 1, 1 << 31, 1 << 32, 1 << 40, 1 << 62, (1 << 63) - 1, 1 << 63, u64::MAX - 1, u64::MAX]
}

pub const N_SETS: usize = 4;
const SET_NAMES: [&str; 4] = [
    "location strings (<=2 components x separator x prefix x trailing separator) for the SECOND external tensor of a model whose first tensor is loaded from w.data (per-file loader state)",
    "location strings (<=3 components x separator x prefix x trailing separator), offset 8, length 16",
    "offset x length extremes for location w.data (two dims variants)",
    "non-canonical offset / length strings",
];

pub fn build_set(i: usize, thorough: bool) -> Vec<Case> {
    let mut out = Vec::new();
    match i {
        0 => {
            let mut locs = Vec::new();
            location_strings(&COMPONENTS_FULL, 1, &mut locs);
            location_strings(&COMPONENTS_FULL, 2, &mut locs);
            for extra in ["w.data//", "w.data/./", "w.data/./.", "./w.data", ".//w.data", "w.data/../w.data", "sub/../w.data"] {
                locs.push(extra.to_string());
            }
            let mut seen = std::collections::HashSet::new();
            for l in locs {
                if seen.insert(l.clone()) {
                    out.push(Case { location: l, offset: "8".into(), length: "16".into(), dims: vec![16], first: Some("w.data".into()) });
                }
            }
        }
        1 => {
            let mut locs = Vec::new();
            location_strings(&COMPONENTS_FULL, 1, &mut locs);
            location_strings(&COMPONENTS_FULL, 2, &mut locs);
            if thorough {
                location_strings(&COMPONENTS_FULL, 3, &mut locs);
            } else {
                location_strings(&COMPONENTS_SMALL, 3, &mut locs);
            }
            let mut seen = std::collections::HashSet::new();
            for l in locs {
                if seen.insert(l.clone()) {
                    out.push(Case { location: l, offset: "8".into(), length: "16".into(), dims: vec![16], first: None });
                }
            }
        }
        2 => {
            for loc in ["w.data", "empty.data"] {
                for o in numeric_extremes() {
                    for l in numeric_extremes() {
                        let exact: i64 = if l <= 1 << 62 { l as i64 } else { 4 };
                        for dims in [vec![exact], vec![4], vec![2, 2]] {
                            out.push(Case { location: loc.into(), offset: o.to_string(), length: l.to_string(), dims, first: None });
                        }
                    }
                }
            }
            out.dedup_by(|a, b| a.location == b.location && a.offset == b.offset && a.length == b.length && a.dims == b.dims);
        }
        _ => {
            let odd = ["", " 8", "8 ", "+8", "-8", "-0", "08", "0x8", "8.0", "1e1", "８", "18446744073709551616", "99999999999999999999999999", "8\0"];
            for s in odd {
                out.push(Case { location: "w.data".into(), offset: s.into(), length: "16".into(), dims: vec![16], first: None });
                out.push(Case { location: "w.data".into(), offset: "8".into(), length: s.into(), dims: vec![16], first: None });
                out.push(Case { location: "w.data".into(), offset: "8".into(), length: s.into(), dims: vec![8], first: None });
            }
        }
    }
    out
}

fn model_bytes(c: &Case) -> Vec<u8> {
    // TensorData::External writes offset/length as decimal numbers; we need raw strings
    let mut t = Tensor { name: "W".into(), dims: c.dims.clone(), data_type: dtype::UINT8, data: TensorData::None }.encode();
    let mut kv = |k: &str, v: &str| {
        let mut e = vp_onnx::pb::Msg::new();
        e.string(1, k);
        e.string(2, v);
        e
    };
    let e1 = kv("location", &c.location);
    let e2 = kv("offset", &c.offset);
    let e3 = kv("length", &c.length);
    t.msg(13, &e1);
    t.msg(13, &e2);
    t.msg(13, &e3);
    t.varint(14, 1);
    let mut g = vp_onnx::pb::Msg::new();
    if c.first.is_some() {
        g.msg(1, &Node::new("Identity", &["W0"], &["O0"]).encode());
    }
    g.msg(1, &Node::new("Identity", &["W"], &["O"]).encode());
    g.string(2, "ext");
    if let Some(first) = &c.first {
        // an earlier, valid external tensor (bytes 0..4 of `first`)
        let mut t0 = Tensor { name: "W0".into(), dims: vec![4], data_type: dtype::UINT8, data: TensorData::None }.encode();
        let f1 = kv("location", first);
        let f2 = kv("offset", "0");
        let f3 = kv("length", "4");
        t0.msg(13, &f1);
        t0.msg(13, &f2);
        t0.msg(13, &f3);
        t0.varint(14, 1);
        g.msg(5, &t0);
        g.msg(12, &ValueInfo::typed_no_shape("O0", dtype::UINT8).encode());
    }
    g.msg(5, &t);
    g.msg(12, &ValueInfo::typed_no_shape("O", dtype::UINT8).encode());
    seeds::model_msg(&g, seeds::OPSET).buf
}

// ------------------------------------------------------------------ reference

#[derive(Debug, PartialEq)]
enum Verdict {
    /// must be reported as a load error, for this reason
    MustErr(&'static str),
    /// may load; if it does, the constant must be these bytes
    MayOk(Vec<u8>),
    /// the statement does not decide (grey extension, unparsable-but-lenient number); if it
    /// loads, the data must still come from this plain file inside the directory
    Grey(Option<Vec<u8>>),
}

fn parse_dec(s: &str) -> Option<u128> {
    if s.is_empty() || !s.bytes().all(|b| b.is_ascii_digit()) {
        return None;
    }
    s.parse::<u128>().ok()
}

/// Reference predicate, written from the statement of the property and
/// docs/security.md, for a POSIX platform ('/' is the only separator).
fn reference(c: &Case, dir: &Path) -> Verdict {
    let loc = &c.location;
    if loc.is_empty() {
        return Verdict::MustErr("empty location");
    }
    if loc.starts_with('/') {
        return Verdict::MustErr("absolute path");
    }
    if loc.contains('/') {
        if loc.split('/').any(|p| p == "..") {
            return Verdict::MustErr("parent-directory component");
        }
        let mut parts = loc.split('/');
        let first = parts.next().unwrap_or("");
        if !first.is_empty() && first != "." && parts.all(|p| p.is_empty() || p == ".") {
            return Verdict::MustErr("separator after the file name ('name/' or 'name/.')");
        }
        return Verdict::MustErr("more than a single plain file name");
    }
    if loc == "." || loc == ".." {
        return Verdict::MustErr("not a file name");
    }
    if loc.contains('\0') {
        return Verdict::MustErr("NUL in file name");
    }
    // extension = text after the last '.', if the '.' is not the first character
    let ext = match loc.rfind('.') {
        Some(p) if p > 0 && p + 1 < loc.len() => Some(&loc[p + 1..]),
        _ => None,
    };
    let recognised = match ext {
        Some("data") | Some("onnx_data") => Some(true),
        Some(e) if e.strip_prefix("onnx_data_").map(|d| !d.is_empty() && d.bytes().all(|b| b.is_ascii_digit())).unwrap_or(false) => Some(true),
        Some(e) if e.to_ascii_lowercase().contains("data") => None, // grey: "DATA", "database", ...
        // no extension at all ("data", "dataset", ".data"): not "a recognised data extension"
        _ => Some(false),
    };
    if recognised == Some(false) {
        return Verdict::MustErr("unrecognised extension");
    }
    // range
    let (off, len) = (parse_dec(&c.offset), parse_dec(&c.length));
    let file = std::fs::read(dir.join(loc)).ok();
    let (Some(off), Some(len)) = (off, len) else {
        // not plain decimal; a reader may or may not accept e.g. "+8"
        return Verdict::Grey(None);
    };
    if off > u64::MAX as u128 || len > u64::MAX as u128 {
        return Verdict::MustErr("offset/length does not fit 64 bits");
    }
    let Some(file) = file else {
        return Verdict::MustErr("file does not exist / is not a regular file");
    };
    if off + len > file.len() as u128 {
        if len == 0 {
            return Verdict::MustErr("zero-length range that starts beyond the end of the file");
        }
        return Verdict::MustErr("byte range outside the file");
    }
    let elems: Option<u128> = c.dims.iter().try_fold(1u128, |a, d| if *d < 0 { None } else { Some(a * *d as u128) });
    if elems != Some(len) {
        return Verdict::MustErr("length does not match the tensor's byte size");
    }
    let bytes = file[off as usize..(off + len) as usize].to_vec();
    match recognised {
        Some(true) => Verdict::MayOk(bytes),
        _ => Verdict::Grey(Some(bytes)),
    }
}

// ------------------------------------------------------------------ evaluation

const LOADERS: [&str; 3] = ["load_file (FileLoader)", "load_mmap (MmapLoader)", "load + external_data (MemLoader)"];

/// Bytes of the constant the model ended up with (via the graph and via a run).
fn constant_bytes(model: &Model) -> Result<Vec<u8>, String> {
    let mut from_graph = None;
    for (_, node) in model.verif_graph().iter() {
        if let Some(c) = node.as_constant() {
            if c.name() == Some("W") {
                if let ValueView::UInt8Tensor(t) = c.as_view() {
                    from_graph = Some(t.iter().copied().collect::<Vec<u8>>());
                }
            }
        }
    }
    let out = model.node_id("O").map_err(|e| format!("no output O: {e}"))?;
    let res = model.run(vec![], &[out], None).map_err(|e| format!("run failed: {e}"))?;
    let run_bytes = match res.into_iter().next() {
        Some(rten::Value::UInt8Tensor(t)) => t.iter().copied().collect::<Vec<u8>>(),
        _ => return Err("run did not return a u8 tensor".into()),
    };
    if let Some(g) = from_graph {
        if g != run_bytes {
            return Err(format!("graph constant {:?} differs from run output {:?}", g, run_bytes));
        }
    }
    Ok(run_bytes)
}

fn eval(sb: &Sandbox, c: &Case, idx: u64, prog: &drv::Progress, acc: &mut drv::Acc) {
    acc.n += 1;
    prog.set(idx, 0);
    let dir = sb.dir();
    let verdict = reference(c, &dir);
    let bytes = model_bytes(c);
    let model_path = dir.join("model.onnx");
    std::fs::write(&model_path, &bytes).unwrap();
    match &verdict {
        Verdict::MayOk(_) => acc.count("reference_may_load", 1),
        Verdict::MustErr(_) => acc.count("reference_must_err", 1),
        Verdict::Grey(_) => acc.count("reference_undecided", 1),
    }
    let mut any_ok = false;
    for (li, lname) in LOADERS.iter().enumerate() {
        prog.stage(li as u64 + 1);
        let res = drv::catch(|| -> Result<Result<Vec<u8>, String>, String> {
            let mut opts = ModelOptions::with_all_ops();
            opts.enable_optimization(false);
            let m = match li {
                0 => opts.load_file(&model_path),
                1 => unsafe { opts.load_mmap(&model_path) },
                _ => {
                    // in-memory loader: whatever the location string is, a buffer is registered
                    // under exactly that key, so only the path policy can refuse it
                    opts.external_data("w.data", pattern(1));
                    opts.external_data("empty.data", Vec::new());
                    if c.location != "w.data" && c.location != "empty.data" {
                        opts.external_data(&c.location, pattern(200));
                    }
                    opts.load(bytes.clone())
                }
            };
            match m {
                Ok(model) => Ok(constant_bytes(&model)),
                Err(e) => Err(format!("{:?}", e.kind())),
            }
        });
        match res {
            Err(p) => {
                acc.hist(format!("{lname}: PANIC"));
                acc.vio(
                    format!("{lname} panics: \"{}\" at {}", p.norm_msg(), p.short_file()),
                    idx,
                    format!("panicked: \"{}\" at {}:{}", p.msg, p.file, p.line),
                );
            }
            Ok(Err(kind)) => {
                acc.hist(format!("{lname}: Err({kind})"));
                if let Verdict::MayOk(_) = &verdict {
                    // for the in-memory loader "the file" is the registered buffer; same expectation
                    acc.obs(&format!("{lname}: valid location and range rejected ({kind})"));
                }
            }
            Ok(Ok(got)) => {
                any_ok = true;
                acc.hist(format!("{lname}: Ok"));
                let got = match got {
                    Ok(g) => g,
                    Err(e) => {
                        acc.obs(&format!("{lname}: loaded but constant not retrievable: {}", vp_core::truncate(&e, 80)));
                        continue;
                    }
                };
                // expected source of the bytes
                let mem_expected = |off: usize, len: usize| -> Vec<u8> {
                    let src = if c.location == "w.data" {
                        pattern(1)
                    } else if c.location == "empty.data" {
                        Vec::new()
                    } else {
                        pattern(200)
                    };
                    src.get(off..off + len).map(|s| s.to_vec()).unwrap_or_default()
                };
                match &verdict {
                    Verdict::MustErr(why) => {
                        // the in-memory loader has no directory: file-existence does not apply to it
                        if li == 2 && (*why == "file does not exist / is not a regular file" || *why == "NUL in file name") {
                            acc.obs("MemLoader: loads a registered buffer whose name is not a file in the sandbox (no directory involved)");
                        } else {
                            acc.vio(
                                format!("external data accepted although it must be refused: {why}{}", if c.first.is_some() { " [second external tensor of the model; the first one was loaded from w.data]" } else { "" }),
                                idx,
                                format!("[{lname}] returned a model (constant bytes {:?}) for location {:?} offset {:?} length {:?} dims {:?}", &got[..got.len().min(16)], c.location, c.offset, c.length, c.dims),
                            );
                        }
                    }
                    Verdict::MayOk(want) | Verdict::Grey(Some(want)) => {
                        let want = if li == 2 {
                            let off = parse_dec(&c.offset).unwrap_or(0) as usize;
                            mem_expected(off, want.len())
                        } else {
                            want.clone()
                        };
                        if got != want {
                            acc.vio(
                                "external data loaded but the constant is not file[offset..offset+length] of the named file".to_string(),
                                idx,
                                format!("[{lname}] location {:?} offset {} length {}: constant {:?}, expected {:?}", c.location, c.offset, c.length, &got[..got.len().min(16)], &want[..want.len().min(16)]),
                            );
                        }
                    }
                    Verdict::Grey(None) => {
                        acc.obs(&format!("{lname}: non-decimal offset/length string accepted"));
                    }
                }
            }
        }
    }
    prog.stage(0);
    if any_ok {
        acc.count("loaded_by_some_loader", 1);
    }
}

thread_local! {
    static SETS: std::cell::RefCell<BTreeMap<(usize, bool), &'static Vec<Case>>> = const { std::cell::RefCell::new(BTreeMap::new()) };
}

fn set_for(i: usize, thorough: bool) -> &'static Vec<Case> {
    SETS.with(|s| *s.borrow_mut().entry((i, thorough)).or_insert_with(|| Box::leak(Box::new(build_set(i, thorough)))))
}

pub fn worker() -> ! {
    drv::die_with_parent();
    let sup = drv::Supervisor::new();
    let sb = Sandbox::create(PathBuf::from(format!("/tmp/mc-bytes-c21-{}", std::process::id())));
    vp_core::isolate::worker_loop(move |req| {
        drv::install_panic_hook();
        if req["cleanup"].as_bool().unwrap_or(false) {
            let _ = std::fs::remove_dir_all(&sb.root);
            return json!({"n": 0});
        }
        // the sandbox may have been removed by a cleanup request of a previous run phase
        if !sb.dir().join("w.data").exists() {
            Sandbox::create(sb.root.clone());
        }
        let case_timeout = Duration::from_millis(req["case_timeout_ms"].as_u64().unwrap_or(5000));
        if req.get("explicit").is_some() {
            let c = Case::from_json(&req["explicit"]);
            let mut body = |_f: u64, _t: u64, prog: &drv::Progress| -> Json {
                let mut acc = drv::Acc::default();
                eval(&sb, &c, 0, prog, &mut acc);
                acc.to_json()
            };
            return drv::supervised_answer(&sup, 0, 0, 1, case_timeout, &|_| false, &mut body);
        }
        let thorough = req["thorough"].as_bool().unwrap_or(false);
        let set = req["set"].as_u64().unwrap_or(0) as usize;
        if set >= N_SETS {
            return json!({"machinery": "unknown set"});
        }
        let (start, end) = (req["start"].as_u64().unwrap_or(0), req["end"].as_u64().unwrap_or(0));
        let cases = set_for(set, thorough);
        let end = end.min(cases.len() as u64);
        let mut body = |from: u64, to: u64, prog: &drv::Progress| -> Json {
            let mut acc = drv::Acc::default();
            for idx in from..to {
                eval(&sb, &cases[idx as usize], idx, prog, &mut acc);
            }
            acc.to_json()
        };
        // performance hint: a length the loader may try to allocate gets a child of its own
        let risky = |idx: u64| -> bool {
            let c = &cases[idx as usize];
            parse_dec(&c.length).map(|l| l >= 1 << 33 && l < 1 << 63).unwrap_or(false)
        };
        drv::supervised_answer(&sup, set, start, end, case_timeout, &risky, &mut body)
    })
}

const MEM_LIMIT: u64 = 8 << 30;

fn fault_sig(f: &Fault, c: &Case) -> (String, String) {
    let loader = LOADERS.get((f.stage as usize).wrapping_sub(1)).copied().unwrap_or("?");
    let sig = match &f.kind {
        FaultKind::Timeout => format!("{loader} does not return (hang)"),
        FaultKind::Died(_) => {
            if f.stderr.contains("memory allocation of") {
                format!("{loader} aborts the process: allocates the declared external-data length before checking it against the file size")
            } else if f.stderr.contains("overflowed its stack") {
                format!("{loader} aborts the process: stack overflow")
            } else {
                format!("{loader} kills the process ({})", f.kind.short())
            }
        }
    };
    let detail = format!(
        "{loader} with location {:?} offset {:?} length {:?} dims {:?} on a {L}-byte data file: {}; stderr of the dying process: {:?}",
        c.location,
        c.offset,
        c.length,
        c.dims,
        f.kind.describe(),
        f.stderr
    );
    (sig, detail)
}

pub fn run(ctx: Ctx) -> ! {
    if let Some(path) = ctx.replay.clone() {
        replay(ctx, &path);
    }
    let thorough = ctx.tier.is_thorough();
    let sets: Vec<Vec<Case>> = (0..N_SETS).map(|i| build_set(i, thorough)).collect();
    let tot = drv::Totals::new();
    let mut batches = Vec::new();
    for (i, s) in sets.iter().enumerate() {
        drv::split(i, s.len() as u64, 256, &mut batches);
    }
    if !batches.is_empty() {
        let r = (ctx.seed as usize) % batches.len();
        batches.rotate_left(r);
    }
    let nworkers = vp_core::par::threads();
    let cfg = DrvConfig { worker: "c21", nworkers, watchdog: Duration::from_secs(3600), confirm_watchdog: Duration::from_secs(3600), mem_limit: MEM_LIMIT };
    let make_req = |b: &Batch, _p: &str, _s: bool| -> Json {
        json!({"set": b.set, "start": b.start, "end": b.end, "thorough": thorough, "case_timeout_ms": if thorough { 10_000 } else { 5_000 }})
    };
    let on_answer = |b: &Batch, a: &Json| tot.absorb(b.set, a);
    let on_fault = |f: &Fault| vp_core::machinery_error(&format!("C21: the supervising worker itself failed: {f:?}"));
    let stats = drv::run_batches(&cfg, &batches, &make_req, &on_answer, &on_fault);
    // all workers are gone now: remove their sandboxes
    if let Ok(rd) = std::fs::read_dir("/tmp") {
        for e in rd.flatten() {
            let n = e.file_name().to_string_lossy().to_string();
            if n.starts_with("mc-bytes-c21-") {
                let pid: i32 = n["mc-bytes-c21-".len()..].parse().unwrap_or(0);
                let alive = pid > 0 && unsafe { libc::kill(pid, 0) } == 0;
                if !alive {
                    let _ = std::fs::remove_dir_all(e.path());
                }
            }
        }
    }

    let fault_list = std::mem::take(&mut *tot.faults.lock().unwrap());
    let n_faults = fault_list.len();
    for f in fault_list {
        let (sig, detail) = fault_sig(&f, &sets[f.set][f.idx as usize]);
        tot.cnt.add("evaluations", 1);
        tot.book.add(&sig, 1, f.set, f.idx, &detail);
    }
    if tot.cnt.get("unconfirmed_deaths") > 0 {
        ctx.machinery("C21: a process death did not reproduce when its case was re-run alone");
    }
    let hist = std::mem::take(&mut *tot.hist.lock().unwrap());
    let loaded = tot.cnt.get("loaded_by_some_loader");
    for l in LOADERS {
        if !hist.contains_key(&format!("{l}: Ok")) {
            ctx.machinery(&format!("C21: {l} never loaded external data successfully (vacuous)"));
        }
    }
    if tot.cnt.get("reference_must_err") == 0 || tot.cnt.get("reference_may_load") < 2 {
        ctx.machinery("C21: reference predicate is vacuous");
    }
    for (sig, e) in tot.book.drain() {
        let (set, idx) = e.key;
        let c = &sets[set][idx as usize];
        let mut case = c.to_json();
        case.as_object_mut().unwrap().insert("from_set".into(), json!(SET_NAMES[set]));
        ctx.violation(sig.clone(), case, e.detail.clone());
        for _ in 1..e.count {
            ctx.violation(sig.clone(), Json::Null, "");
        }
    }
    for (k, v) in std::mem::take(&mut *tot.obs.lock().unwrap()) {
        ctx.observe_n(&k, v);
    }
    let samples: Vec<Json> = [(0usize, 0usize), (0, 37), (0, 700), (1, 20), (2, 4)]
        .iter()
        .filter_map(|(s, i)| sets.get(*s).and_then(|v| v.get(*i)).map(|c| c.to_json()))
        .collect();
    let total: usize = sets.iter().map(|s| s.len()).sum();
    println!(
        "C21 summary: {} cases x 3 loaders ({} evaluated), reference: {} may-load / {} must-err / {} undecided, {} loaded by some loader, {} distinct (loader, outcome) pairs, {} deaths/hangs",
        total,
        tot.cnt.get("evaluations"),
        tot.cnt.get("reference_may_load"),
        tot.cnt.get("reference_must_err"),
        tot.cnt.get("reference_undecided"),
        loaded,
        hist.len(),
        n_faults
    );
    let coverage = json!({
        "evaluations": tot.cnt.get("evaluations"),
        "distinct_nontrivial": loaded + tot.cnt.get("reference_must_err").min(1),
        "rule": "cases are distinct (location, offset, length, dims) tuples; each is loaded through Model::load_file, load_mmap and ModelOptions::external_data+load against a sandbox directory tree; a case counts as non-trivial when at least one loader actually returned a model whose constant bytes were compared with the named file",
        "samples": samples,
        "exhaustive": true,
        "sets": sets.iter().enumerate().map(|(i, s)| json!({"set": SET_NAMES[i], "cases": s.len(), "evaluated": tot.cnt.get(&format!("set{i}_evaluations"))})).collect::<Vec<_>>(),
        "location_components": if thorough { COMPONENTS_FULL.to_vec() } else { COMPONENTS_FULL.iter().chain(COMPONENTS_SMALL.iter()).copied().collect() },
        "offset_length_values": numeric_extremes(),
        "loaders": LOADERS,
        "reference_may_load": tot.cnt.get("reference_may_load"),
        "reference_must_err": tot.cnt.get("reference_must_err"),
        "reference_undecided": tot.cnt.get("reference_undecided"),
        "outcome_histogram": hist,
        "process_deaths_and_hangs_isolated": n_faults,
        "isolation": {"forked_children": tot.cnt.get("forks"), "timeouts_not_reproduced_alone": tot.cnt.get("unconfirmed_timeouts"), "outer": drv::stats_json(&stats)},
    });
    ctx.finish(
        "fault_enumeration",
        coverage,
        vec![
            "POSIX path semantics: '/' is the only separator, so backslash and drive-letter strings are exercised as ordinary file-name characters; Windows path handling is not covered".into(),
            "symbolic links are not part of the alphabet".into(),
            "extensions merely containing 'data' in another spelling (w.DATA, w.database, .data, data) are treated as undecided by the reference; if loaded, the bytes must still come from that plain file inside the model directory".into(),
            "RLIMIT_AS = 8 GiB, per-case CPU-time watchdog".into(),
        ],
    )
}

fn replay(ctx: Ctx, path: &std::path::Path) -> ! {
    let case = vp_core::read_replay_case(path);
    let c = Case::from_json(&case);
    let mut w = vp_core::isolate::Worker::new("c21", Duration::from_secs(600), MEM_LIMIT);
    match w.run(&json!({"explicit": c.to_json(), "case_timeout_ms": 5000})) {
        vp_core::isolate::Outcome::Answer(a) => {
            if let Some(vs) = a["vio"].as_array() {
                for v in vs {
                    ctx.violation(v["sig"].as_str().unwrap_or("?"), case.clone(), v["detail"].as_str().unwrap_or(""));
                }
            }
            if let Some(fs) = a["faults"].as_array() {
                for f in fs {
                    let (sig, detail) = fault_sig(&drv::fault_from_json(f), &c);
                    ctx.violation(sig, case.clone(), detail);
                }
            }
            println!("replay outcomes: {} faults: {}", a["hist"], a["faults"]);
        }
        other => vp_core::machinery_error(&format!("replay: supervisor failure {other:?}")),
    }
    let _ = w.run(&json!({"cleanup": true}));
    drop(w);
    ctx.finish("fault_enumeration", json!({"evaluations": 1, "distinct_nontrivial": 2, "rule": "replay of one recorded case", "samples": [case]}), vec![])
}
