//! C34 — .npy / .npz / .safetensors round-trip for every supported element
//! type, shape and memory layout; readers return a value or an error on
//! arbitrary bytes (no panic, no abort, no hang).

use std::collections::BTreeMap;
use std::io::Cursor;
use std::time::Duration;

use rten_serialize::{DataType, Value, npy, npz, safetensors};
use rten_tensor::prelude::*;
use rten_tensor::TensorView;
use vp_core::{Ctx, Json, json};

use crate::drv::{self, Batch, DrvConfig, Fault, FaultKind, hex, unhex};
use crate::gens::{self, InputSet, Item, Op, SetKind};

// ===================================================================== part A

/// Element types of the formats, with a value table that contains the
/// extremes of the type, and a bit pattern for exact comparison.
trait TE: rten_serialize::Element + Copy + 'static {
    const NAME: &'static str;
    const DT: DataType;
    fn sample(i: usize) -> Self;
    fn bits(self) -> u64;
}

macro_rules! te_int {
    ($ty:ty, $name:literal, $dt:expr) => {
        impl TE for $ty {
            const NAME: &'static str = $name;
            const DT: DataType = $dt;
            fn sample(i: usize) -> Self {
                let table: [$ty; 6] = [<$ty>::MIN, <$ty>::MAX, 0, 1, (<$ty>::MAX / 3), (<$ty>::MIN / 5 + 7)];
                table[i % 6].wrapping_add((i / 6) as $ty)
            }
            fn bits(self) -> u64 {
                self as i128 as u64
            }
        }
    };
}
te_int!(i8, "i8", DataType::Int8);
te_int!(i16, "i16", DataType::Int16);
te_int!(i32, "i32", DataType::Int32);
te_int!(i64, "i64", DataType::Int64);
te_int!(u8, "u8", DataType::UInt8);
te_int!(u16, "u16", DataType::UInt16);
te_int!(u32, "u32", DataType::UInt32);
te_int!(u64, "u64", DataType::UInt64);

impl TE for bool {
    const NAME: &'static str = "bool";
    const DT: DataType = DataType::Bool;
    fn sample(i: usize) -> Self {
        [true, false, false, true, true][i % 5]
    }
    fn bits(self) -> u64 {
        self as u64
    }
}
impl TE for f32 {
    const NAME: &'static str = "f32";
    const DT: DataType = DataType::Float32;
    fn sample(i: usize) -> Self {
        let t = [0.0f32, -0.0, 1.5, f32::MIN_POSITIVE / 2.0, f32::MAX, f32::NEG_INFINITY, f32::from_bits(0x7fc0_1234), -3.25e-7];
        if i < 8 { t[i] } else { i as f32 * 0.37 }
    }
    fn bits(self) -> u64 {
        self.to_bits() as u64
    }
}
impl TE for f64 {
    const NAME: &'static str = "f64";
    const DT: DataType = DataType::Float64;
    fn sample(i: usize) -> Self {
        let t = [0.0f64, -0.0, 1.5, f64::MIN_POSITIVE / 2.0, f64::MAX, f64::NEG_INFINITY, f64::from_bits(0x7ff8_0000_0000_1234), -3.25e-300];
        if i < 8 { t[i] } else { i as f64 * 0.37 }
    }
    fn bits(self) -> u64 {
        self.to_bits()
    }
}

const LAYOUTS: [&str; 4] = ["contiguous", "transposed (column-major strides)", "stepped (row-major strides x2)", "broadcast (stride 0 on first axis >1)"];

fn strides_for(shape: &[usize], layout: usize) -> Vec<usize> {
    let r = shape.len();
    let mut st = vec![0usize; r];
    match layout {
        0 | 2 => {
            let mut acc = 1usize;
            for i in (0..r).rev() {
                st[i] = acc * if layout == 2 { 2 } else { 1 };
                acc *= shape[i].max(1);
            }
        }
        1 => {
            let mut acc = 1usize;
            for i in 0..r {
                st[i] = acc;
                acc *= shape[i].max(1);
            }
        }
        _ => {
            let b = shape.iter().position(|&d| d > 1);
            let mut acc = 1usize;
            for i in (0..r).rev() {
                if Some(i) == b {
                    st[i] = 0;
                } else {
                    st[i] = acc;
                    acc *= shape[i].max(1);
                }
            }
        }
    }
    st
}

fn shapes() -> Vec<Vec<usize>> {
    let mut out = vec![vec![]];
    for r in 1..=3 {
        for idx in vp_core::odometer::sequences(4, r) {
            out.push(idx);
        }
    }
    out
}

/// logical (row-major) element order of a strided buffer
fn logical<T: Copy>(buf: &[T], shape: &[usize], strides: &[usize]) -> Vec<T> {
    let n: usize = shape.iter().product();
    let mut out = Vec::with_capacity(n);
    if n == 0 {
        return out;
    }
    let mut idx = vec![0usize; shape.len()];
    loop {
        let off: usize = idx.iter().zip(strides).map(|(i, s)| i * s).sum();
        out.push(buf[off]);
        let mut d = shape.len();
        loop {
            if d == 0 {
                return out;
            }
            d -= 1;
            idx[d] += 1;
            if idx[d] < shape[d] {
                break;
            }
            idx[d] = 0;
        }
    }
}

const FORMATS: [&str; 9] = [
    "npy (buffer)",
    "npy (file)",
    "npz 1 entry [a]",
    "npz 2 entries [a, ä]",
    "npz 3 entries [a/b, x.npy, ä]",
    "safetensors 1 entry [a]",
    "safetensors 3 entries [a/b, ä, x.npy]",
    "safetensors (file)",
    "npz 3 entries [w, w.npy.npy, x.npy.npy.npy] (names that themselves end in .npy)",
];

struct RtOut {
    ok: bool,
    skipped: Option<String>,
}

fn check_value<T: TE>(v: Result<Value, String>, shape: &[usize], want: &[T], what: &str) -> Result<(), String> {
    let v = v.map_err(|e| format!("{what}: reading back failed: {e}"))?;
    if v.dtype() != T::DT {
        return Err(format!("{what}: element type {:?}, written {:?}", v.dtype(), T::DT));
    }
    let t = v.into_type::<T>().map_err(|e| format!("{what}: into_type failed: {e}"))?;
    if t.shape() != shape {
        return Err(format!("{what}: shape {:?}, written {:?}", t.shape(), shape));
    }
    let got: Vec<u64> = t.iter().map(|x| x.bits()).collect();
    let want: Vec<u64> = want.iter().map(|x| x.bits()).collect();
    if got != want {
        return Err(format!("{what}: elements differ: read {:?}, written {:?} (bit patterns)", &got[..got.len().min(8)], &want[..want.len().min(8)]));
    }
    Ok(())
}

fn round_trip<T: TE>(shape: &[usize], layout: usize, format: usize, tmp: &std::path::Path) -> Result<RtOut, (String, String)>
where
    for<'a> rten_serialize::View<'a>: From<TensorView<'a, T>>,
{
    let strides = strides_for(shape, layout);
    let need: usize = if shape.iter().any(|&d| d == 0) {
        0
    } else {
        1 + shape.iter().zip(&strides).map(|(d, s)| (d - 1) * s).sum::<usize>()
    };
    let buf: Vec<T> = (0..need + 3).map(T::sample).collect();
    let view = match vp_core::catch(|| TensorView::<T>::from_slice_with_strides(shape, &buf[..], &strides[..])) {
        Ok(Ok(v)) => v,
        Ok(Err(e)) => return Ok(RtOut { ok: false, skipped: Some(format!("layout not constructible: {e:?}")) }),
        Err(p) => return Ok(RtOut { ok: false, skipped: Some(format!("layout constructor panicked: {p}")) }),
    };
    let want = logical(&buf, shape, &strides);
    let fmt = FORMATS[format];
    let site = |op: &str| format!("{fmt}: {op}");
    let res: Result<Result<(), String>, String> = vp_core::catch(|| -> Result<(), String> {
        match format {
            0 => {
                let mut out = Vec::new();
                npy::write(&mut out, view.clone()).map_err(|e| format!("write failed: {e}"))?;
                check_value(npy::read(&out[..]).map_err(|e| e.to_string()), shape, &want, "npy")
            }
            1 => {
                let p = tmp.join("t.npy");
                npy::write_to_file(&p, view.clone()).map_err(|e| format!("write failed: {e}"))?;
                check_value(npy::read_from_file(&p).map_err(|e| e.to_string()), shape, &want, "npy file")
            }
            2 | 3 | 4 | 8 => {
                let names: &[&str] = match format {
                    2 => &["a"],
                    3 => &["a", "ä"],
                    8 => &["w", "w.npy.npy", "x.npy.npy.npy"],
                    _ => &["a/b", "x.npy", "ä"],
                };
                let mut cur = Cursor::new(Vec::new());
                npz::write(&mut cur, names.iter().map(|n| (*n, view.clone()))).map_err(|e| format!("write failed: {e}"))?;
                let bytes = cur.into_inner();
                let mut all = npz::read(Cursor::new(&bytes[..])).map_err(|e| format!("npz::read failed: {e}"))?;
                if all.len() != names.len() {
                    return Err(format!("npz::read returned {} entries, {} written", all.len(), names.len()));
                }
                for n in names {
                    let key = n.strip_suffix(".npy").unwrap_or(n);
                    let v = all.remove(key).ok_or_else(|| format!("entry {key:?} missing from npz::read"))?;
                    check_value(Ok(v), shape, &want, &format!("npz entry {key:?}"))?;
                    let one = npz::read_array(Cursor::new(&bytes[..]), n).map_err(|e| e.to_string());
                    check_value(one, shape, &want, &format!("npz::read_array({n:?})"))?;
                }
                Ok(())
            }
            _ => {
                let names: &[&str] = if format == 6 { &["a/b", "ä", "x.npy"] } else { &["a"] };
                let bytes = if format == 7 {
                    let p = tmp.join("t.safetensors");
                    safetensors::write_to_file(&p, names.iter().map(|n| (*n, view.clone()))).map_err(|e| format!("write failed: {e}"))?;
                    let all = safetensors::read_from_file(&p).map_err(|e| format!("read_from_file failed: {e}"))?;
                    if all.len() != names.len() {
                        return Err(format!("read_from_file returned {} entries", all.len()));
                    }
                    std::fs::read(&p).map_err(|e| e.to_string())?
                } else {
                    let mut out = Vec::new();
                    safetensors::write(&mut out, names.iter().map(|n| (*n, view.clone()))).map_err(|e| format!("write failed: {e}"))?;
                    out
                };
                let mut all = safetensors::read(&bytes[..]).map_err(|e| format!("safetensors::read failed: {e}"))?;
                if all.len() != names.len() {
                    return Err(format!("safetensors::read returned {} entries, {} written", all.len(), names.len()));
                }
                for n in names {
                    let v = all.remove(*n).ok_or_else(|| format!("entry {n:?} missing"))?;
                    check_value(Ok(v), shape, &want, &format!("safetensors entry {n:?}"))?;
                    let one = safetensors::read_array(&bytes[..], n).map_err(|e| e.to_string());
                    check_value(one, shape, &want, &format!("safetensors::read_array({n:?})"))?;
                }
                Ok(())
            }
        }
    });
    match res {
        Ok(Ok(())) => Ok(RtOut { ok: true, skipped: None }),
        Ok(Err(e)) => {
            let class = if e.contains("write failed") {
                "write fails"
            } else if e.contains("shape") {
                "shape differs"
            } else if e.contains("element type") {
                "element type differs"
            } else if e.contains("elements differ") {
                "elements differ"
            } else {
                "reading back fails"
            };
            Err((format!("round trip {}: {class}", site("")).replace(": :", ":"), e))
        }
        Err(p) => Err((format!("round trip {fmt}: panic \"{}\"", vp_core::truncate(&p, 60)), p)),
    }
}

macro_rules! dispatch_dt {
    ($i:expr, $T:ident => $body:expr) => {
        match $i {
            0 => { type $T = bool; $body }
            1 => { type $T = i8; $body }
            2 => { type $T = i16; $body }
            3 => { type $T = i32; $body }
            4 => { type $T = i64; $body }
            5 => { type $T = u8; $body }
            6 => { type $T = u16; $body }
            7 => { type $T = u32; $body }
            8 => { type $T = u64; $body }
            9 => { type $T = f32; $body }
            _ => { type $T = f64; $body }
        }
    };
}
const N_DT: usize = 11;

fn dt_name(i: usize) -> &'static str {
    dispatch_dt!(i, T => <T as TE>::NAME)
}

fn run_round_trips(ctx: &Ctx, cov: &mut BTreeMap<String, Json>) {
    let shapes = shapes();
    let n = N_DT * shapes.len() * LAYOUTS.len() * FORMATS.len();
    let tmp_root = std::path::PathBuf::from(format!("/tmp/mc-bytes-c34-{}", std::process::id()));
    let _ = std::fs::create_dir_all(&tmp_root);
    let results = vp_core::par::map(n, |i| {
        let f = i % FORMATS.len();
        let l = (i / FORMATS.len()) % LAYOUTS.len();
        let s = (i / FORMATS.len() / LAYOUTS.len()) % shapes.len();
        let d = i / FORMATS.len() / LAYOUTS.len() / shapes.len();
        let tmp = tmp_root.join(format!("{i}"));
        if f == 1 || f == 7 {
            let _ = std::fs::create_dir_all(&tmp);
        }
        let r = dispatch_dt!(d, T => round_trip::<T>(&shapes[s], l, f, &tmp));
        if f == 1 || f == 7 {
            let _ = std::fs::remove_dir_all(&tmp);
        }
        (d, s, l, f, r)
    });
    let _ = std::fs::remove_dir_all(&tmp_root);
    let (mut ok, mut skipped, mut nonempty_ok) = (0u64, 0u64, 0u64);
    for (d, s, l, f, r) in results {
        let case = json!({"part": "round_trip", "dtype": dt_name(d), "shape": shapes[s], "layout": LAYOUTS[l], "strides": strides_for(&shapes[s], l), "format": FORMATS[f], "case": [d, s, l, f]});
        match r {
            Ok(o) => {
                if o.ok {
                    ok += 1;
                    if shapes[s].iter().product::<usize>() > 1 {
                        nonempty_ok += 1;
                    }
                }
                if let Some(why) = o.skipped {
                    skipped += 1;
                    ctx.observe(&format!("round trip skipped: {}", vp_core::truncate(&why, 80)));
                }
            }
            Err((sig, detail)) => ctx.violation(sig, case, detail),
        }
    }
    if nonempty_ok < 100 {
        ctx.machinery("C34: fewer than 100 multi-element round trips succeeded (vacuous)");
    }
    cov.insert("round_trip_cases".into(), json!(n));
    cov.insert("round_trip_ok".into(), json!(ok));
    cov.insert("round_trip_ok_with_more_than_one_element".into(), json!(nonempty_ok));
    cov.insert("round_trip_skipped_layout_not_constructible".into(), json!(skipped));
    cov.insert(
        "round_trip_axes".into(),
        json!({"dtypes": (0..N_DT).map(dt_name).collect::<Vec<_>>(), "shapes": format!("rank 0..=3 over sizes {{0,1,2,3}}: {}", shapes.len()), "layouts": LAYOUTS, "formats": FORMATS}),
    );

    // names the writers may refuse: recorded, not judged (the property is about tensors)
    let t = rten_tensor::Tensor::<i32>::from_data(&[2], vec![1, 2]);
    for names in [vec![""], vec!["a", "a"], vec![".npy"], vec!["a\0b"], vec!["../x"], vec!["/abs"]] {
        let r = vp_core::catch(|| {
            let mut cur = Cursor::new(Vec::new());
            let w = npz::write(&mut cur, names.iter().map(|n| (*n, t.view())));
            let rd = w.as_ref().ok().map(|_| npz::read(Cursor::new(cur.get_ref().as_slice())).map(|m| m.len()));
            (w.is_ok(), rd.map(|r| r.map_err(|e| e.to_string())))
        });
        ctx.observe(&format!("npz names {names:?}: {}", match r {
            Ok((w, rd)) => format!("write ok={w}, read={rd:?}"),
            Err(p) => format!("PANIC {p}"),
        }));
        let r = vp_core::catch(|| {
            let mut out = Vec::new();
            let w = safetensors::write(&mut out, names.iter().map(|n| (*n, t.view())));
            let rd = w.as_ref().ok().map(|_| safetensors::read(&out[..]).map(|m| m.len()));
            (w.is_ok(), rd.map(|r| r.map_err(|e| e.to_string())))
        });
        ctx.observe(&format!("safetensors names {names:?}: {}", match r {
            Ok((w, rd)) => format!("write ok={w}, read={rd:?}"),
            Err(p) => format!("PANIC {p}"),
        }));
    }
}

// ===================================================================== part B

fn seed_files() -> Vec<(String, Vec<u8>)> {
    let mut v = Vec::new();
    let a = rten_tensor::Tensor::<i32>::from_data(&[2, 3], vec![1, -2, 3, 4, 5, 6]);
    let b = rten_tensor::Tensor::<f64>::from_data(&[2], vec![0.5, -1.0]);
    let c = rten_tensor::Tensor::<u8>::from_data(&[3], vec![7, 8, 9]);
    let mut o = Vec::new();
    npy::write(&mut o, a.view()).unwrap();
    v.push(("npy i32[2,3] (v1)".to_string(), o));
    // hand-written: fortran order, big-endian f8
    let mut o = b"\x93NUMPY\x01\x00".to_vec();
    let dict = "{'descr': '>f8', 'fortran_order': True, 'shape': (2, 2), }\n";
    o.extend((dict.len() as u16).to_le_bytes());
    o.extend(dict.as_bytes());
    for x in [1.0f64, 2.0, 3.0, 4.0] {
        o.extend(x.to_be_bytes());
    }
    v.push(("npy >f8[2,2] fortran order (v1)".to_string(), o));
    // hand-written version 2 header (u32 length)
    let mut o = b"\x93NUMPY\x02\x00".to_vec();
    let dict = "{'descr': '|u1', 'fortran_order': False, 'shape': (3,), }\n";
    o.extend((dict.len() as u32).to_le_bytes());
    o.extend(dict.as_bytes());
    o.extend([7u8, 8, 9]);
    v.push(("npy u1[3] (v2)".to_string(), o));
    let mut cur = Cursor::new(Vec::new());
    npz::write(&mut cur, [("a", c.view())]).unwrap();
    v.push(("npz {a: u8[3]}".to_string(), cur.into_inner()));
    let mut cur = Cursor::new(Vec::new());
    npz::write(&mut cur, [("a", rten_serialize::View::from(c.view())), ("b", b.view().into())]).unwrap();
    v.push(("npz {a: u8[3], b: f64[2]}".to_string(), cur.into_inner()));
    let mut o = Vec::new();
    safetensors::write(&mut o, [("a", rten_serialize::View::from(c.view())), ("b", b.view().into())]).unwrap();
    v.push(("safetensors {a: u8[3], b: f64[2]}".to_string(), o));
    v
}

/// Overwrite a 2/4/8-byte little-endian field at every offset with extremes:
/// reaches every length / offset / count field of the container formats
/// without knowing where they are.
fn width_faults(seed: u16, buf: &[u8], out: &mut Vec<gens::Fault>) {
    let v16: [u64; 4] = [0, 1, 0x7fff, 0xffff];
    let v32: [u64; 6] = [0, 1, 0x7fff_ffff, 0x8000_0000, 0xffff_fffe, 0xffff_ffff];
    let v64: [u64; 7] = [0, 1, 0xffff_ffff, 1 << 32, (1 << 63) - 1, 1 << 63, u64::MAX];
    for off in 0..buf.len() {
        for (w, vals) in [(2usize, &v16[..]), (4, &v32[..]), (8, &v64[..])] {
            if off + w > buf.len() {
                continue;
            }
            for v in vals {
                let with = v.to_le_bytes()[..w].to_vec();
                if with[..] == buf[off..off + w] {
                    continue;
                }
                out.push(gens::Fault {
                    seed,
                    op: Op::Splice { off: off as u32, len: w as u32, with, what: format!("u{} at offset {off} := {v:#x}", w * 8) },
                });
            }
        }
    }
}

fn npy_header_box(thorough: bool) -> Vec<Item> {
    let descrs = ["<i4", "|b1", ">f8", "<u2", "=i8", "|u1", "<f2", "<i3", "<U4", "", "<", "<i", "<i99999999999999999999", "\u{e9}4", "<\u{e9}4", "<f4 "];
    let dims: Vec<&str> = if thorough {
        vec!["0", "1", "2", "3", "65536", "2147483648", "4294967295", "4294967296", "9223372036854775808", "18446744073709551615", "18446744073709551616"]
    } else {
        vec!["0", "1", "2", "3", "65536", "2147483648", "4294967296", "9223372036854775808", "18446744073709551615"]
    };
    let mut shapes: Vec<Vec<&str>> = vec![vec![]];
    for r in 1..=3 {
        for idx in vp_core::odometer::sequences(dims.len(), r) {
            shapes.push(idx.iter().map(|i| dims[*i]).collect());
        }
    }
    let mut out = Vec::new();
    for d in descrs {
        for fortran in ["False", "True"] {
            for sh in &shapes {
                let tuple = match sh.len() {
                    0 => "()".to_string(),
                    1 => format!("({},)", sh[0]),
                    _ => format!("({})", sh.join(", ")),
                };
                // exact data length when it is small
                let prod: Option<u128> = sh.iter().try_fold(1u128, |a, s| s.parse::<u128>().ok().map(|v| a * v));
                let item = d.get(2..).and_then(|s| s.trim().parse::<u128>().ok()).unwrap_or(1);
                let exact = prod.map(|p| p * item).filter(|b| *b <= 64);
                let mut lens: Vec<usize> = vec![0];
                if let Some(e) = exact {
                    let e = e as usize;
                    lens = vec![e, e.saturating_sub(1), e + 1];
                    lens.dedup();
                }
                for dl in lens {
                    let dict = format!("{{'descr': '{d}', 'fortran_order': {fortran}, 'shape': {tuple}, }}\n");
                    let mut b = b"\x93NUMPY\x01\x00".to_vec();
                    b.extend((dict.len() as u16).to_le_bytes());
                    b.extend(dict.as_bytes());
                    b.extend((0..dl).map(|i| i as u8 + 1));
                    out.push(Item { bytes: b, desc: format!("npy v1 header descr={d:?} fortran_order={fortran} shape={tuple} followed by {dl} data byte(s)") });
                }
            }
        }
    }
    // header dictionary syntax variants
    for dict in [
        "", "{", "{}", "{'descr': '<i4'}", "{'descr': '<i4', 'fortran_order': False}", "{'shape': (1,), 'descr': '<i4', 'fortran_order': False}",
        "{'descr': '<i4', 'fortran_order': False, 'shape': (1,) ", "{'descr': '<i4', 'fortran_order': False, 'shape': (1", "{'descr': '<i4', 'fortran_order': False, 'shape': (,)}",
        "{'descr': '<i4', 'fortran_order': Fals, 'shape': ()}", "{'descr': '<i4', 'fortran_order': T", "{'descr': '<i4', 'fortran_order': False, 'shape': (-1,)}",
        "{'descr': '<i4', 'fortran_order': False, 'shape': (1,), 'x': 1}", "{'descr': '<i4", "   {'descr':'<i4','fortran_order':False,'shape':()}", "{'descr': '<i4', 'descr': '<f8', 'fortran_order': False, 'shape': ()}",
        "{'descr': '<i4', 'fortran_order': False, 'shape': (1 2)}", "{'descr': '<i4', 'fortran_order': False, 'shape': (1,,)}", "{'", "{'descr': ", "{'fortran_order': ",
    ] {
        for ver in [1u8, 2, 3, 0, 4, 255] {
            let mut b = b"\x93NUMPY".to_vec();
            b.extend([ver, 0]);
            if ver == 1 {
                b.extend((dict.len() as u16).to_le_bytes());
            } else {
                b.extend((dict.len() as u32).to_le_bytes());
            }
            b.extend(dict.as_bytes());
            b.extend([1, 0, 0, 0]);
            out.push(Item { bytes: b, desc: format!("npy version {ver} with header dictionary {dict:?} and 4 data bytes") });
        }
    }
    out
}

pub const N_SETS: usize = 4;

pub fn build_set(i: usize, thorough: bool) -> InputSet {
    match i {
        0 => InputSet { name: "all byte strings of length 0..=2".into(), kind: SetKind::AllBytes { min_len: 0, max_len: 2 } },
        1 => InputSet { name: "npy header box (descr x fortran_order x shape tuples x data length; dictionary syntax variants)".into(), kind: SetKind::List(npy_header_box(thorough)) },
        2 => {
            let seeds = seed_files();
            let subst: Vec<u8> = if thorough { (0..=255u8).collect() } else { vec![0x00, 0x20, 0x27, 0x7f, 0xff] };
            let mut faults = Vec::new();
            for (i, (_, b)) in seeds.iter().enumerate() {
                gens::byte_faults(i as u16, b, &subst, !thorough, &mut faults);
            }
            InputSet { name: "truncations and single-byte substitutions of six seed files".into(), kind: SetKind::Faults { seeds, faults } }
        }
        _ => {
            let seeds = seed_files();
            let mut faults = Vec::new();
            for (i, (_, b)) in seeds.iter().enumerate() {
                width_faults(i as u16, b, &mut faults);
            }
            InputSet { name: "u16/u32/u64 little-endian field at every offset of the seed files := extremes".into(), kind: SetKind::Faults { seeds, faults } }
        }
    }
}

fn describe_value(v: &Value) -> String {
    format!("{:?}", v.dtype())
}

/// Feed one byte string to every reader.
fn eval(bytes: &[u8], idx: u64, files: bool, tmp: &std::path::Path, prog: &drv::Progress, acc: &mut drv::Acc) {
    acc.n += 1;
    prog.set(idx, 0);
    let mut any_ok = false;
    let mut run = |stage: u64, name: &'static str, f: &mut dyn FnMut() -> Result<String, String>, acc: &mut drv::Acc| {
        prog.stage(stage);
        match drv::catch(|| f()) {
            Ok(Ok(s)) => {
                any_ok = true;
                acc.hist(format!("{name}: Ok({s})"));
            }
            Ok(Err(e)) => acc.hist(format!("{name}: Err({})", e)),
            Err(p) => {
                acc.hist(format!("{name}: PANIC"));
                acc.vio(
                    format!("{name} panics: \"{}\" at {}", p.norm_msg(), p.short_file()),
                    idx,
                    format!("{name} panicked: \"{}\" at {}:{}", p.msg, p.file, p.line),
                );
            }
        }
    };
    let errk = |e: std::io::Error| format!("{:?}", e.kind());
    run(1, "npy::read", &mut || npy::read(bytes).map(|v| describe_value(&v)).map_err(errk), acc);
    run(2, "npz::read", &mut || npz::read(Cursor::new(bytes)).map(|m| format!("{} entries", m.len())).map_err(errk), acc);
    run(3, "npz::read_array", &mut || npz::read_array(Cursor::new(bytes), "a").map(|v| describe_value(&v)).map_err(errk), acc);
    run(4, "safetensors::read", &mut || safetensors::read(bytes).map(|m| format!("{} entries", m.len())).map_err(errk), acc);
    run(5, "safetensors::read_array", &mut || safetensors::read_array(bytes, "a").map(|v| describe_value(&v)).map_err(errk), acc);
    if files {
        let p = tmp.join("f.bin");
        if std::fs::write(&p, bytes).is_ok() {
            run(6, "npy::read_from_file", &mut || npy::read_from_file(&p).map(|v| describe_value(&v)).map_err(errk), acc);
            run(7, "npz::read_from_file", &mut || npz::read_from_file(&p).map(|m| format!("{} entries", m.len())).map_err(errk), acc);
            run(8, "safetensors::read_from_file", &mut || safetensors::read_from_file(&p).map(|m| format!("{} entries", m.len())).map_err(errk), acc);
        }
    }
    prog.stage(0);
    if any_ok {
        acc.count("some_reader_ok", 1);
        acc.hashes.push(vp_core::fnv(bytes));
    }
}

fn stage_name(s: u64) -> &'static str {
    ["?", "npy::read", "npz::read", "npz::read_array", "safetensors::read", "safetensors::read_array", "npy::read_from_file", "npz::read_from_file", "safetensors::read_from_file"]
        .get(s as usize)
        .copied()
        .unwrap_or("?")
}

thread_local! {
    static SETS: std::cell::RefCell<BTreeMap<(usize, bool), &'static InputSet>> = const { std::cell::RefCell::new(BTreeMap::new()) };
}

fn set_for(i: usize, thorough: bool) -> &'static InputSet {
    SETS.with(|s| *s.borrow_mut().entry((i, thorough)).or_insert_with(|| Box::leak(Box::new(build_set(i, thorough)))))
}

pub fn worker() -> ! {
    drv::die_with_parent();
    let sup = drv::Supervisor::new();
    vp_core::isolate::worker_loop(move |req| {
        drv::install_panic_hook();
        let case_timeout = Duration::from_millis(req["case_timeout_ms"].as_u64().unwrap_or(5000));
        let files = req["files"].as_bool().unwrap_or(false);
        let tmp = std::path::PathBuf::from(req["tmp"].as_str().unwrap_or("/tmp"));
        if let Some(h) = req["explicit"].as_str() {
            let bytes = unhex(h);
            let mut body = |_f: u64, _t: u64, prog: &drv::Progress| -> Json {
                let mut acc = drv::Acc::default();
                eval(&bytes, 0, true, &tmp, prog, &mut acc);
                acc.to_json()
            };
            return drv::supervised_answer(&sup, 0, 0, 1, case_timeout, &|_| false, &mut body);
        }
        let thorough = req["thorough"].as_bool().unwrap_or(false);
        let set = req["set"].as_u64().unwrap_or(0) as usize;
        if set >= N_SETS {
            return json!({"machinery": "unknown set"});
        }
        let (start, end) = (req["start"].as_u64().unwrap_or(0), req["end"].as_u64().unwrap_or(0));
        let spec = set_for(set, thorough);
        let mut body = |from: u64, to: u64, prog: &drv::Progress| -> Json {
            let mut acc = drv::Acc::default();
            let mut buf = Vec::new();
            for idx in from..to.min(spec.len()) {
                spec.fill(idx, &mut buf);
                eval(&buf, idx, files, &tmp, prog, &mut acc);
            }
            acc.to_json()
        };
        drv::supervised_answer(&sup, set, start, end.min(spec.len()), case_timeout, &|_| false, &mut body)
    })
}

const MEM_LIMIT: u64 = 8 << 30;

fn fault_sig(f: &Fault) -> (String, String) {
    let what = match &f.kind {
        FaultKind::Timeout => "does not return (hang)".to_string(),
        FaultKind::Died(_) => {
            if f.stderr.contains("memory allocation of") {
                "aborts the process: memory allocation failure".to_string()
            } else if f.stderr.contains("overflowed its stack") {
                "aborts the process: stack overflow".to_string()
            } else {
                format!("kills the process ({})", f.kind.short())
            }
        }
    };
    (
        format!("{} {what}", stage_name(f.stage)),
        format!("{} {}; stderr of the dying process: {:?}", stage_name(f.stage), f.kind.describe(), f.stderr),
    )
}

pub fn run(ctx: Ctx) -> ! {
    if let Some(path) = ctx.replay.clone() {
        replay(ctx, &path);
    }
    let thorough = ctx.tier.is_thorough();
    let mut cov: BTreeMap<String, Json> = BTreeMap::new();
    run_round_trips(&ctx, &mut cov);

    let sets: Vec<InputSet> = (0..N_SETS).map(|i| build_set(i, thorough)).collect();
    let tot = drv::Totals::new();
    let mut batches = Vec::new();
    for (i, s) in sets.iter().enumerate() {
        drv::split(i, s.len(), 512, &mut batches);
    }
    if !batches.is_empty() {
        let r = (ctx.seed as usize) % batches.len();
        batches.rotate_left(r);
    }
    let tmp_root = format!("/tmp/mc-bytes-c34w-{}", std::process::id());
    let _ = std::fs::create_dir_all(&tmp_root);
    let cfg = DrvConfig { worker: "c34", nworkers: vp_core::par::threads(), watchdog: Duration::from_secs(3600), confirm_watchdog: Duration::from_secs(3600), mem_limit: MEM_LIMIT };
    let counter = std::sync::atomic::AtomicU64::new(0);
    let make_req = |b: &Batch, _p: &str, _s: bool| -> Json {
        let k = counter.fetch_add(1, std::sync::atomic::Ordering::Relaxed);
        let tmp = format!("{tmp_root}/{k}");
        let files = thorough || b.set != 0;
        if files {
            let _ = std::fs::create_dir_all(&tmp);
        }
        json!({"set": b.set, "start": b.start, "end": b.end, "thorough": thorough, "case_timeout_ms": if thorough { 10_000 } else { 5_000 }, "files": files, "tmp": tmp})
    };
    let on_answer = |b: &Batch, a: &Json| tot.absorb(b.set, a);
    let on_fault = |f: &Fault| vp_core::machinery_error(&format!("C34: the supervising worker itself failed: {f:?}"));
    let stats = drv::run_batches(&cfg, &batches, &make_req, &on_answer, &on_fault);
    let _ = std::fs::remove_dir_all(&tmp_root);

    let mut buf = Vec::new();
    let fault_list = std::mem::take(&mut *tot.faults.lock().unwrap());
    let n_faults = fault_list.len();
    for f in fault_list {
        let (sig, detail) = fault_sig(&f);
        tot.cnt.add("evaluations", 1);
        tot.book.add(&sig, 1, f.set, f.idx, &detail);
    }
    if tot.cnt.get("unconfirmed_deaths") > 0 {
        ctx.machinery("C34: a process death did not reproduce when its case was re-run alone");
    }
    let hist = std::mem::take(&mut *tot.hist.lock().unwrap());
    let some_ok = tot.hashes.lock().unwrap().len() as u64;
    if some_ok < 2 || !hist.keys().any(|k| k.contains("Err(")) {
        ctx.machinery("C34: malformed-file sweep is vacuous (no reader ever succeeded / failed)");
    }
    for (sig, e) in tot.book.drain() {
        let (set, idx) = e.key;
        sets[set].fill(idx, &mut buf);
        let case = json!({"part": "malformed", "bytes_hex": hex(&buf), "length": buf.len(), "from_set": sets[set].name, "index": idx, "what": sets[set].describe(idx)});
        ctx.violation(sig.clone(), case, e.detail.clone());
        for _ in 1..e.count {
            ctx.violation(sig.clone(), Json::Null, "");
        }
    }
    let samples = vp_core::Samples::new(6);
    for (si, idx) in [(1usize, 40u64), (2, 10), (2, 700), (3, 5)] {
        if idx < sets[si].len() {
            sets[si].fill(idx, &mut buf);
            samples.push(|| json!({"set": sets[si].name, "index": idx, "what": sets[si].describe(idx), "bytes_hex": vp_core::truncate(&hex(&buf), 200)}));
        }
    }
    samples.push(|| json!({"round_trip": {"dtype": "f64", "shape": [2, 3], "layout": LAYOUTS[1], "strides": strides_for(&[2, 3], 1), "format": FORMATS[4]}}));
    let malformed_total: u64 = sets.iter().map(|s| s.len()).sum();
    let rt_cases = cov.get("round_trip_cases").and_then(|v| v.as_u64()).unwrap_or(0);
    let rt_ok = cov.get("round_trip_ok_with_more_than_one_element").and_then(|v| v.as_u64()).unwrap_or(0);
    println!(
        "C34 summary: {} round trips ({} multi-element ok), {} malformed inputs x up to 8 readers, {} accepted by some reader, {} distinct (reader, outcome) pairs, {} deaths/hangs",
        rt_cases,
        rt_ok,
        tot.cnt.get("evaluations"),
        some_ok,
        hist.len(),
        n_faults
    );
    let mut coverage = json!({
        "evaluations": rt_cases + tot.cnt.get("evaluations"),
        "distinct_nontrivial": rt_ok + some_ok,
        "rule": "round trips: every (dtype, shape, layout, format) point is distinct; counted as non-trivial when the tensor has more than one element and the round trip completed. Malformed sweep: every input goes to every reader in an isolated process; non-trivial = distinct (by hash) inputs accepted by at least one reader.",
        "samples": samples.take(),
        "exhaustive": true,
        "malformed_sets": sets.iter().enumerate().map(|(i, s)| json!({"set": s.name, "inputs": s.len(), "evaluated": tot.cnt.get(&format!("set{i}_evaluations"))})).collect::<Vec<_>>(),
        "malformed_inputs_total": malformed_total,
        "distinct_outcomes": hist.len(),
        "outcome_histogram": hist,
        "process_deaths_and_hangs_isolated": n_faults,
        "isolation": {"forked_children": tot.cnt.get("forks"), "timeouts_not_reproduced_alone": tot.cnt.get("unconfirmed_timeouts"), "outer": drv::stats_json(&stats)},
    });
    for (k, v) in cov {
        coverage.as_object_mut().unwrap().insert(k, v);
    }
    for (k, v) in std::mem::take(&mut *tot.obs.lock().unwrap()) {
        ctx.observe_n(&k, v);
    }
    ctx.finish(
        "fault_enumeration",
        coverage,
        vec![
            "non-contiguous views are built with TensorView::from_slice_with_strides; the expected element order is computed from the raw buffer and the strides".into(),
            "floats are compared by bit pattern (NaN payloads and -0.0 must survive)".into(),
            "RLIMIT_AS = 8 GiB, per-case CPU-time watchdog".into(),
        ],
    )
}

fn replay(ctx: Ctx, path: &std::path::Path) -> ! {
    let case = vp_core::read_replay_case(path);
    if case["part"] == "round_trip" {
        let c: Vec<usize> = case["case"].as_array().map(|a| a.iter().map(|x| x.as_u64().unwrap_or(0) as usize).collect()).unwrap_or_default();
        let shapes = shapes();
        let tmp = std::path::PathBuf::from(format!("/tmp/mc-bytes-c34r-{}", std::process::id()));
        let _ = std::fs::create_dir_all(&tmp);
        if c.len() == 4 && c[1] < shapes.len() && c[2] < LAYOUTS.len() && c[3] < FORMATS.len() {
            let r = dispatch_dt!(c[0], T => round_trip::<T>(&shapes[c[1]], c[2], c[3], &tmp));
            if let Err((sig, detail)) = r {
                ctx.violation(sig, case.clone(), detail);
            }
        }
        let _ = std::fs::remove_dir_all(&tmp);
    } else {
        let bytes = unhex(case["bytes_hex"].as_str().unwrap_or(""));
        let tmp = format!("/tmp/mc-bytes-c34r-{}", std::process::id());
        let _ = std::fs::create_dir_all(&tmp);
        let mut w = vp_core::isolate::Worker::new("c34", Duration::from_secs(600), MEM_LIMIT);
        match w.run(&json!({"explicit": hex(&bytes), "case_timeout_ms": 5000, "tmp": tmp})) {
            vp_core::isolate::Outcome::Answer(a) => {
                if let Some(vs) = a["vio"].as_array() {
                    for v in vs {
                        ctx.violation(v["sig"].as_str().unwrap_or("?"), case.clone(), v["detail"].as_str().unwrap_or(""));
                    }
                }
                if let Some(fs) = a["faults"].as_array() {
                    for f in fs {
                        let (sig, detail) = fault_sig(&drv::fault_from_json(f));
                        ctx.violation(sig, case.clone(), detail);
                    }
                }
                println!("replay outcomes: {}", a["hist"]);
            }
            other => vp_core::machinery_error(&format!("replay: supervisor failure {other:?}")),
        }
        drop(w);
        let _ = std::fs::remove_dir_all(&tmp);
    }
    ctx.finish("fault_enumeration", json!({"evaluations": 1, "distinct_nontrivial": 2, "rule": "replay of one recorded case", "samples": [case]}), vec![])
}
