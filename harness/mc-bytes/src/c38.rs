//! C38 — the ONNX protobuf decoder terminates (in linear time), never panics
//! or aborts, and reports LEN fields longer than the remaining input as errors.
//!
//! Exhaustive fault enumeration over byte strings, driven through the real
//! decoder from every public entry point, in isolated worker processes.

use std::cell::Cell;
use std::collections::BTreeMap;
use std::fs::File;
use std::io::{BufRead, Read, Seek, SeekFrom};
use std::os::unix::fs::FileExt;
use std::time::Duration;

use rten_onnx::onnx::{ModelProto, is_onnx_model};
use rten_onnx::protobuf::{DecodeMessage, ErrorKind, ProtobufError, ReadPos, ValueReader};
use vp_core::{Ctx, Json, json};

use crate::drv::{self, Batch, DrvConfig, Fault, FaultKind, PanicInfo, hex, unhex};
use crate::gens::{self, FaultPlan, InputSet, Item, SetKind, tag, vi};
use crate::pbref::{self, Mt, Overlong};
use crate::seeds;

// entry points (bit mask) -----------------------------------------------------
pub const T_BUF: u64 = 1; // ModelProto::parse_buf
pub const T_FILE: u64 = 2; // ModelProto::parse_file
pub const T_SNIFF: u64 = 4; // is_onnx_model(ValueReader::from_buf)
pub const T_LOAD: u64 = 8; // rten::Model::load
pub const T_INSTR: u64 = 16; // ModelProto::decode over an instrumented reader (one chunk)
pub const T_INSTR1: u64 = 32; // same, reader hands out one byte per fill_buf
pub const T_ISNIFF: u64 = 64; // is_onnx_model over the instrumented reader
const ALL_TARGETS: u64 = 127;

fn target_name(t: u64) -> &'static str {
    match t {
        T_BUF => "parse_buf",
        T_FILE => "parse_file",
        T_SNIFF => "is_onnx_model",
        T_LOAD => "Model::load",
        T_INSTR => "decode(instrumented reader)",
        T_INSTR1 => "decode(instrumented reader, 1-byte chunks)",
        T_ISNIFF => "is_onnx_model(instrumented reader)",
        _ => "?",
    }
}

// ------------------------------------------------------------- input sets

pub struct SetSpec {
    pub set: InputSet,
    pub mask: u64,
    pub batch: u64,
}

const ALPHA9: [u8; 9] = [0x00, 0x01, 0x08, 0x0a, 0x12, 0x3a, 0x7f, 0x80, 0xff];

/// Headers of a chain of embedded messages: `path[i]` is the field number at
/// level i; returns the bytes of the outermost message whose innermost content
/// is `inner`.
fn wrap_path(path: &[u64], inner: &[u8]) -> Vec<u8> {
    let mut cur = inner.to_vec();
    for f in path.iter().rev() {
        let mut o = tag(*f, 2);
        o.extend(vi(cur.len() as u64));
        o.extend(cur);
        cur = o;
    }
    cur
}

/// "Single field" box: at every schema path of depth <= 3 one final field whose
/// length / value / tag takes every extreme value or odd encoding.
fn single_field_box(thorough: bool) -> Vec<Item> {
    let paths: Vec<(&str, Vec<u64>)> = vec![
        ("model", vec![]),
        ("model.graph", vec![7]),
        ("model.graph.initializer", vec![7, 5]),
        ("model.graph.node", vec![7, 1]),
        ("model.graph.node.attribute", vec![7, 1, 5]),
        ("model.graph.input", vec![7, 11]),
        ("model.opset_import", vec![8]),
        ("model.metadata_props", vec![14]),
    ];
    let payloads: Vec<&[u8]> = if thorough { vec![&[], &[0], &[0; 8]] } else { vec![&[], &[0; 8]] };
    let prefixes: &[bool] = if thorough { &[false, true] } else { &[false] };
    let mut out = Vec::new();
    for &prefix in prefixes {
        for (pname, path) in &paths {
            for f in 1..=16u64 {
                // LEN field with extreme length
                for payload in payloads.iter().copied() {
                    for l in gens::len_extremes(payload.len() as u64, thorough) {
                        let mut inner = tag(f, 2);
                        inner.extend(vi(l));
                        inner.extend_from_slice(payload);
                        let mut b = if prefix { vec![0x08, 0x01] } else { vec![] };
                        b.extend(wrap_path(path, &inner));
                        out.push(Item {
                            bytes: b,
                            desc: format!(
                                "{}{}: LEN field {} with declared length {} followed by {} byte(s)",
                                if prefix { "ir_version=1; " } else { "" },
                                pname,
                                f,
                                l,
                                payload.len()
                            ),
                        });
                    }
                }
            }
            if prefix {
                continue;
            }
            for f in [1u64, 2, 15] {
                for trailing in payloads.iter().copied() {
                    for (name, enc) in gens::odd_varints() {
                        // odd encoding as varint value
                        let mut inner = tag(f, 0);
                        inner.extend(&enc);
                        inner.extend_from_slice(trailing);
                        out.push(Item {
                            bytes: wrap_path(path, &inner),
                            desc: format!("{pname}: varint field {f} encoded as {name}, then {} byte(s)", trailing.len()),
                        });
                        // odd encoding as length
                        let mut inner = tag(f, 2);
                        inner.extend(&enc);
                        inner.extend_from_slice(trailing);
                        out.push(Item {
                            bytes: wrap_path(path, &inner),
                            desc: format!("{pname}: length of LEN field {f} encoded as {name}, then {} byte(s)", trailing.len()),
                        });
                        // odd encoding as tag
                        let mut inner = enc.clone();
                        inner.extend_from_slice(trailing);
                        out.push(Item {
                            bytes: wrap_path(path, &inner),
                            desc: format!("{pname}: tag encoded as {name}, then {} byte(s)", trailing.len()),
                        });
                    }
                }
            }
            // truncated fixed-width values
            for (w, n) in [(1u8, 8usize), (5, 4)] {
                for have in 0..n {
                    let mut inner = tag(15, w);
                    inner.extend(vec![0u8; have]);
                    out.push(Item {
                        bytes: wrap_path(path, &inner),
                        desc: format!("{pname}: fixed{} field 15 with only {have} byte(s)", n * 8),
                    });
                }
            }
        }
    }
    // shortest first, so that the first case per signature is the smallest one
    out.sort_by(|a, b| a.bytes.len().cmp(&b.bytes.len()));
    out
}

/// Nested embedded messages along a schema cycle, `depth` levels deep.
fn nested(cycle: &[u64], head: &[u64], depth: usize) -> Vec<u8> {
    // field numbers from outermost to innermost
    let mut fields: Vec<u64> = head.to_vec();
    for _ in 0..depth {
        fields.extend_from_slice(cycle);
    }
    // sizes[i] = size of the content of level i (innermost content is empty)
    let n = fields.len();
    let mut sizes = vec![0usize; n + 1];
    for i in (0..n).rev() {
        let inner = sizes[i + 1];
        sizes[i] = tag(fields[i], 2).len() + vi(inner as u64).len() + inner;
    }
    let mut out = Vec::with_capacity(sizes[0] + 2);
    out.extend([0x08, 0x08]);
    for i in 0..n {
        out.extend(tag(fields[i], 2));
        out.extend(vi(sizes[i + 1] as u64));
    }
    out
}

fn nest_depths(thorough: bool) -> Vec<usize> {
    let mut d: Vec<usize> = (1..=64).collect();
    if thorough {
        for k in 7..=17 {
            d.push(1 << k);
            d.push((1 << k) + (1 << (k - 1)));
        }
    } else {
        d.extend([128, 512, 2048, 8192, 32768]);
    }
    d
}

fn nesting_box(thorough: bool) -> Vec<Item> {
    let mut out = Vec::new();
    let kinds: [(&str, Vec<u64>, Vec<u64>); 4] = [
        ("graph -> node -> attribute -> g(raph)", vec![7], vec![1, 5, 6]),
        ("graph.input.type: TypeProto -> sequence -> elem_type", vec![7, 11, 2], vec![4, 1]),
        ("unknown field 15 inside unknown field 15", vec![], vec![15]),
        ("metadata_props inside itself (strings, not messages)", vec![], vec![14]),
    ];
    for depth in nest_depths(thorough) {
        for (name, head, cycle) in &kinds {
            out.push(Item {
                bytes: nested(cycle, head, depth),
                desc: format!("ir_version=8 then {name}, nesting depth {depth}"),
            });
        }
    }
    out
}

pub const N_SETS: usize = 6;

/// Build input set number `i` (parent and workers construct identical sets).
pub fn build_set(i: usize, thorough: bool) -> SetSpec {
    match i {
        0 => SetSpec {
            set: InputSet { name: "all byte strings of length 0..=2".into(), kind: SetKind::AllBytes { min_len: 0, max_len: 2 } },
            mask: ALL_TARGETS,
            batch: 2048,
        },
        1 => SetSpec {
            set: InputSet { name: "all byte strings of length 3".into(), kind: SetKind::AllBytes { min_len: 3, max_len: 3 } },
            mask: if thorough { ALL_TARGETS } else { T_BUF | T_INSTR | T_ISNIFF },
            batch: if thorough { 16384 } else { 65536 },
        },
        2 => SetSpec {
            set: InputSet {
                name: format!("strings of length 4..={} over {{00,01,08,0a,12,3a,7f,80,ff}}", if thorough { 7 } else { 5 }),
                kind: SetKind::Alphabet { alpha: ALPHA9.to_vec(), min_len: 4, max_len: if thorough { 7 } else { 5 } },
            },
            mask: if thorough { T_BUF | T_FILE | T_SNIFF | T_INSTR | T_INSTR1 | T_ISNIFF } else { ALL_TARGETS },
            batch: if thorough { 32768 } else { 2048 },
        },
        3 => SetSpec {
            set: InputSet {
                name: "single-field box (extreme lengths / odd varints at every schema path of depth<=3)".into(),
                kind: SetKind::List(single_field_box(thorough)),
            },
            mask: ALL_TARGETS,
            batch: 128,
        },
        4 => SetSpec {
            set: InputSet { name: "nesting box".into(), kind: SetKind::List(nesting_box(thorough)) },
            mask: ALL_TARGETS,
            batch: 8,
        },
        _ => {
            let mut seeds = seeds::onnx_seeds();
            if !thorough {
                seeds.retain(|s| ["raw", "typed", "sub"].contains(&s.name));
            }
            let plan = if thorough { FaultPlan::all_bytes() } else { FaultPlan::standard() };
            let mut faults = Vec::new();
            for (i, s) in seeds.iter().enumerate() {
                gens::protobuf_faults(i as u16, &s.msg, &plan, &mut faults);
            }
            SetSpec {
                set: InputSet {
                    name: "single faults of the ONNX seed models".into(),
                    kind: SetKind::Faults {
                        seeds: seeds.iter().map(|s| (s.name.to_string(), s.msg.buf.clone())).collect(),
                        faults,
                    },
                },
                mask: ALL_TARGETS,
                batch: 256,
            }
        }
    }
}

pub fn build_sets(thorough: bool) -> Vec<SetSpec> {
    (0..N_SETS).map(|i| build_set(i, thorough)).collect()
}

// ------------------------------------------------------ instrumented reader

#[derive(Default)]
struct Stats {
    consumed: Cell<u64>,
    ops: Cell<u64>,
    neg_seeks: Cell<u64>,
    most_negative: Cell<i64>,
    tripped: Cell<bool>,
}

/// A `BufRead + Seek` over a slice that behaves like `std::io::Cursor` but
/// counts bytes handed out, reader operations and backward seeks, and refuses
/// to continue once a linear budget is exceeded.
struct Counting<'a> {
    data: &'a [u8],
    pos: u64,
    chunk: usize,
    st: &'a Stats,
    budget_bytes: u64,
    budget_ops: u64,
}

impl<'a> Counting<'a> {
    fn op(&self) -> std::io::Result<()> {
        let st = self.st;
        st.ops.set(st.ops.get() + 1);
        if st.ops.get() > self.budget_ops || st.consumed.get() > self.budget_bytes {
            st.tripped.set(true);
            return Err(std::io::Error::other("verif: linear budget exceeded"));
        }
        Ok(())
    }
    fn avail(&self) -> &'a [u8] {
        let p = (self.pos.min(self.data.len() as u64)) as usize;
        let rest = &self.data[p..];
        &rest[..rest.len().min(self.chunk)]
    }
}

impl Read for Counting<'_> {
    fn read(&mut self, buf: &mut [u8]) -> std::io::Result<usize> {
        self.op()?;
        let a = self.avail();
        let n = a.len().min(buf.len());
        buf[..n].copy_from_slice(&a[..n]);
        self.pos += n as u64;
        self.st.consumed.set(self.st.consumed.get() + n as u64);
        Ok(n)
    }
}

impl BufRead for Counting<'_> {
    fn fill_buf(&mut self) -> std::io::Result<&[u8]> {
        self.op()?;
        Ok(self.avail())
    }
    fn consume(&mut self, amt: usize) {
        self.pos += amt as u64;
        self.st.consumed.set(self.st.consumed.get() + amt as u64);
    }
}

impl Seek for Counting<'_> {
    fn seek(&mut self, s: SeekFrom) -> std::io::Result<u64> {
        self.op()?;
        let (base, off) = match s {
            SeekFrom::Start(n) => {
                self.pos = n;
                return Ok(n);
            }
            SeekFrom::Current(n) => (self.pos, n),
            SeekFrom::End(n) => (self.data.len() as u64, n),
        };
        if off < 0 {
            self.st.neg_seeks.set(self.st.neg_seeks.get() + 1);
            self.st.most_negative.set(self.st.most_negative.get().min(off));
        }
        match base.checked_add_signed(off) {
            Some(n) => {
                self.pos = n;
                Ok(n)
            }
            None => Err(std::io::Error::new(
                std::io::ErrorKind::InvalidInput,
                "invalid seek to a negative or overflowing position",
            )),
        }
    }
}

#[derive(Clone, Debug)]
struct InstrResult {
    out: Out,
    consumed: u64,
    ops: u64,
    neg_seeks: u64,
    most_negative: i64,
    tripped: bool,
}

fn run_instrumented(bytes: &[u8], chunk: usize, sniff: bool) -> InstrResult {
    let st = Stats::default();
    let len = bytes.len() as u64;
    let r = Counting { data: bytes, pos: 0, chunk, st: &st, budget_bytes: 2 * len + 64, budget_ops: 8 * len + 64 };
    let out = if sniff {
        match drv::catch(|| is_onnx_model(ValueReader::new(ReadPos::new(r)))) {
            Ok(true) => Out::Ok,
            Ok(false) => Out::Err("false"),
            Err(p) => Out::Panic(p),
        }
    } else {
        match drv::catch(|| ModelProto::decode(ValueReader::new(ReadPos::new(r)))) {
            Ok(Ok(_)) => Out::Ok,
            Ok(Err(e)) => Out::Err(err_kind(&e)),
            Err(p) => Out::Panic(p),
        }
    };
    InstrResult {
        out,
        consumed: st.consumed.get(),
        ops: st.ops.get(),
        neg_seeks: st.neg_seeks.get(),
        most_negative: st.most_negative.get(),
        tripped: st.tripped.get(),
    }
}

/// Does the decoder (resp. the file-type sniffer) exceed the linear budget on
/// `bytes`? Used by C05 to avoid handing non-terminating inputs to Model::load.
pub fn budget_trips(bytes: &[u8]) -> (bool, bool, bool) {
    let a = run_instrumented(bytes, usize::MAX, false);
    let b = run_instrumented(bytes, usize::MAX, true);
    let backward = (a.tripped && a.neg_seeks > 0) || (b.tripped && b.neg_seeks > 0);
    (a.tripped, b.tripped, backward)
}

// ------------------------------------------------------------ evaluation

#[derive(Clone, Debug)]
enum Out {
    Ok,
    Err(&'static str),
    Panic(PanicInfo),
}

impl Out {
    fn key(&self) -> String {
        match self {
            Out::Ok => "Ok".into(),
            Out::Err(k) => k.to_string(),
            Out::Panic(p) => format!("PANIC({})", p.norm_msg()),
        }
    }
}

fn err_kind(e: &ProtobufError) -> &'static str {
    match e.kind() {
        ErrorKind::IoError(io) => match io.kind() {
            std::io::ErrorKind::UnexpectedEof => "Io:UnexpectedEof",
            std::io::ErrorKind::InvalidInput => "Io:InvalidInput",
            std::io::ErrorKind::InvalidData => "Io:InvalidData",
            std::io::ErrorKind::OutOfMemory => "Io:OutOfMemory",
            _ => "Io:Other",
        },
        ErrorKind::InvalidVarint => "InvalidVarint",
        ErrorKind::Eof => "Eof",
        ErrorKind::FieldTypeMismatch => "FieldTypeMismatch",
        ErrorKind::FieldLengthMismatch => "FieldLengthMismatch",
        ErrorKind::InvalidWireType => "InvalidWireType",
        ErrorKind::FieldAlreadyConsumed => "FieldAlreadyConsumed",
        ErrorKind::InvalidUtf8 => "InvalidUtf8",
        ErrorKind::FieldNotConsumed => "FieldNotConsumed",
        _ => "OtherKind",
    }
}

fn load_err_kind(e: &rten::LoadError) -> &'static str {
    use rten::LoadErrorKind as K;
    match e.kind() {
        K::IoError => "IoError",
        K::ParseError => "ParseError",
        K::OperatorInvalid => "OperatorInvalid",
        K::GraphError => "GraphError",
        K::OptimizeError => "OptimizeError",
        K::ShapeInferenceFailed => "ShapeInferenceFailed",
        K::UnknownFileType => "UnknownFileType",
        K::ExternalDataError => "ExternalDataError",
        K::FormatNotEnabled => "FormatNotEnabled",
        _ => "Other",
    }
}

/// Histogram with static keys for the hot path (17 M tiny inputs).
#[derive(Default)]
struct FastHist {
    v: Vec<((&'static str, &'static str), u64)>,
}

impl FastHist {
    #[inline]
    fn add(&mut self, a: &'static str, b: &'static str) {
        for e in self.v.iter_mut() {
            if std::ptr::eq(e.0.0, a) && std::ptr::eq(e.0.1, b) {
                e.1 += 1;
                return;
            }
        }
        self.v.push(((a, b), 1));
    }
    fn flush(&mut self, acc: &mut BatchAcc) {
        for ((a, b), n) in self.v.drain(..) {
            *acc.hist.entry(format!("{a}: {b}")).or_insert(0) += n;
        }
    }
}

struct MemFile {
    file: File,
}

impl MemFile {
    fn new() -> MemFile {
        use std::os::fd::FromRawFd;
        let fd = unsafe { libc::memfd_create(c"mc-bytes".as_ptr(), libc::MFD_CLOEXEC) };
        if fd < 0 {
            vp_core::machinery_error("memfd_create failed");
        }
        MemFile { file: unsafe { File::from_raw_fd(fd) } }
    }
    /// A fresh `File` handle positioned at 0 whose content is `bytes`.
    fn with(&mut self, bytes: &[u8]) -> File {
        self.file.set_len(0).unwrap();
        self.file.write_all_at(bytes, 0).unwrap();
        self.file.seek(SeekFrom::Start(0)).unwrap();
        self.file.try_clone().unwrap()
    }
}

fn len_class(v: u64) -> &'static str {
    if v >= 1 << 63 { ">=2^63" } else { "<2^63" }
}

fn sig_accept(o: &Overlong) -> String {
    format!(
        "decoder accepts a LEN field longer than the remaining input (field kind={}, declared length {})",
        o.kind,
        len_class(o.declared)
    )
}

fn sig_panic(p: &PanicInfo) -> String {
    format!("decoder panics: \"{}\" at {}", p.norm_msg(), p.short_file())
}

fn describe_overlong(o: &Overlong) -> String {
    format!(
        "{:?} field {} (kind {}) at offset {} declares {} bytes, {} remain",
        o.in_msg, o.field, o.kind, o.tag_off, o.declared, o.remaining
    )
}

type BatchAcc = drv::Acc;

struct WorkerState {
    memfile: MemFile,
    fh: FastHist,
}

/// Evaluate one input through the entry points in `mask`.
fn eval(ws: &mut WorkerState, bytes: &[u8], idx: u64, mask: u64, force_real: bool, prog: &drv::Progress, acc: &mut BatchAcc, want_hash: bool) {
    acc.n += 1;
    prog.set(idx, 0);
    let full = pbref::walk(bytes, Mt::Model);
    let slim = pbref::walk(bytes, Mt::SlimModel);
    if full.fields >= 1 {
        acc.count("nontrivial", 1);
        if want_hash {
            acc.hashes.push(vp_core::fnv(bytes));
        }
    }
    if full.must_err().is_some() {
        acc.count("must_err", 1);
    }
    let mut results: Vec<(u64, Out)> = Vec::new();
    // which real entry points would not terminate (predicted by the instrumented runs)
    let mut tripped_full = false;
    let mut tripped_sniff = false;
    let mut isniff: Option<Out> = None;

    for (t, chunk, is_sniff) in [(T_INSTR, usize::MAX, false), (T_INSTR1, 1usize, false), (T_ISNIFF, usize::MAX, true)] {
        if mask & t == 0 {
            continue;
        }
        prog.stage(t);
        let r = run_instrumented(bytes, chunk, is_sniff);
        let len = bytes.len() as u64;
        acc.max("ratio_milli", r.consumed * 1000 / len.max(1));
        if r.tripped {
            if is_sniff {
                tripped_sniff = true;
            } else {
                tripped_full = true;
            }
            let how = if r.neg_seeks > 0 { "a skip seeks backwards and fields are decoded again" } else { "reads that make no progress" };
            acc.vio(
                format!("decoder exceeds the linear-time budget: {how}"),
                idx,
                format!(
                    "[{}] input of {} bytes; reader handed out {} bytes in {} operations (budget {} bytes / {} operations), {} backward seek(s), largest {}; the instrumented reader then refused to continue",
                    target_name(t), len, r.consumed, r.ops, 2 * len + 64, 8 * len + 64, r.neg_seeks, r.most_negative
                ),
            );
        } else {
            if r.neg_seeks > 0 {
                *acc.obs.entry("backward seek during decode (terminated)".into()).or_insert(0) += 1;
            }
            if is_sniff {
                isniff = Some(r.out);
            } else {
                results.push((t, r.out));
            }
        }
    }
    if tripped_full {
        acc.notes.push(json!([idx, "full"]));
    } else if tripped_sniff {
        acc.notes.push(json!([idx, "sniff"]));
    }
    if !tripped_full || force_real {
        if mask & T_BUF != 0 {
            prog.stage(T_BUF);
            let out = match drv::catch(|| ModelProto::parse_buf(bytes)) {
                Ok(Ok(_)) => Out::Ok,
                Ok(Err(e)) => Out::Err(err_kind(&e)),
                Err(p) => Out::Panic(p),
            };
            results.push((T_BUF, out));
        }
        if mask & T_FILE != 0 {
            prog.stage(T_FILE);
            let f = ws.memfile.with(bytes);
            let out = match drv::catch(|| ModelProto::parse_file(f)) {
                Ok(Ok(_)) => Out::Ok,
                Ok(Err(e)) => Out::Err(err_kind(&e)),
                Err(p) => Out::Panic(p),
            };
            results.push((T_FILE, out));
        }
    }
    let any_trip = tripped_full || tripped_sniff;
    if mask & T_LOAD != 0 && (!any_trip || force_real) {
        prog.stage(T_LOAD);
        let data = bytes.to_vec();
        let out = match drv::catch(|| rten::Model::load(data)) {
            Ok(Ok(_)) => Out::Ok,
            Ok(Err(e)) => Out::Err(load_err_kind(&e)),
            Err(p) => Out::Panic(p),
        };
        results.push((T_LOAD, out));
    }
    // the sniffer has its own (flat) schema
    let mut sniff: Option<Result<bool, PanicInfo>> = None;
    if mask & T_SNIFF != 0 && (!tripped_sniff || force_real) {
        prog.stage(T_SNIFF);
        sniff = Some(drv::catch(|| is_onnx_model(ValueReader::from_buf(bytes))));
    }
    prog.stage(0);

    // ---- oracle: one violation per (input, signature); the detail names every entry point
    let mut per_sig: BTreeMap<String, (Vec<&'static str>, String)> = BTreeMap::new();
    let mut flag = |sig: String, who: &'static str, what: String| {
        let e = per_sig.entry(sig).or_insert((Vec::new(), what));
        e.0.push(who);
    };
    results.sort_by_key(|(t, _)| *t);
    for (t, out) in &results {
        match out {
            Out::Ok => ws.fh.add(target_name(*t), "Ok"),
            Out::Err(k) => ws.fh.add(target_name(*t), k),
            Out::Panic(_) => *acc.hist.entry(format!("{}: {}", target_name(*t), out.key())).or_insert(0) += 1,
        }
        match out {
            Out::Panic(p) => {
                if *t == T_LOAD && p.short_file().starts_with("src/") {
                    // panic in the model loader, not in the decoder: property C05
                    *acc.obs.entry(format!("Model::load panics outside the decoder (C05): {}", sig_panic(p))).or_insert(0) += 1;
                } else {
                    flag(sig_panic(p), target_name(*t), format!("panicked: \"{}\" at {}:{}", p.msg, p.file, p.line));
                }
            }
            Out::Ok => {
                // Model::load decodes the bytes as ONNX only when the sniffer said so
                let decoded_as_onnx = *t != T_LOAD || matches!(sniff, Some(Ok(true)));
                if let (true, Some(o)) = (decoded_as_onnx, full.must_err()) {
                    flag(sig_accept(o), target_name(*t), format!("returned Ok although {}", describe_overlong(o)));
                }
            }
            Out::Err(_) => {
                if *t != T_LOAD && matches!(full.stop, pbref::Stop::End) {
                    *acc.obs.entry("well-formed for the reference walker but rejected by the decoder".into()).or_insert(0) += 1;
                }
            }
        }
    }
    if let Some(s) = &sniff {
        match s {
            Ok(b) => {
                ws.fh.add("is_onnx_model", if *b { "true" } else { "false" });
                if *b {
                    if let Some(o) = slim.must_err() {
                        flag(sig_accept(o), "is_onnx_model", format!("returned true although {}", describe_overlong(o)));
                    }
                }
            }
            Err(p) => {
                *acc.hist.entry(format!("is_onnx_model: PANIC({})", p.norm_msg())).or_insert(0) += 1;
                flag(sig_panic(p), "is_onnx_model", format!("panicked: \"{}\" at {}:{}", p.msg, p.file, p.line));
            }
        }
    }
    if let Some(o) = &isniff {
        match o {
            Out::Ok => ws.fh.add(target_name(T_ISNIFF), "true"),
            Out::Err(k) => ws.fh.add(target_name(T_ISNIFF), k),
            Out::Panic(_) => *acc.hist.entry(format!("{}: {}", target_name(T_ISNIFF), o.key())).or_insert(0) += 1,
        }
        match o {
            Out::Ok => {
                if let Some(ov) = slim.must_err() {
                    flag(sig_accept(ov), target_name(T_ISNIFF), format!("returned true although {}", describe_overlong(ov)));
                }
            }
            Out::Panic(p) => flag(sig_panic(p), target_name(T_ISNIFF), format!("panicked: \"{}\" at {}:{}", p.msg, p.file, p.line)),
            Out::Err(_) => {}
        }
    }
    for (sig, (who, what)) in per_sig {
        acc.vio(sig, idx, format!("[{}] {}", who.join(", "), what));
    }
    // differential note (not a verdict): entry points should agree on Ok/Err
    let oks: Vec<bool> = results.iter().filter(|(t, _)| *t != T_LOAD).map(|(_, o)| matches!(o, Out::Ok)).collect();
    if oks.iter().any(|b| *b) && oks.iter().any(|b| !*b) {
        *acc.obs.entry("entry points disagree on Ok/Err for the same bytes".into()).or_insert(0) += 1;
    }
}

thread_local! {
    static SETS: std::cell::RefCell<BTreeMap<(usize, bool), &'static SetSpec>> = const { std::cell::RefCell::new(BTreeMap::new()) };
}

fn set_for(i: usize, thorough: bool) -> &'static SetSpec {
    SETS.with(|s| *s.borrow_mut().entry((i, thorough)).or_insert_with(|| Box::leak(Box::new(build_set(i, thorough)))))
}

/// Worker: supervises forked children that evaluate the cases.
pub fn worker() -> ! {
    drv::die_with_parent();
    let sup = drv::Supervisor::new();
    vp_core::isolate::worker_loop(move |req| {
        drv::install_panic_hook();
        let mask = req["mask"].as_u64().unwrap_or(ALL_TARGETS);
        let force_real = req["force_real"].as_bool().unwrap_or(false);
        let case_timeout = Duration::from_millis(req["case_timeout_ms"].as_u64().unwrap_or(5000));
        if let Some(h) = req["explicit"].as_str() {
            let bytes = unhex(h);
            let mut body = |_from: u64, _to: u64, prog: &drv::Progress| -> Json {
                let mut ws = WorkerState { memfile: MemFile::new(), fh: FastHist::default() };
                let mut acc = BatchAcc::default();
                eval(&mut ws, &bytes, 0, mask, force_real, prog, &mut acc, false);
                ws.fh.flush(&mut acc);
                acc.to_json()
            };
            return drv::supervised_answer(&sup, 0, 0, 1, case_timeout, &|_| false, &mut body);
        }
        let thorough = req["thorough"].as_bool().unwrap_or(false);
        let set = req["set"].as_u64().unwrap_or(0) as usize;
        if set >= N_SETS {
            return json!({"machinery": "unknown set"});
        }
        let (start, end) = (req["start"].as_u64().unwrap_or(0), req["end"].as_u64().unwrap_or(0));
        let spec = set_for(set, thorough);
        let want_hash = !matches!(spec.set.kind, SetKind::AllBytes { .. } | SetKind::Alphabet { .. });
        let mut body = |from: u64, to: u64, prog: &drv::Progress| -> Json {
            let mut ws = WorkerState { memfile: MemFile::new(), fh: FastHist::default() };
            let mut acc = BatchAcc::default();
            let mut buf = Vec::new();
            for idx in from..to.min(spec.set.len()) {
                spec.set.fill(idx, &mut buf);
                eval(&mut ws, &buf, idx, mask, force_real, prog, &mut acc, want_hash);
            }
            ws.fh.flush(&mut acc);
            acc.to_json()
        };
        // performance hint: cases that will probably kill their process get a child of their own
        let risky = |idx: u64| -> bool {
            if !want_hash {
                return false; // exhaustive short-string sets: nothing in them can allocate much
            }
            let mut b = Vec::new();
            spec.set.fill(idx, &mut b);
            let w = pbref::walk(&b, Mt::Model);
            match w.must_err() {
                Some(o) => (o.kind == "string" || o.kind == "bytes") && o.declared >= (1 << 33) && o.declared < (1 << 63),
                None => w.max_depth > 2000,
            }
        };
        drv::supervised_answer(&sup, set, start, end.min(spec.set.len()), case_timeout, &risky, &mut body)
    })
}

// ------------------------------------------------------------------ parent

fn fault_signature(f: &Fault, bytes: &[u8]) -> (String, String) {
    let full = pbref::walk(bytes, Mt::Model);
    let slim = pbref::walk(bytes, Mt::SlimModel);
    let what = match &f.kind {
        FaultKind::Timeout => "does not return (hang)".to_string(),
        FaultKind::Died(_) => {
            if f.stderr.contains("memory allocation of") {
                "aborts the process: memory allocation failure".to_string()
            } else if f.stderr.contains("overflowed its stack") {
                "aborts the process: stack overflow".to_string()
            } else {
                format!("kills the process ({})", f.kind.short())
            }
        }
    };
    let over = full.must_err().or(slim.must_err());
    // "memory allocation of N bytes failed"
    let alloc_n: Option<u128> = f
        .stderr
        .split("memory allocation of ")
        .nth(1)
        .and_then(|r| r.split(' ').next())
        .and_then(|n| n.parse().ok());
    let sig = if let (FaultKind::Died(_), Some(n)) = (&f.kind, alloc_n) {
        if n > bytes.len() as u128 {
            "decoder aborts the process: allocates the declared length of a string/bytes field before checking it against the input".to_string()
        } else {
            format!("decoder {what}")
        }
    } else {
        let feature = match over {
            Some(o) => format!("LEN field longer than the remaining input (field kind={}, declared length {})", o.kind, len_class(o.declared)),
            None => {
                if full.max_depth >= 100 {
                    "deeply nested embedded messages".to_string()
                } else {
                    match &full.stop {
                        pbref::Stop::Odd(s) => format!("input with {s}"),
                        _ => "well-formed input".to_string(),
                    }
                }
            }
        };
        format!("decoder {what} on {feature}")
    };
    let detail = format!(
        "entry point {} on a {}-byte input: {}; stderr of the dying process: {:?}; reference walker: {:?}, max nesting depth {}",
        target_name(f.stage),
        bytes.len(),
        f.kind.describe(),
        f.stderr,
        full.stop,
        full.max_depth
    );
    (sig, detail)
}

const MEM_LIMIT: u64 = 8 << 30;

pub fn run(ctx: Ctx) -> ! {
    if let Some(path) = ctx.replay.clone() {
        replay(ctx, &path);
    }
    let thorough = ctx.tier.is_thorough();
    let sets = build_sets(thorough);
    let tot = drv::Totals::new();
    let case_timeout_ms: u64 = if thorough { 10_000 } else { 5_000 };

    let mut batches = Vec::new();
    let only: Option<usize> = std::env::var("MC_ONLY_SET").ok().and_then(|s| s.parse().ok());
    for (i, s) in sets.iter().enumerate() {
        if only.map(|o| o != i).unwrap_or(false) {
            continue;
        }
        drv::split(i, s.set.len(), s.batch, &mut batches);
    }
    // VERIF_SEED only rotates the batch order
    if !batches.is_empty() {
        let r = (ctx.seed as usize) % batches.len();
        batches.rotate_left(r);
    }
    let cfg = DrvConfig {
        worker: "c38",
        nworkers: vp_core::par::threads(),
        // hangs and deaths are handled by the fork supervisor inside the worker;
        // this outer watchdog only guards the supervisor itself
        watchdog: Duration::from_secs(3600),
        confirm_watchdog: Duration::from_secs(3600),
        mem_limit: MEM_LIMIT,
    };
    let make_req = |b: &Batch, _ppath: &str, _single: bool| -> Json {
        json!({"set": b.set, "start": b.start, "end": b.end, "mask": sets[b.set].mask, "thorough": thorough, "case_timeout_ms": case_timeout_ms})
    };
    let on_answer = |b: &Batch, a: &Json| tot.absorb(b.set, a);
    let on_fault = |f: &Fault| {
        vp_core::machinery_error(&format!("C38: the supervising worker itself failed: {f:?}"));
    };
    let stats = drv::run_batches(&cfg, &batches, &make_req, &on_answer, &on_fault);

    // faults (abort / hang of a whole entry point)
    let mut buf = Vec::new();
    let mut fault_list = std::mem::take(&mut *tot.faults.lock().unwrap());
    fault_list.sort_by_key(|f| (f.set, f.idx));
    let n_faults = fault_list.len();
    for f in fault_list {
        sets[f.set].set.fill(f.idx, &mut buf);
        let (sig, detail) = fault_signature(&f, &buf);
        tot.cnt.add("evaluations", 1);
        tot.cnt.add(&format!("set{}_evaluations", f.set), 1);
        tot.hist.lock().unwrap().entry(format!("{}: {}", target_name(f.stage), match f.kind { FaultKind::Timeout => "HANG".to_string(), FaultKind::Died(_) => format!("DIED({})", f.kind.short()) })).and_modify(|c| *c += 1).or_insert(1);
        tot.book.add(&sig, 1, f.set, f.idx, &detail);
    }

    // Inputs on which an instrumented run exceeded its budget were not given to
    // the corresponding uninstrumented entry points (they would not return).
    // Confirm the smallest few of them against the real entry points.
    let mut tr: Vec<(usize, u64, String)> = tot
        .notes
        .lock()
        .unwrap()
        .iter()
        .map(|(set, j)| (*set, j[0].as_u64().unwrap_or(0), j[1].as_str().unwrap_or("").to_string()))
        .collect();
    tr.sort();
    let mut confirm_notes = Vec::new();
    let mut w = vp_core::isolate::Worker::new("c38", Duration::from_secs(600), MEM_LIMIT);
    for which in ["full", "sniff"] {
        for (set, idx, _) in tr.iter().filter(|t| t.2 == which).take(2) {
            sets[*set].set.fill(*idx, &mut buf);
            let targets: &[u64] = if which == "full" { &[T_BUF, T_FILE] } else { &[T_SNIFF, T_LOAD] };
            for t in targets {
                let out = w.run(&json!({"explicit": hex(&buf), "mask": t, "force_real": true, "case_timeout_ms": 5000}));
                let note = match out {
                    vp_core::isolate::Outcome::Answer(a) => {
                        let fs = a["faults"].as_array().cloned().unwrap_or_default();
                        if let Some(f) = fs.first() {
                            if f["kind"] == "timeout" {
                                format!("{} on {} did not return within 5 s, twice (confirmed hang)", target_name(*t), hex(&buf))
                            } else {
                                format!("{} on {} killed the process: {}", target_name(*t), hex(&buf), f["status"])
                            }
                        } else {
                            format!("{} on {} returned: {}", target_name(*t), hex(&buf), a["hist"])
                        }
                    }
                    other => format!("{} on {}: supervisor failure {:?}", target_name(*t), hex(&buf), other),
                };
                confirm_notes.push(note);
            }
        }
    }
    drop(w);
    if !tr.is_empty() && !confirm_notes.iter().any(|n| n.contains("confirmed hang")) {
        tot.obs.lock().unwrap().insert("instrumented reader over budget but no real entry point hung in the confirmation sample".into(), 1);
    }

    // non-vacuity
    let hist = std::mem::take(&mut *tot.hist.lock().unwrap());
    let distinct_outcomes = hist.len();
    let nontrivial = {
        // enumerated sets are distinct by construction; explicit sets are de-duplicated by hash
        let mut enumerated = 0;
        for (i, s) in sets.iter().enumerate() {
            if matches!(s.set.kind, SetKind::AllBytes { .. } | SetKind::Alphabet { .. }) {
                enumerated += tot.cnt.get(&format!("set{i}_nontrivial"));
            }
        }
        enumerated + tot.hashes.lock().unwrap().len() as u64
    };
    if only.is_none() {
        if tot.cnt.get("evaluations") == 0 || nontrivial < 2 || tot.cnt.get("must_err") == 0 {
            ctx.machinery("C38: vacuous run (no input reached the oracle)");
        }
        let ok_seen = hist.iter().any(|(k, v)| k.starts_with("parse_buf: Ok") && *v > 0);
        let err_seen = hist.iter().any(|(k, v)| k.starts_with("parse_buf: ") && !k.ends_with(": Ok") && *v > 0);
        if !ok_seen || !err_seen {
            ctx.machinery("C38: parse_buf never returned both Ok and Err");
        }
    }
    if tot.cnt.get("unconfirmed_deaths") > 0 {
        ctx.machinery("C38: a process death did not reproduce when its case was re-run alone (nondeterminism)");
    }

    // report
    let samples = vp_core::Samples::new(8);
    for (si, idx) in [(0usize, 300u64), (1, 0x7a05ff), (2, 1234), (3, 10), (4, 3), (5, 100)] {
        if let Some(s) = sets.get(si) {
            if idx < s.set.len() {
                s.set.fill(idx, &mut buf);
                let w = pbref::walk(&buf, Mt::Model);
                samples.push(|| json!({"set": s.set.name, "index": idx, "what": s.set.describe(idx), "bytes_hex": vp_core::truncate(&hex(&buf), 160), "reference_walk": format!("{:?}", w.stop)}));
            }
        }
    }
    for (sig, e) in tot.book.drain() {
        let (set, idx) = e.key;
        sets[set].set.fill(idx, &mut buf);
        let case = json!({
            "bytes_hex": hex(&buf),
            "length": buf.len(),
            "from_set": sets[set].set.name,
            "index": idx,
            "what": sets[set].set.describe(idx),
        });
        ctx.violation(sig.clone(), case, e.detail.clone());
        for _ in 1..e.count {
            ctx.violation(sig.clone(), Json::Null, "");
        }
    }
    for (k, v) in std::mem::take(&mut *tot.obs.lock().unwrap()) {
        ctx.observe_n(&k, v);
    }
    let axes: Vec<Json> = sets
        .iter()
        .enumerate()
        .map(|(i, s)| {
            json!({
                "set": s.set.name,
                "inputs": s.set.len(),
                "evaluated": tot.cnt.get(&format!("set{i}_evaluations")),
                "entry_points": (0..7).filter(|b| s.mask >> b & 1 == 1).map(|b| target_name(1 << b)).collect::<Vec<_>>(),
            })
        })
        .collect();
    let total: u64 = sets.iter().map(|s| s.set.len()).sum();
    println!(
        "C38 summary: {} inputs in {} sets, {} evaluated, {} non-trivial, {} must-be-error inputs, {} distinct (entry point, outcome) pairs, {} process deaths/hangs isolated ({} forks)",
        total,
        sets.len(),
        tot.cnt.get("evaluations"),
        nontrivial,
        tot.cnt.get("must_err"),
        distinct_outcomes,
        n_faults,
        tot.cnt.get("forks"),
    );
    let exhaustive = only.is_none();
    let coverage = json!({
        "evaluations": tot.cnt.get("evaluations"),
        "distinct_nontrivial": nontrivial,
        "rule": "every input of every listed set is decoded by the real rten-onnx decoder through each listed entry point in an isolated process (RLIMIT_AS 8 GiB, per-case watchdog). An input counts as non-trivial when the independent reference walker (public ONNX schema) decodes at least one complete well-formed field of it before stopping; inputs of the explicit sets are de-duplicated by hash, the exhaustive byte-string sets are distinct by construction.",
        "samples": samples.take(),
        "exhaustive": exhaustive,
        "axes": axes,
        "inputs_total": total,
        "must_be_error_inputs": tot.cnt.get("must_err"),
        "distinct_outcomes": distinct_outcomes,
        "outcome_histogram": hist,
        "linear_budget": "instrumented reader: bytes handed out <= 2*len+64, reader operations <= 8*len+64",
        "max_bytes_handed_out_per_input_byte_x1000_within_budget": tot.maxs.lock().unwrap().get("ratio_milli").copied().unwrap_or(0),
        "inputs_over_linear_budget": tr.len(),
        "hang_confirmations": confirm_notes,
        "process_deaths_and_hangs_isolated": n_faults,
        "isolation": {
            "forked_children": tot.cnt.get("forks"),
            "timeouts_not_reproduced_alone": tot.cnt.get("unconfirmed_timeouts"),
            "outer": drv::stats_json(&stats),
        },
    });
    ctx.finish(
        "fault_enumeration",
        coverage,
        vec![
            "a memfd-backed std::fs::File stands for 'a file' in parse_file".into(),
            "linear time is measured as reader operations / bytes handed out by an instrumented BufRead+Seek that mirrors std::io::Cursor; wall-clock is only used as a per-case watchdog".into(),
            "allocation failure is observed under RLIMIT_AS = 8 GiB; a process death or hang is attributed to the case recorded in the shared progress cell and re-run alone before it is reported".into(),
            "the reference walker demands an error only for a LEN field longer than the rest of the whole input that is reached through well-formed fields; everything else is left to the decoder".into(),
        ],
    )
}

fn replay(ctx: Ctx, path: &std::path::Path) -> ! {
    let case = vp_core::read_replay_case(path);
    let bytes = unhex(case["bytes_hex"].as_str().unwrap_or(""));
    let mut w = vp_core::isolate::Worker::new("c38", Duration::from_secs(600), MEM_LIMIT);
    let case_json = json!({"bytes_hex": hex(&bytes), "length": bytes.len(), "what": case["what"]});
    let mut run_one = |mask: u64, force: bool| -> Json {
        match w.run(&json!({"explicit": hex(&bytes), "mask": mask, "force_real": force, "case_timeout_ms": 5000})) {
            vp_core::isolate::Outcome::Answer(a) => a,
            other => vp_core::machinery_error(&format!("replay: supervisor failure {other:?}")),
        }
    };
    let report = |a: &Json| {
        if let Some(vs) = a["vio"].as_array() {
            for v in vs {
                ctx.violation(v["sig"].as_str().unwrap_or("?"), case_json.clone(), v["detail"].as_str().unwrap_or(""));
            }
        }
        if let Some(fs) = a["faults"].as_array() {
            for f in fs {
                let f = drv::fault_from_json(f);
                let (sig, detail) = fault_signature(&f, &bytes);
                ctx.violation(sig, case_json.clone(), detail);
            }
        }
        println!("replay outcomes: {} faults: {}", a["hist"], a["faults"]);
    };
    let a = run_one(ALL_TARGETS, false);
    report(&a);
    let tripped: Vec<String> = a["notes"].as_array().map(|t| t.iter().map(|x| x[1].as_str().unwrap_or("").to_string()).collect()).unwrap_or_default();
    for which in tripped {
        let mask = if which == "full" { T_BUF | T_FILE } else { T_SNIFF | T_LOAD };
        for t in [T_BUF, T_FILE, T_SNIFF, T_LOAD] {
            if mask & t != 0 {
                let a = run_one(t, true);
                report(&a);
            }
        }
    }
    drop(w);
    ctx.finish(
        "fault_enumeration",
        json!({"evaluations": 1, "distinct_nontrivial": 2, "rule": "replay of one recorded case", "samples": [case_json]}),
        vec![],
    )
}
