//! Batch driver on top of `vp_core::isolate`.
//!
//! A *batch* is a contiguous index range of one input set. The parent sends a
//! range descriptor; the worker enumerates the range and answers with one
//! summary line. Before every case (and every stage of a case) the worker
//! stores `(index + 1, stage)` in a small shared memory-mapped progress file,
//! so that when the worker dies (abort, signal) or stops answering (hang) the
//! parent knows exactly which case and which entry point was running, reports
//! it, and continues with the rest of the range.
//!
//! Every fault is re-run as a single-case batch before it is believed.

use std::cell::RefCell;
use std::fs::OpenOptions;
use std::os::unix::fs::FileExt;
use std::sync::Mutex;
use std::sync::atomic::{AtomicU64, AtomicUsize, Ordering};
use std::time::Duration;

use vp_core::isolate::{Outcome, Worker};
use vp_core::{Json, json};

#[derive(Clone, Debug)]
pub struct Batch {
    pub set: usize,
    pub start: u64,
    pub end: u64,
}

#[derive(Clone, Debug)]
pub enum FaultKind {
    Died(String),
    Timeout,
}

impl FaultKind {
    pub fn describe(&self) -> String {
        match self {
            FaultKind::Died(s) => format!("process died ({s})"),
            FaultKind::Timeout => "no answer within the watchdog (hang)".to_string(),
        }
    }
    /// "SIGABRT", "SIGSEGV", "timeout", ...
    pub fn short(&self) -> String {
        match self {
            FaultKind::Timeout => "timeout".into(),
            FaultKind::Died(s) => {
                if s.contains("signal: 6") {
                    "SIGABRT".into()
                } else if s.contains("signal: 11") {
                    "SIGSEGV".into()
                } else if s.contains("signal: 7") {
                    "SIGBUS".into()
                } else if s.contains("signal: 4") {
                    "SIGILL".into()
                } else if s.contains("signal: 9") {
                    "SIGKILL".into()
                } else {
                    s.clone()
                }
            }
        }
    }
}

#[derive(Clone, Debug)]
pub struct Fault {
    pub set: usize,
    pub idx: u64,
    pub stage: u64,
    pub kind: FaultKind,
    /// what the dying worker wrote to stderr (allocation failure / stack overflow messages)
    pub stderr: String,
}

pub fn err_path(ppath: &str) -> String {
    format!("{ppath}.err")
}

/// Read and clear the stderr capture file of a worker.
pub fn take_stderr(ppath: &str) -> String {
    let p = err_path(ppath);
    let s = std::fs::read(&p).unwrap_or_default();
    let _ = std::fs::write(&p, b"");
    let s = String::from_utf8_lossy(&s).to_string();
    let s = s.trim().to_string();
    if s.len() > 500 {
        let mut a = 300;
        while !s.is_char_boundary(a) {
            a -= 1;
        }
        let mut b = s.len() - 150;
        while !s.is_char_boundary(b) {
            b += 1;
        }
        format!("{} ... {}", &s[..a], &s[b..])
    } else {
        s
    }
}

#[derive(Default, Debug)]
pub struct DrvStats {
    pub batches: u64,
    pub faults_confirmed: u64,
    pub faults_unconfirmed: u64,
    pub spurious_timeouts: u64,
    pub worker_restarts: u64,
}

pub struct DrvConfig<'a> {
    pub worker: &'a str,
    pub nworkers: usize,
    pub watchdog: Duration,
    pub confirm_watchdog: Duration,
    pub mem_limit: u64,
}

fn progress_path(tid: usize) -> String {
    format!("/tmp/mc-bytes-{}-{}.prog", std::process::id(), tid)
}

fn reset_progress(f: &std::fs::File) {
    let _ = f.write_all_at(&[0u8; 16], 0);
}

fn read_progress(f: &std::fs::File) -> (u64, u64) {
    let mut b = [0u8; 16];
    let _ = f.read_exact_at(&mut b, 0);
    (
        u64::from_le_bytes(b[..8].try_into().unwrap()),
        u64::from_le_bytes(b[8..].try_into().unwrap()),
    )
}

/// Run all batches. `make_req(batch, progress_path, single)` builds the request;
/// `single` is true for single-case confirmation runs. `on_answer` receives
/// each worker answer; `on_fault` each confirmed fault.
pub fn run_batches(
    cfg: &DrvConfig,
    batches: &[Batch],
    make_req: &(dyn Fn(&Batch, &str, bool) -> Json + Sync),
    on_answer: &(dyn Fn(&Batch, &Json) + Sync),
    on_fault: &(dyn Fn(&Fault) + Sync),
) -> DrvStats {
    let next = AtomicUsize::new(0);
    let verbose = std::env::var("VERIF_PROGRESS").is_ok();
    let stats = Mutex::new(DrvStats::default());
    let restarts = AtomicU64::new(0);
    std::thread::scope(|s| {
        for tid in 0..cfg.nworkers.max(1) {
            let next = &next;
            let stats = &stats;
            let restarts = &restarts;
            s.spawn(move || {
                let ppath = progress_path(tid);
                let pfile = OpenOptions::new()
                    .create(true)
                    .read(true)
                    .write(true)
                    .truncate(true)
                    .open(&ppath)
                    .unwrap_or_else(|e| vp_core::machinery_error(&format!("progress file: {e}")));
                reset_progress(&pfile);
                let mut w = Worker::new(cfg.worker, cfg.watchdog, cfg.mem_limit);
                let mut wc = Worker::new(cfg.worker, cfg.confirm_watchdog, cfg.mem_limit);
                let mut local = DrvStats::default();
                loop {
                    let bi = next.fetch_add(1, Ordering::Relaxed);
                    if bi >= batches.len() {
                        break;
                    }
                    let mut stack = vec![batches[bi].clone()];
                    let mut startup_failures = 0;
                    while let Some(b) = stack.pop() {
                        if b.start >= b.end {
                            continue;
                        }
                        reset_progress(&pfile);
                        local.batches += 1;
                        if verbose {
                            eprintln!("[drv] t{tid} batch set={} {}..{}", b.set, b.start, b.end);
                        }
                        let out = w.run(&make_req(&b, &ppath, false));
                        let kind = match out {
                            Outcome::Answer(a) => {
                                if a.get("machinery").is_some() {
                                    vp_core::machinery_error(&format!("worker: {a}"));
                                }
                                on_answer(&b, &a);
                                continue;
                            }
                            Outcome::Died(s) => FaultKind::Died(s),
                            Outcome::Timeout => FaultKind::Timeout,
                        };
                        let (idx1, stage) = read_progress(&pfile);
                        let stderr1 = take_stderr(&ppath);
                        if verbose {
                            eprintln!("[drv] t{tid} fault {} at idx1={idx1} stage={stage} stderr={stderr1:?}", kind.describe());
                        }
                        if idx1 == 0 {
                            startup_failures += 1;
                            if startup_failures > 3 {
                                vp_core::machinery_error(&format!(
                                    "worker {} fails before starting any case: {}",
                                    cfg.worker,
                                    kind.describe()
                                ));
                            }
                            stack.push(b);
                            continue;
                        }
                        let idx = idx1 - 1;
                        if idx < b.start || idx >= b.end {
                            vp_core::machinery_error(&format!(
                                "progress index {idx} outside batch {}..{}",
                                b.start, b.end
                            ));
                        }
                        // confirmation run: that one case alone
                        let single = Batch { set: b.set, start: idx, end: idx + 1 };
                        reset_progress(&pfile);
                        let conf = wc.run(&make_req(&single, &ppath, true));
                        match conf {
                            Outcome::Answer(a) => {
                                // did not reproduce in isolation
                                match kind {
                                    FaultKind::Timeout => local.spurious_timeouts += 1,
                                    FaultKind::Died(_) => local.faults_unconfirmed += 1,
                                }
                                on_answer(&single, &a);
                            }
                            Outcome::Died(s) => {
                                let (_, st2) = read_progress(&pfile);
                                let mut stderr = take_stderr(&ppath);
                                if stderr.is_empty() {
                                    stderr = stderr1.clone();
                                }
                                local.faults_confirmed += 1;
                                on_fault(&Fault {
                                    set: b.set,
                                    idx,
                                    stage: if st2 != 0 { st2 } else { stage },
                                    kind: FaultKind::Died(s),
                                    stderr,
                                });
                            }
                            Outcome::Timeout => {
                                let (_, st2) = read_progress(&pfile);
                                local.faults_confirmed += 1;
                                on_fault(&Fault {
                                    set: b.set,
                                    idx,
                                    stage: if st2 != 0 { st2 } else { stage },
                                    kind: FaultKind::Timeout,
                                    stderr: take_stderr(&ppath),
                                });
                            }
                        }
                        // the cases before idx were lost with the worker: redo them; then the rest
                        stack.push(Batch { set: b.set, start: idx + 1, end: b.end });
                        stack.push(Batch { set: b.set, start: b.start, end: idx });
                    }
                }
                restarts.fetch_add(w.restarts + wc.restarts, Ordering::Relaxed);
                drop(w);
                drop(wc);
                let _ = std::fs::remove_file(&ppath);
                let _ = std::fs::remove_file(err_path(&ppath));
                let mut g = stats.lock().unwrap();
                g.batches += local.batches;
                g.faults_confirmed += local.faults_confirmed;
                g.faults_unconfirmed += local.faults_unconfirmed;
                g.spurious_timeouts += local.spurious_timeouts;
            });
        }
    });
    let mut st = stats.into_inner().unwrap();
    st.worker_restarts = restarts.load(Ordering::Relaxed);
    st
}

/// Split `0..n` of set `set` into batches of at most `size`.
pub fn split(set: usize, n: u64, size: u64, out: &mut Vec<Batch>) {
    let mut s = 0;
    while s < n {
        let e = (s + size).min(n);
        out.push(Batch { set, start: s, end: e });
        s = e;
    }
}

pub fn stats_json(s: &DrvStats) -> Json {
    json!({
        "batches": s.batches,
        "faults_confirmed_by_rerun": s.faults_confirmed,
        "faults_not_reproduced": s.faults_unconfirmed,
        "spurious_batch_timeouts": s.spurious_timeouts,
        "worker_restarts": s.worker_restarts,
    })
}

// ---------------------------------------------------------------- worker side

/// Make sure a worker does not outlive its parent (e.g. a worker stuck in a
/// non-terminating decode when the engine is interrupted).
pub fn die_with_parent() {
    unsafe {
        libc::prctl(libc::PR_SET_PDEATHSIG, libc::SIGKILL);
        // an aborting worker must die quickly: no core dump
        let rl = libc::rlimit { rlim_cur: 0, rlim_max: 0 };
        libc::setrlimit(libc::RLIMIT_CORE, &rl);
    }
}

/// Shared progress cell of a worker (memory-mapped file).
pub struct Progress {
    ptr: *mut u64,
}

impl Progress {
    fn open(path: &str) -> Progress {
        let f = OpenOptions::new().read(true).write(true).open(path);
        let Ok(f) = f else {
            return Progress { ptr: std::ptr::null_mut() };
        };
        use std::os::fd::AsRawFd;
        let p = unsafe {
            libc::mmap(
                std::ptr::null_mut(),
                16,
                libc::PROT_READ | libc::PROT_WRITE,
                libc::MAP_SHARED,
                f.as_raw_fd(),
                0,
            )
        };
        if p == libc::MAP_FAILED {
            return Progress { ptr: std::ptr::null_mut() };
        }
        Progress { ptr: p as *mut u64 }
    }

    #[inline]
    pub fn set(&self, idx: u64, stage: u64) {
        if !self.ptr.is_null() {
            unsafe {
                std::ptr::write_volatile(self.ptr, idx + 1);
                std::ptr::write_volatile(self.ptr.add(1), stage);
            }
        }
    }

    #[inline]
    pub fn stage(&self, stage: u64) {
        if !self.ptr.is_null() {
            unsafe { std::ptr::write_volatile(self.ptr.add(1), stage) };
        }
    }
}

thread_local! {
    static PROGRESS: RefCell<Option<(String, &'static Progress)>> = const { RefCell::new(None) };
}

/// Get (and cache) the progress cell named in a request.
pub fn progress_for(req: &Json) -> &'static Progress {
    let path = req["prog"].as_str().unwrap_or("").to_string();
    PROGRESS.with(|p| {
        let mut g = p.borrow_mut();
        if let Some((pp, pr)) = g.as_ref() {
            if *pp == path {
                return *pr;
            }
        }
        let pr: &'static Progress = Box::leak(Box::new(Progress::open(&path)));
        if !path.is_empty() {
            // capture what the runtime prints when it aborts (allocation failure, stack overflow)
            if let Ok(f) = OpenOptions::new().create(true).append(true).open(err_path(&path)) {
                use std::os::fd::AsRawFd;
                unsafe { libc::dup2(f.as_raw_fd(), 2) };
            }
        }
        *g = Some((path, pr));
        pr
    })
}

// ------------------------------------------------------------ panic capture

#[derive(Clone, Debug)]
pub struct PanicInfo {
    pub msg: String,
    pub file: String,
    pub line: u32,
}

impl PanicInfo {
    /// message with digit runs collapsed (stable across instances)
    pub fn norm_msg(&self) -> String {
        let mut out = String::new();
        let mut in_digits = false;
        for c in self.msg.chars() {
            if c.is_ascii_digit() {
                if !in_digits {
                    out.push('N');
                    in_digits = true;
                }
            } else {
                in_digits = false;
                out.push(c);
            }
        }
        // collapse bracketed number lists ("[N, N, N]" and "[]" alike) so that the rank does not matter
        let mut out2 = String::new();
        let mut chars = out.chars().peekable();
        while let Some(c) = chars.next() {
            if c == '[' {
                let mut inner = String::new();
                let mut closed = false;
                for d in chars.by_ref() {
                    if d == ']' {
                        closed = true;
                        break;
                    }
                    inner.push(d);
                }
                if closed && inner.chars().all(|x| x == 'N' || x == ',' || x == ' ') {
                    out2.push_str("[..]");
                } else {
                    out2.push('[');
                    out2.push_str(&inner);
                    if closed {
                        out2.push(']');
                    }
                }
            } else {
                out2.push(c);
            }
        }
        vp_core::truncate(&out2, 100)
    }
    /// source file of the panic, shortened to a stable suffix
    pub fn short_file(&self) -> String {
        let f = &self.file;
        if let Some(p) = f.find("/repo/") {
            return f[p + 6..].to_string();
        }
        if let Some(p) = f.find("/library/") {
            return format!("std:{}", &f[p + 9..]);
        }
        if let Some(p) = f.find("/registry/src/") {
            let rest = &f[p + 14..];
            if let Some(q) = rest.find('/') {
                return format!("dep:{}", &rest[q + 1..]);
            }
        }
        f.clone()
    }
}

thread_local! {
    static LAST_PANIC: RefCell<Option<PanicInfo>> = const { RefCell::new(None) };
}

pub fn install_panic_hook() {
    static ONCE: std::sync::Once = std::sync::Once::new();
    ONCE.call_once(|| {
        std::panic::set_hook(Box::new(|info| {
            let msg = if let Some(s) = info.payload().downcast_ref::<&str>() {
                (*s).to_string()
            } else if let Some(s) = info.payload().downcast_ref::<String>() {
                s.clone()
            } else {
                "<non-string panic>".to_string()
            };
            let (file, line) = info
                .location()
                .map(|l| (l.file().to_string(), l.line()))
                .unwrap_or_default();
            LAST_PANIC.with(|p| *p.borrow_mut() = Some(PanicInfo { msg, file, line }));
        }));
    });
}

/// Run `f`, turning a panic into `Err(PanicInfo)` (with source location).
pub fn catch<R>(f: impl FnOnce() -> R) -> Result<R, PanicInfo> {
    LAST_PANIC.with(|p| *p.borrow_mut() = None);
    match std::panic::catch_unwind(std::panic::AssertUnwindSafe(f)) {
        Ok(r) => Ok(r),
        Err(e) => {
            let info = LAST_PANIC.with(|p| p.borrow_mut().take());
            Err(info.unwrap_or_else(|| {
                let msg = if let Some(s) = e.downcast_ref::<&str>() {
                    (*s).to_string()
                } else if let Some(s) = e.downcast_ref::<String>() {
                    s.clone()
                } else {
                    "<non-string panic>".to_string()
                };
                PanicInfo { msg, file: String::new(), line: 0 }
            }))
        }
    }
}

pub fn hex(b: &[u8]) -> String {
    let mut s = String::with_capacity(b.len() * 2);
    for x in b {
        s.push_str(&format!("{x:02x}"));
    }
    s
}

pub fn unhex(s: &str) -> Vec<u8> {
    let s = s.as_bytes();
    let mut out = Vec::with_capacity(s.len() / 2);
    let v = |c: u8| -> u8 {
        match c {
            b'0'..=b'9' => c - b'0',
            b'a'..=b'f' => c - b'a' + 10,
            b'A'..=b'F' => c - b'A' + 10,
            _ => 0,
        }
    };
    let mut i = 0;
    while i + 1 < s.len() {
        out.push(v(s[i]) << 4 | v(s[i + 1]));
        i += 2;
    }
    out
}

/// Violation collector of the parent: per signature keeps the count and the
/// *simplest* case (smallest (set, index)), independent of batch completion order.
#[derive(Default)]
pub struct VioBook {
    map: Mutex<std::collections::BTreeMap<String, VioEntry>>,
}

pub struct VioEntry {
    pub count: u64,
    pub key: (usize, u64),
    pub detail: String,
}

impl VioBook {
    pub fn new() -> Self {
        Self::default()
    }
    pub fn add(&self, sig: &str, count: u64, set: usize, idx: u64, detail: &str) {
        let mut g = self.map.lock().unwrap();
        match g.get_mut(sig) {
            Some(e) => {
                e.count += count;
                if (set, idx) < e.key {
                    e.key = (set, idx);
                    e.detail = detail.to_string();
                }
            }
            None => {
                g.insert(sig.to_string(), VioEntry { count, key: (set, idx), detail: detail.to_string() });
            }
        }
    }
    pub fn drain(&self) -> Vec<(String, VioEntry)> {
        std::mem::take(&mut *self.map.lock().unwrap()).into_iter().collect()
    }
    pub fn signatures(&self) -> Vec<String> {
        self.map.lock().unwrap().keys().cloned().collect()
    }
}

// ------------------------------------------------- fork supervisor (worker)
//
// Inside a worker process the cases of a batch are evaluated by a *forked
// child*; the worker itself only supervises. A case that aborts, overflows the
// stack or hangs therefore costs one `fork` instead of a process restart, the
// supervisor records it (signal, stderr text, stage from the shared progress
// cell), re-runs it alone to confirm, and forks a new child for the rest.

pub struct Supervisor {
    cell: *mut u64,
    pub progress: Progress,
    /// the parent's heap has been consolidated (see `fork_run_once`)
    trimmed: std::cell::Cell<bool>,
}

pub enum ForkOutcome {
    Answer(Json),
    Fault(Fault),
    /// the child made no progress for the wall-clock cap WITHOUT using CPU time: the machine
    /// is starved or the child is blocked outside the subject - never a verdict
    Stalled,
}

#[derive(Default)]
pub struct SupStats {
    pub forks: u64,
    pub unconfirmed_deaths: u64,
    pub unconfirmed_timeouts: u64,
}

impl Supervisor {
    pub fn new() -> Supervisor {
        let p = unsafe {
            libc::mmap(
                std::ptr::null_mut(),
                4096,
                libc::PROT_READ | libc::PROT_WRITE,
                libc::MAP_SHARED | libc::MAP_ANONYMOUS,
                -1,
                0,
            )
        };
        if p == libc::MAP_FAILED {
            vp_core::machinery_error("mmap of progress cell failed");
        }
        Supervisor { cell: p as *mut u64, progress: Progress { ptr: p as *mut u64 }, trimmed: std::cell::Cell::new(false) }
    }

    fn read_cell(&self) -> (u64, u64) {
        unsafe { (std::ptr::read_volatile(self.cell), std::ptr::read_volatile(self.cell.add(1))) }
    }

    fn reset_cell(&self) {
        unsafe {
            std::ptr::write_volatile(self.cell, 0);
            std::ptr::write_volatile(self.cell.add(1), 0);
        }
    }

    /// Evaluate `[from, to)` in a forked child. `body` runs in the child only.
    fn fork_run_once(
        &self,
        set: usize,
        from: u64,
        to: u64,
        case_timeout: Duration,
        body: &mut dyn FnMut(u64, u64, &Progress) -> Json,
    ) -> ForkOutcome {
        use std::os::fd::{FromRawFd, RawFd};
        // Building the case sets leaves millions of freed small chunks in the parent's heap.
        // A forked child would consolidate them on its first large allocation, touching
        // (copy-on-write) the whole heap: 10+ CPU seconds that the watchdog would charge to
        // the child's first case. Consolidate once here instead.
        if !self.trimmed.replace(true) {
            unsafe { libc::malloc_trim(0) };
        }
        self.reset_cell();
        let mut fds: [RawFd; 2] = [0; 2];
        if unsafe { libc::pipe2(fds.as_mut_ptr(), libc::O_CLOEXEC) } != 0 {
            vp_core::machinery_error("pipe2 failed");
        }
        let errfd = unsafe { libc::memfd_create(c"mc-bytes-stderr".as_ptr(), libc::MFD_CLOEXEC) };
        let pid = unsafe { libc::fork() };
        if pid < 0 {
            vp_core::machinery_error("fork failed");
        }
        if pid == 0 {
            // ---- child
            unsafe {
                libc::prctl(libc::PR_SET_PDEATHSIG, libc::SIGKILL);
                if errfd >= 0 {
                    libc::dup2(errfd, 2);
                }
                libc::close(fds[0]);
            }
            // warm-up: a large allocation makes the allocator do its post-fork housekeeping
            // before the first case is announced in the progress cell
            {
                let v: Vec<u8> = vec![1u8; 1 << 20];
                std::hint::black_box(&v);
            }
            let res = std::panic::catch_unwind(std::panic::AssertUnwindSafe(|| body(from, to, &self.progress)));
            let j = match res {
                Ok(j) => j,
                Err(_) => json!({"machinery": "panic escaped the case evaluation in the forked child"}),
            };
            let s = vp_core::serde_json::to_string(&j).unwrap_or_else(|_| "{\"machinery\":\"unserialisable\"}".into());
            let b = s.as_bytes();
            let mut off = 0;
            while off < b.len() {
                let n = unsafe { libc::write(fds[1], b[off..].as_ptr() as *const libc::c_void, b.len() - off) };
                if n <= 0 {
                    break;
                }
                off += n as usize;
            }
            unsafe { libc::_exit(0) };
        }
        // ---- supervisor
        unsafe { libc::close(fds[1]) };
        let rfd = fds[0];
        unsafe {
            let fl = libc::fcntl(rfd, libc::F_GETFL);
            libc::fcntl(rfd, libc::F_SETFL, fl | libc::O_NONBLOCK);
        }
        let mut data: Vec<u8> = Vec::new();
        let mut last = self.read_cell();
        let mut last_change = std::time::Instant::now();
        let mut cpu_at_change = child_cpu_ticks(pid);
        let mut timed_out = false;
        let mut stalled = false;
        let mut buf = [0u8; 65536];
        // A case is a hang when the child burns `case_timeout` of *CPU time* on it
        // (robust against a starved machine), or shows no progress for 20x that
        // long in wall-clock time (blocked forever).
        let tick = unsafe { libc::sysconf(libc::_SC_CLK_TCK) }.max(1) as u64;
        let cpu_limit_ticks = (case_timeout.as_millis() as u64 * tick / 1000).max(1);
        let wall_cap = case_timeout * 20;
        'outer: loop {
            let mut pfd = libc::pollfd { fd: rfd, events: libc::POLLIN, revents: 0 };
            let pr = unsafe { libc::poll(&mut pfd, 1, 50) };
            if pr > 0 {
                loop {
                    let n = unsafe { libc::read(rfd, buf.as_mut_ptr() as *mut libc::c_void, buf.len()) };
                    if n > 0 {
                        data.extend_from_slice(&buf[..n as usize]);
                        last_change = std::time::Instant::now();
                    } else if n == 0 {
                        break 'outer; // EOF: child finished or died
                    } else {
                        break; // EAGAIN
                    }
                }
            }
            let cur = self.read_cell();
            if cur != last {
                last = cur;
                last_change = std::time::Instant::now();
                cpu_at_change = child_cpu_ticks(pid);
            } else if last_change.elapsed() > case_timeout {
                let cpu = child_cpu_ticks(pid);
                // before the first case is announced (cell index 0) the child is still starting
                // up: allow twelve case budgets of CPU for that
                let limit = if last.0 == 0 { cpu_limit_ticks * 12 } else { cpu_limit_ticks };
                if cpu.saturating_sub(cpu_at_change) >= limit {
                    timed_out = true;
                    if std::env::var("VERIF_PROGRESS").is_ok() {
                        let mut out = format!("[drv] TIMEOUT pid {pid} range {from}..{to} cell {:?} last {:?} cpu since change {} wall since change {:?}\n", self.read_cell(), last, cpu.saturating_sub(cpu_at_change), last_change.elapsed());
                        for k in 0..3 {
                            let bt = std::process::Command::new("gdb").args(["-p", &pid.to_string(), "-batch", "-ex", "bt 12"]).output();
                            if let Ok(o) = bt {
                                out.push_str(&format!("--- sample {k}: cell {:?} cpu {}\n{}\n", self.read_cell(), child_cpu_ticks(pid), String::from_utf8_lossy(&o.stdout)));
                            }
                            std::thread::sleep(Duration::from_millis(700));
                        }
                        let _ = std::fs::write(format!("/tmp/verif-timeout-{pid}.txt"), out);
                    }
                    unsafe { libc::kill(pid, libc::SIGKILL) };
                    break;
                }
                if last_change.elapsed() > wall_cap {
                    // no progress and (almost) no CPU used: not a spin inside the subject
                    stalled = true;
                    unsafe { libc::kill(pid, libc::SIGKILL) };
                    break;
                }
            }
        }
        unsafe { libc::close(rfd) };
        let mut status: libc::c_int = 0;
        unsafe { libc::waitpid(pid, &mut status, 0) };
        let stderr = if errfd >= 0 {
            let mut f = unsafe { std::fs::File::from_raw_fd(errfd) };
            use std::io::{Read, Seek, SeekFrom};
            let mut s = Vec::new();
            let _ = f.seek(SeekFrom::Start(0));
            let _ = f.read_to_end(&mut s);
            let s = String::from_utf8_lossy(&s).trim().to_string();
            vp_core::truncate(&s, 400)
        } else {
            String::new()
        };
        let (idx1, stage) = self.read_cell();
        let fault = |kind: FaultKind| -> ForkOutcome {
            if idx1 == 0 {
                vp_core::machinery_error(&format!("forked child failed before its first case: {}", kind.describe()));
            }
            ForkOutcome::Fault(Fault { set, idx: idx1 - 1, stage, kind, stderr: stderr.clone() })
        };
        if stalled {
            return ForkOutcome::Stalled;
        }
        if timed_out {
            return fault(FaultKind::Timeout);
        }
        if libc::WIFSIGNALED(status) {
            let sig = libc::WTERMSIG(status);
            return fault(FaultKind::Died(format!("signal: {sig}")));
        }
        let code = libc::WEXITSTATUS(status);
        if code != 0 {
            return fault(FaultKind::Died(format!("exit code {code}")));
        }
        match vp_core::serde_json::from_slice::<Json>(&data) {
            Ok(j) => {
                if j.get("machinery").is_some() {
                    vp_core::machinery_error(&format!("forked child: {j}"));
                }
                ForkOutcome::Answer(j)
            }
            Err(e) => vp_core::machinery_error(&format!("forked child wrote unparsable answer: {e}")),
        }
    }

    /// `fork_run_once`, retried when the child stalls without using CPU (an overloaded
    /// machine, a blocked fork). Three stalls in a row end the run as a machinery error:
    /// a hang verdict always requires that the child burned its CPU budget on one case.
    pub fn fork_run(
        &self,
        set: usize,
        start: u64,
        end: u64,
        case_timeout: Duration,
        body: &mut dyn FnMut(u64, u64, &Progress) -> Json,
    ) -> ForkOutcome {
        for attempt in 0..3 {
            match self.fork_run_once(set, start, end, case_timeout, body) {
                ForkOutcome::Stalled => {
                    eprintln!("[drv] child for set {set} cases {start}..{end} stalled without using CPU (attempt {}); retrying", attempt + 1);
                    std::thread::sleep(Duration::from_secs(2 + 5 * attempt as u64));
                }
                other => return other,
            }
        }
        vp_core::machinery_error(&format!(
            "forked child for set {set} cases {start}..{end} made no progress without using CPU in 3 attempts (machine overloaded or child blocked outside the subject); this is not a verdict"
        ))
    }

    /// Evaluate `[start, end)`, isolating, confirming and stepping over faults.
    ///
    /// `risky(idx)` is a *performance hint only*: a case for which it returns true
    /// is evaluated in a child of its own, so that its expected death does not
    /// take the results of its neighbours with it.
    pub fn supervise(
        &self,
        set: usize,
        start: u64,
        end: u64,
        case_timeout: Duration,
        risky: &dyn Fn(u64) -> bool,
        body: &mut dyn FnMut(u64, u64, &Progress) -> Json,
        merge: &mut dyn FnMut(Json),
        faults: &mut Vec<Fault>,
        stats: &mut SupStats,
    ) {
        // split into runs of ordinary cases and single risky cases
        let mut segs: Vec<(u64, u64, bool)> = Vec::new();
        let mut run_start = start;
        for i in start..end {
            if risky(i) {
                if run_start < i {
                    segs.push((run_start, i, false));
                }
                segs.push((i, i + 1, true));
                run_start = i + 1;
            }
        }
        if run_start < end {
            segs.push((run_start, end, false));
        }
        for (sa, sb, _single) in segs {
            let mut stack = vec![(sa, sb)];
            while let Some((a, b)) = stack.pop() {
                if a >= b {
                    continue;
                }
                stats.forks += 1;
                match self.fork_run(set, a, b, case_timeout, body) {
                    ForkOutcome::Stalled => unreachable!("fork_run retries or exits"),
                    ForkOutcome::Answer(j) => merge(j),
                    ForkOutcome::Fault(f) => {
                        if f.idx < a || f.idx >= b {
                            vp_core::machinery_error("fork supervisor: progress index outside range");
                        }
                        // The runtime's own abort messages name a deterministic cause;
                        // everything else is re-run alone before it is believed.
                        let self_explaining = matches!(f.kind, FaultKind::Died(_))
                            && (f.stderr.contains("memory allocation of") || f.stderr.contains("has overflowed its stack"));
                        let (idx, fa, fb) = (f.idx, a, b);
                        if self_explaining {
                            faults.push(f);
                        } else {
                            stats.forks += 1;
                            match self.fork_run(set, idx, idx + 1, case_timeout, body) {
                                ForkOutcome::Stalled => unreachable!("fork_run retries or exits"),
                                ForkOutcome::Answer(j) => {
                                    match f.kind {
                                        FaultKind::Timeout => stats.unconfirmed_timeouts += 1,
                                        FaultKind::Died(_) => stats.unconfirmed_deaths += 1,
                                    }
                                    merge(j);
                                }
                                ForkOutcome::Fault(f2) => faults.push(f2),
                            }
                        }
                        stack.push((idx + 1, fb));
                        stack.push((fa, idx));
                    }
                }
            }
        }
    }
}

/// utime + stime of a process in clock ticks (0 if unreadable).
fn child_cpu_ticks(pid: libc::pid_t) -> u64 {
    let Ok(s) = std::fs::read_to_string(format!("/proc/{pid}/stat")) else {
        return 0;
    };
    // fields after the parenthesised command name
    let Some(p) = s.rfind(')') else {
        return 0;
    };
    let f: Vec<&str> = s[p + 1..].split_whitespace().collect();
    // f[0] is state (field 3); utime is field 14, stime field 15
    let get = |i: usize| f.get(i).and_then(|x| x.parse::<u64>().ok()).unwrap_or(0);
    get(11) + get(12)
}

pub fn fault_to_json(f: &Fault) -> Json {
    let (k, s) = match &f.kind {
        FaultKind::Timeout => ("timeout", String::new()),
        FaultKind::Died(s) => ("died", s.clone()),
    };
    json!({"set": f.set, "idx": f.idx, "stage": f.stage, "kind": k, "status": s, "stderr": f.stderr})
}

pub fn fault_from_json(j: &Json) -> Fault {
    Fault {
        set: j["set"].as_u64().unwrap_or(0) as usize,
        idx: j["idx"].as_u64().unwrap_or(0),
        stage: j["stage"].as_u64().unwrap_or(0),
        kind: if j["kind"] == "timeout" { FaultKind::Timeout } else { FaultKind::Died(j["status"].as_str().unwrap_or("").to_string()) },
        stderr: j["stderr"].as_str().unwrap_or("").to_string(),
    }
}

// ----------------------------------------------------------- accumulators

/// What a child reports for a range of cases; mergeable.
#[derive(Default)]
pub struct Acc {
    pub n: u64,
    /// outcome histogram
    pub hist: std::collections::BTreeMap<String, u64>,
    /// signature -> (count, first index, detail of the first)
    pub vio: std::collections::BTreeMap<String, (u64, u64, String)>,
    pub obs: std::collections::BTreeMap<String, u64>,
    /// named counters (summed on merge)
    pub cnt: std::collections::BTreeMap<String, u64>,
    /// named maxima
    pub maxs: std::collections::BTreeMap<String, u64>,
    /// hashes of the non-trivial inputs (for de-duplication in the parent)
    pub hashes: Vec<u64>,
    /// free-form per-case notes (concatenated on merge)
    pub notes: Vec<Json>,
}

impl Acc {
    pub fn vio(&mut self, sig: String, idx: u64, detail: String) {
        let e = self.vio.entry(sig).or_insert((0, idx, detail));
        e.0 += 1;
    }
    pub fn hist(&mut self, key: String) {
        *self.hist.entry(key).or_insert(0) += 1;
    }
    pub fn obs(&mut self, key: &str) {
        *self.obs.entry(key.to_string()).or_insert(0) += 1;
    }
    pub fn count(&mut self, key: &str, n: u64) {
        *self.cnt.entry(key.to_string()).or_insert(0) += n;
    }
    pub fn max(&mut self, key: &str, v: u64) {
        let e = self.maxs.entry(key.to_string()).or_insert(0);
        *e = (*e).max(v);
    }
    pub fn to_json(&self) -> Json {
        json!({
            "n": self.n,
            "hist": self.hist,
            "vio": self.vio.iter().map(|(k, v)| json!({"sig": k, "count": v.0, "idx": v.1, "detail": v.2})).collect::<Vec<_>>(),
            "obs": self.obs,
            "cnt": self.cnt,
            "maxs": self.maxs,
            "hashes": self.hashes,
            "notes": self.notes,
        })
    }
    pub fn merge_json(&mut self, j: &Json) {
        self.n += j["n"].as_u64().unwrap_or(0);
        let add = |dst: &mut std::collections::BTreeMap<String, u64>, src: &Json| {
            if let Some(m) = src.as_object() {
                for (k, v) in m {
                    *dst.entry(k.clone()).or_insert(0) += v.as_u64().unwrap_or(0);
                }
            }
        };
        add(&mut self.hist, &j["hist"]);
        add(&mut self.obs, &j["obs"]);
        add(&mut self.cnt, &j["cnt"]);
        if let Some(m) = j["maxs"].as_object() {
            for (k, v) in m {
                let e = self.maxs.entry(k.clone()).or_insert(0);
                *e = (*e).max(v.as_u64().unwrap_or(0));
            }
        }
        if let Some(vs) = j["vio"].as_array() {
            for v in vs {
                let sig = v["sig"].as_str().unwrap_or("?").to_string();
                let (c, i, d) = (v["count"].as_u64().unwrap_or(1), v["idx"].as_u64().unwrap_or(0), v["detail"].as_str().unwrap_or(""));
                match self.vio.get_mut(&sig) {
                    Some(e) => {
                        e.0 += c;
                        if i < e.1 {
                            e.1 = i;
                            e.2 = d.to_string();
                        }
                    }
                    None => {
                        self.vio.insert(sig, (c, i, d.to_string()));
                    }
                }
            }
        }
        if let Some(hs) = j["hashes"].as_array() {
            self.hashes.extend(hs.iter().filter_map(|h| h.as_u64()));
        }
        if let Some(ns) = j["notes"].as_array() {
            self.notes.extend(ns.iter().cloned());
        }
    }
}

/// Parent-side totals over all batches of all sets.
pub struct Totals {
    pub book: VioBook,
    pub hist: Mutex<std::collections::BTreeMap<String, u64>>,
    pub obs: Mutex<std::collections::BTreeMap<String, u64>>,
    pub cnt: vp_core::Counters,
    pub maxs: Mutex<std::collections::BTreeMap<String, u64>>,
    pub hashes: Mutex<std::collections::HashSet<u64>>,
    pub notes: Mutex<Vec<(usize, Json)>>,
    pub faults: Mutex<Vec<Fault>>,
}

impl Totals {
    pub fn new() -> Totals {
        Totals {
            book: VioBook::new(),
            hist: Mutex::new(Default::default()),
            obs: Mutex::new(Default::default()),
            cnt: vp_core::Counters::new(),
            maxs: Mutex::new(Default::default()),
            hashes: Mutex::new(Default::default()),
            notes: Mutex::new(Vec::new()),
            faults: Mutex::new(Vec::new()),
        }
    }

    /// Fold one worker answer (an `Acc` plus the supervisor's fault list).
    pub fn absorb(&self, set: usize, a: &Json) {
        let n = a["n"].as_u64().unwrap_or(0);
        self.cnt.add("evaluations", n);
        self.cnt.add(&format!("set{set}_evaluations"), n);
        let add = |dst: &Mutex<std::collections::BTreeMap<String, u64>>, src: &Json| {
            if let Some(m) = src.as_object() {
                let mut g = dst.lock().unwrap();
                for (k, v) in m {
                    *g.entry(k.clone()).or_insert(0) += v.as_u64().unwrap_or(0);
                }
            }
        };
        add(&self.hist, &a["hist"]);
        add(&self.obs, &a["obs"]);
        if let Some(m) = a["cnt"].as_object() {
            for (k, v) in m {
                self.cnt.add(k, v.as_u64().unwrap_or(0));
                self.cnt.add(&format!("set{set}_{k}"), v.as_u64().unwrap_or(0));
            }
        }
        if let Some(m) = a["maxs"].as_object() {
            let mut g = self.maxs.lock().unwrap();
            for (k, v) in m {
                let e = g.entry(k.clone()).or_insert(0);
                *e = (*e).max(v.as_u64().unwrap_or(0));
            }
        }
        if let Some(hs) = a["hashes"].as_array() {
            let mut g = self.hashes.lock().unwrap();
            for h in hs {
                if let Some(h) = h.as_u64() {
                    g.insert(h);
                }
            }
        }
        if let Some(ns) = a["notes"].as_array() {
            let mut g = self.notes.lock().unwrap();
            for x in ns {
                g.push((set, x.clone()));
            }
        }
        if let Some(vs) = a["vio"].as_array() {
            for v in vs {
                self.book.add(
                    v["sig"].as_str().unwrap_or("?"),
                    v["count"].as_u64().unwrap_or(1),
                    set,
                    v["idx"].as_u64().unwrap_or(0),
                    v["detail"].as_str().unwrap_or(""),
                );
            }
        }
        if let Some(fs) = a["faults"].as_array() {
            let mut g = self.faults.lock().unwrap();
            for f in fs {
                let mut f = fault_from_json(f);
                f.set = set;
                g.push(f);
            }
        }
        self.cnt.add("forks", a["forks"].as_u64().unwrap_or(0));
        self.cnt.add("unconfirmed_deaths", a["unconfirmed_deaths"].as_u64().unwrap_or(0));
        self.cnt.add("unconfirmed_timeouts", a["unconfirmed_timeouts"].as_u64().unwrap_or(0));
    }
}

/// Worker side: supervise a range and produce the answer for the parent.
pub fn supervised_answer(
    sup: &Supervisor,
    set: usize,
    start: u64,
    end: u64,
    case_timeout: Duration,
    risky: &dyn Fn(u64) -> bool,
    body: &mut dyn FnMut(u64, u64, &Progress) -> Json,
) -> Json {
    let mut total = Acc::default();
    let mut faults = Vec::new();
    let mut st = SupStats::default();
    sup.supervise(set, start, end, case_timeout, risky, body, &mut |j| total.merge_json(&j), &mut faults, &mut st);
    let mut j = total.to_json();
    let o = j.as_object_mut().unwrap();
    o.insert("faults".into(), Json::Array(faults.iter().map(fault_to_json).collect()));
    o.insert("forks".into(), json!(st.forks));
    o.insert("unconfirmed_deaths".into(), json!(st.unconfirmed_deaths));
    o.insert("unconfirmed_timeouts".into(), json!(st.unconfirmed_timeouts));
    j
}
