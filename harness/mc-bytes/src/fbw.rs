//! A tiny front-to-back FlatBuffers writer (tables, strings, scalar vectors,
//! vectors of tables, unions) — just enough to build small `.rten` model
//! files by hand, and to remember where the interesting fields ended up.

#[derive(Clone, Debug)]
pub enum Fld {
    Absent,
    U8(u8),
    U16(u16),
    I32(i32),
    U64(u64),
    Ref(Obj),
}

#[derive(Clone, Debug)]
pub enum Obj {
    Table(Vec<Fld>),
    Str(String),
    /// scalar vectors, with a label under which the position of the length
    /// word and of the elements is recorded
    U32s(Vec<u32>, &'static str),
    I32s(Vec<i32>, &'static str),
    F32s(Vec<f32>, &'static str),
    I8s(Vec<i8>, &'static str),
    U8s(Vec<u8>, &'static str),
    Tables(Vec<Vec<Fld>>),
}

#[derive(Clone, Debug)]
pub struct Mark {
    pub label: String,
    /// offset of the u32 length word
    pub len_off: usize,
    /// offset of the first element
    pub data_off: usize,
    pub elem_size: usize,
    pub count: usize,
}

#[derive(Default)]
pub struct Writer {
    pub buf: Vec<u8>,
    pub marks: Vec<Mark>,
    /// (label, offset, width) of scalar fields worth targeting
    pub scalars: Vec<(String, usize, usize)>,
}

impl Writer {
    fn align(&mut self, a: usize) {
        while self.buf.len() % a != 0 {
            self.buf.push(0);
        }
    }
    fn put_u32_at(&mut self, pos: usize, v: u32) {
        self.buf[pos..pos + 4].copy_from_slice(&v.to_le_bytes());
    }

    /// Write the buffer for `root` (a table); returns the finished bytes.
    pub fn finish(mut self, root: Vec<Fld>) -> Writer {
        self.buf.extend([0u8; 4]); // root uoffset
        self.align(8);
        let pos = self.table(&root, "root");
        self.put_u32_at(0, pos as u32);
        self
    }

    fn obj(&mut self, o: &Obj, ctx: &str) -> usize {
        match o {
            Obj::Table(f) => self.table(f, ctx),
            Obj::Str(s) => {
                self.align(4);
                let p = self.buf.len();
                self.buf.extend((s.len() as u32).to_le_bytes());
                self.buf.extend(s.as_bytes());
                self.buf.push(0);
                p
            }
            Obj::U32s(v, l) => self.scalars_vec(v.iter().flat_map(|x| x.to_le_bytes()).collect(), 4, v.len(), l),
            Obj::I32s(v, l) => self.scalars_vec(v.iter().flat_map(|x| x.to_le_bytes()).collect(), 4, v.len(), l),
            Obj::F32s(v, l) => self.scalars_vec(v.iter().flat_map(|x| x.to_le_bytes()).collect(), 4, v.len(), l),
            Obj::I8s(v, l) => self.scalars_vec(v.iter().map(|x| *x as u8).collect(), 1, v.len(), l),
            Obj::U8s(v, l) => self.scalars_vec(v.clone(), 1, v.len(), l),
            Obj::Tables(ts) => {
                self.align(4);
                let p = self.buf.len();
                self.buf.extend((ts.len() as u32).to_le_bytes());
                let slots = self.buf.len();
                self.buf.extend(vec![0u8; 4 * ts.len()]);
                for (i, t) in ts.iter().enumerate() {
                    let tp = self.table(t, &format!("{ctx}[{i}]"));
                    let slot = slots + 4 * i;
                    self.put_u32_at(slot, (tp - slot) as u32);
                }
                p
            }
        }
    }

    fn scalars_vec(&mut self, bytes: Vec<u8>, elem: usize, count: usize, label: &str) -> usize {
        // length word directly followed by 8-aligned data: pad *before* the length word
        while (self.buf.len() + 4) % 8 != 0 {
            self.buf.push(0);
        }
        let p = self.buf.len();
        self.buf.extend((count as u32).to_le_bytes());
        let d = self.buf.len();
        self.buf.extend(bytes);
        if !label.is_empty() {
            self.marks.push(Mark { label: label.to_string(), len_off: p, data_off: d, elem_size: elem, count });
        }
        p
    }

    fn table(&mut self, fields: &[Fld], ctx: &str) -> usize {
        // field layout relative to the table start (which is 8-aligned)
        let mut offs = vec![0usize; fields.len()];
        let mut size = 4usize; // soffset to vtable
        for (i, f) in fields.iter().enumerate() {
            let w = match f {
                Fld::Absent => 0,
                Fld::U8(_) => 1,
                Fld::U16(_) => 2,
                Fld::I32(_) | Fld::Ref(_) => 4,
                Fld::U64(_) => 8,
            };
            if w == 0 {
                continue;
            }
            while size % w != 0 {
                size += 1;
            }
            offs[i] = size;
            size += w;
        }
        let vt_size = 4 + 2 * fields.len();
        // place the vtable so that the table that follows it is 8-aligned
        while (self.buf.len() + vt_size) % 8 != 0 {
            self.buf.push(0);
        }
        let vt = self.buf.len();
        self.buf.extend((vt_size as u16).to_le_bytes());
        self.buf.extend((size as u16).to_le_bytes());
        for o in &offs {
            self.buf.extend((*o as u16).to_le_bytes());
        }
        let tp = self.buf.len();
        self.buf.extend(vec![0u8; size]);
        self.buf[tp..tp + 4].copy_from_slice(&((tp - vt) as i32).to_le_bytes());
        let mut refs: Vec<(usize, &Obj, usize)> = Vec::new();
        for (i, f) in fields.iter().enumerate() {
            let at = tp + offs[i];
            match f {
                Fld::Absent => {}
                Fld::U8(v) => self.buf[at] = *v,
                Fld::U16(v) => self.buf[at..at + 2].copy_from_slice(&v.to_le_bytes()),
                Fld::I32(v) => self.buf[at..at + 4].copy_from_slice(&v.to_le_bytes()),
                Fld::U64(v) => {
                    self.buf[at..at + 8].copy_from_slice(&v.to_le_bytes());
                    self.scalars.push((format!("{ctx}.field{i}:u64"), at, 8));
                }
                Fld::Ref(o) => refs.push((at, o, i)),
            }
        }
        for (at, o, i) in refs {
            let p = self.obj(o, &format!("{ctx}.{i}"));
            self.put_u32_at(at, (p - at) as u32);
        }
        tp
    }
}

// ------------------------------------------------------------- .rten seeds

pub struct RtenSeed {
    pub name: String,
    pub bytes: Vec<u8>,
    pub marks: Vec<Mark>,
    pub scalars: Vec<(String, usize, usize)>,
    /// offset of the FlatBuffers data within `bytes` (0 for the header-less V1 layout)
    pub fb_off: usize,
}

#[derive(Clone, Copy)]
pub enum Inline {
    F32,
    I32,
    I8,
    U8,
}

/// Model: constant "c" -> Identity -> value "o" (graph output).
/// `inline`: element type of inline data, or None for data in the tensor-data
/// section (`data_offset` = 0). `v2`: with the 32-byte RTEN header.
pub fn rten_seed(inline: Option<Inline>, v2: bool) -> RtenSeed {
    rten_model(inline, v2, &[2, 2], 4, 0, 16)
}

/// General form: `shape` of the constant, `n_data` inline elements (values
/// 1, 2, 3, ...), `data_offset` and length of the tensor-data section.
pub fn rten_model(inline: Option<Inline>, v2: bool, shape: &[u32], n_data: usize, data_offset: u64, tds_len: usize) -> RtenSeed {
    let shape = shape.to_vec();
    let (data_type, data, dtype, data_offset): (Fld, Fld, Fld, Fld) = match inline {
        Some(Inline::F32) => (Fld::U8(1), Fld::Ref(Obj::Table(vec![Fld::Ref(Obj::F32s((0..n_data).map(|i| i as f32 + 1.0).collect(), "inline_data"))])), Fld::Absent, Fld::Absent),
        Some(Inline::I32) => (Fld::U8(2), Fld::Ref(Obj::Table(vec![Fld::Ref(Obj::I32s((0..n_data).map(|i| i as i32 + 1).collect(), "inline_data"))])), Fld::Absent, Fld::Absent),
        Some(Inline::I8) => (Fld::U8(3), Fld::Ref(Obj::Table(vec![Fld::Ref(Obj::I8s((0..n_data).map(|i| i as i8 + 1).collect(), "inline_data"))])), Fld::Absent, Fld::Absent),
        Some(Inline::U8) => (Fld::U8(4), Fld::Ref(Obj::Table(vec![Fld::Ref(Obj::U8s((0..n_data).map(|i| i as u8 + 1).collect(), "inline_data"))])), Fld::Absent, Fld::Absent),
        None => (Fld::Absent, Fld::Absent, Fld::U16(1), Fld::U64(data_offset)),
    };
    let constant = vec![Fld::Ref(Obj::U32s(shape, "shape")), data_type, data, dtype, data_offset];
    let nodes = vec![
        vec![Fld::Ref(Obj::Str("c".into())), Fld::U8(2), Fld::Ref(Obj::Table(constant))],
        vec![Fld::Ref(Obj::Str("o".into())), Fld::U8(3), Fld::Ref(Obj::Table(vec![]))],
        vec![
            Fld::Ref(Obj::Str("id".into())),
            Fld::U8(1),
            Fld::Ref(Obj::Table(vec![Fld::U8(23), Fld::Absent, Fld::Absent, Fld::Ref(Obj::I32s(vec![0], "op_inputs")), Fld::Ref(Obj::I32s(vec![1], "op_outputs"))])),
        ],
    ];
    let graph = vec![Fld::Ref(Obj::Tables(nodes)), Fld::Ref(Obj::U32s(vec![], "graph_inputs")), Fld::Ref(Obj::U32s(vec![1], "graph_outputs"))];
    let model = vec![Fld::I32(1), Fld::Ref(Obj::Table(graph))];
    let w = Writer::default().finish(model);
    let mut fb = w.buf;
    while fb.len() % 8 != 0 {
        fb.push(0);
    }
    let tensor_data: Vec<u8> = (0..tds_len).map(|i| [0u8, 0, 0x80, 0x3f][i % 4]).collect(); // f32 1.0 repeated
    let name = format!(
        "{} constant, {}",
        match inline {
            Some(Inline::F32) => "inline f32",
            Some(Inline::I32) => "inline i32",
            Some(Inline::I8) => "inline i8",
            Some(Inline::U8) => "inline u8",
            None => "tensor-data-section f32",
        },
        if v2 { "V2 (RTEN header)" } else { "V1 (no header)" }
    );
    if v2 {
        let mut bytes = Vec::new();
        bytes.extend(b"RTEN");
        bytes.extend(2u32.to_le_bytes());
        bytes.extend(32u64.to_le_bytes());
        bytes.extend((fb.len() as u64).to_le_bytes());
        bytes.extend((32 + fb.len() as u64).to_le_bytes());
        bytes.extend(&fb);
        if inline.is_none() {
            bytes.extend(&tensor_data);
        }
        let shift = |m: &Mark| Mark { len_off: m.len_off + 32, data_off: m.data_off + 32, ..m.clone() };
        RtenSeed {
            name,
            bytes,
            marks: w.marks.iter().map(shift).collect(),
            scalars: w.scalars.iter().map(|(l, o, n)| (l.clone(), o + 32, *n)).collect(),
            fb_off: 32,
        }
    } else {
        RtenSeed { name, bytes: fb, marks: w.marks, scalars: w.scalars, fb_off: 0 }
    }
}
