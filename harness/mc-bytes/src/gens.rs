//! Input sets: deterministic index -> byte string maps that parent and worker
//! both construct, so that a batch is just `(set, start, end)`.

use vp_onnx::pb::{Msg, Span, put_varint};

/// canonical varint encoding
pub fn vi(v: u64) -> Vec<u8> {
    let mut o = Vec::new();
    put_varint(&mut o, v);
    o
}

pub fn tag(field: u64, wire: u8) -> Vec<u8> {
    vi(field << 3 | wire as u64)
}

fn dedup(mut v: Vec<u64>) -> Vec<u64> {
    let mut seen = std::collections::BTreeSet::new();
    v.retain(|x| seen.insert(*x));
    v
}

/// Extreme values for a *length* prefix when `rem` bytes follow it: small
/// values, values around `rem`, powers of two, and the neighbourhoods of 2^63
/// and 2^64 (values that turn negative as i64 or wrap when added to a position).
pub fn len_extremes(rem: u64, thorough: bool) -> Vec<u64> {
    let mut v = vec![0, 1, 2, rem.saturating_sub(1), rem, rem + 1, rem + 2, 127, 128, 255, 256, 16383, 16384, 1000];
    if thorough {
        for p in [31u32, 32, 33, 40, 47, 48, 62] {
            v.push((1u64 << p) - 1);
            v.push(1u64 << p);
        }
    } else {
        v.extend([(1u64 << 31) - 1, 1 << 31, (1 << 32) - 1, 1 << 32, 1 << 33, 1 << 40, 1 << 47, 1 << 62]);
    }
    v.push((1u64 << 32) + rem);
    let near63: Vec<u64> = if thorough { (1..=16).collect() } else { vec![1, 2, 3, 8, 16] };
    for d in &near63 {
        v.push((1u64 << 63) - d);
    }
    v.push(1u64 << 63);
    for d in &near63 {
        v.push((1u64 << 63) + d);
    }
    for d in (1..=32u64).rev() {
        v.push(0u64.wrapping_sub(d));
    }
    dedup(v)
}

/// Extreme values for a varint *value* (dims, enum codes, versions ...).
pub fn int_extremes() -> Vec<u64> {
    let mut v = vec![0u64, 1, 2, 3, 7, 8, 9, 10, 11, 16, 24, 25, 127, 128, 255, 256, 65535, 65536];
    for p in [31u32, 32, 62, 63] {
        v.push((1u64 << p) - 1);
        v.push(1u64 << p);
        v.push((1u64 << p) + 1);
    }
    v.push(u64::MAX - 1);
    v.push(u64::MAX);
    dedup(v)
}

/// Malformed or unusual varint *encodings* (not values).
pub fn odd_varints() -> Vec<(&'static str, Vec<u8>)> {
    let mut v: Vec<(&'static str, Vec<u8>)> = Vec::new();
    v.push(("lone continuation byte 0x80", vec![0x80]));
    v.push(("0x80 x9 then 0x00 (zero padded to 10 bytes)", {
        let mut b = vec![0x80; 9];
        b.push(0);
        b
    }));
    v.push(("0x80 x10 then 0x00 (11 bytes)", {
        let mut b = vec![0x80; 10];
        b.push(0);
        b
    }));
    v.push(("0xff x10 then 0x01 (11 bytes)", {
        let mut b = vec![0xff; 10];
        b.push(1);
        b
    }));
    v.push(("0xff x9 then 0x7f (10th byte > 1)", {
        let mut b = vec![0xff; 9];
        b.push(0x7f);
        b
    }));
    v.push(("0xff x9 then 0x02 (65th bit)", {
        let mut b = vec![0xff; 9];
        b.push(0x02);
        b
    }));
    v.push(("0x80 x12 (continuation only)", vec![0x80; 12]));
    v.push(("0xff x16 (continuation only)", vec![0xff; 16]));
    v
}

// ------------------------------------------------------------------ faults

#[derive(Clone, Debug)]
pub enum Op {
    Subst { pos: u32, val: u8 },
    Trunc { len: u32 },
    Splice { off: u32, len: u32, with: Vec<u8>, what: String },
}

#[derive(Clone, Debug)]
pub struct Fault {
    pub seed: u16,
    pub op: Op,
}

pub fn apply(buf: &[u8], op: &Op, out: &mut Vec<u8>) {
    out.clear();
    match op {
        Op::Subst { pos, val } => {
            out.extend_from_slice(buf);
            out[*pos as usize] = *val;
        }
        Op::Trunc { len } => out.extend_from_slice(&buf[..*len as usize]),
        Op::Splice { off, len, with, .. } => {
            let (off, len) = (*off as usize, *len as usize);
            out.extend_from_slice(&buf[..off]);
            out.extend_from_slice(with);
            out.extend_from_slice(&buf[off + len..]);
        }
    }
}

pub fn describe_op(op: &Op) -> String {
    match op {
        Op::Subst { pos, val } => format!("byte {pos} := 0x{val:02x}"),
        Op::Trunc { len } => format!("truncated to {len} bytes"),
        Op::Splice { what, .. } => what.clone(),
    }
}

fn span_name(s: &Span) -> String {
    format!("field {} (wire {}, depth {}, tag@{})", s.field, s.wire, s.depth, s.tag_off)
}

pub struct FaultPlan {
    /// substitution values at every byte (besides `^0x01`)
    pub subst: Vec<u8>,
    pub flip_low_bit: bool,
    pub truncations: bool,
    pub len_fields: bool,
    pub int_fields: bool,
    pub wire_types: bool,
    pub odd_encodings: bool,
    pub thorough: bool,
}

impl FaultPlan {
    pub fn standard() -> FaultPlan {
        FaultPlan {
            subst: vec![0x00, 0x01, 0x7f, 0x80, 0xff],
            flip_low_bit: true,
            truncations: true,
            len_fields: true,
            int_fields: true,
            wire_types: true,
            odd_encodings: true,
            thorough: false,
        }
    }
    pub fn all_bytes() -> FaultPlan {
        FaultPlan { subst: (0..=255u8).collect(), flip_low_bit: false, thorough: true, ..FaultPlan::standard() }
    }
}

/// Every single fault of `plan` applied to the artefact `m` (a protobuf message
/// with its span map).
pub fn protobuf_faults(seed: u16, m: &Msg, plan: &FaultPlan, out: &mut Vec<Fault>) {
    let buf = &m.buf;
    // structured faults first (simplest-first ordering inside a seed)
    if plan.len_fields {
        for s in m.spans.iter().filter(|s| s.wire == 2) {
            let rem = (buf.len() - (s.val_off + s.val_len)) as u64;
            for v in len_extremes(rem, plan.thorough) {
                let with = vi(v);
                if with[..] == buf[s.val_off..s.val_off + s.val_len] {
                    continue;
                }
                out.push(Fault {
                    seed,
                    op: Op::Splice {
                        off: s.val_off as u32,
                        len: s.val_len as u32,
                        with,
                        what: format!("length of {} := {} ({} bytes follow)", span_name(s), v, rem),
                    },
                });
            }
        }
    }
    if plan.int_fields {
        for s in m.spans.iter().filter(|s| s.wire == 0) {
            for v in int_extremes() {
                let with = vi(v);
                if with[..] == buf[s.val_off..s.val_off + s.val_len] {
                    continue;
                }
                out.push(Fault {
                    seed,
                    op: Op::Splice {
                        off: s.val_off as u32,
                        len: s.val_len as u32,
                        with,
                        what: format!("value of {} := {}", span_name(s), v),
                    },
                });
            }
        }
    }
    if plan.wire_types {
        for s in &m.spans {
            let tag_len = s.val_off - s.tag_off;
            for w in 0..8u8 {
                if w == s.wire {
                    continue;
                }
                out.push(Fault {
                    seed,
                    op: Op::Splice {
                        off: s.tag_off as u32,
                        len: tag_len as u32,
                        with: tag(s.field, w),
                        what: format!("wire type of {} := {}", span_name(s), w),
                    },
                });
            }
        }
    }
    if plan.odd_encodings {
        for s in &m.spans {
            let tag_len = s.val_off - s.tag_off;
            for (name, enc) in odd_varints() {
                out.push(Fault {
                    seed,
                    op: Op::Splice {
                        off: s.tag_off as u32,
                        len: tag_len as u32,
                        with: enc.clone(),
                        what: format!("tag of {} := {}", span_name(s), name),
                    },
                });
                if s.wire == 0 || s.wire == 2 {
                    out.push(Fault {
                        seed,
                        op: Op::Splice {
                            off: s.val_off as u32,
                            len: s.val_len as u32,
                            with: enc,
                            what: format!(
                                "{} of {} := {}",
                                if s.wire == 0 { "value" } else { "length" },
                                span_name(s),
                                name
                            ),
                        },
                    });
                }
            }
        }
    }
    if plan.truncations {
        for len in 0..buf.len() {
            out.push(Fault { seed, op: Op::Trunc { len: len as u32 } });
        }
    }
    for pos in 0..buf.len() {
        let orig = buf[pos];
        let mut vals: Vec<u8> = plan.subst.clone();
        if plan.flip_low_bit {
            vals.push(orig ^ 1);
        }
        let mut seen = [false; 256];
        for v in vals {
            if v == orig || seen[v as usize] {
                continue;
            }
            seen[v as usize] = true;
            out.push(Fault { seed, op: Op::Subst { pos: pos as u32, val: v } });
        }
    }
}

/// Every single byte-level fault of an opaque artefact (no span map).
pub fn byte_faults(seed: u16, buf: &[u8], subst: &[u8], flip_low_bit: bool, out: &mut Vec<Fault>) {
    for len in 0..buf.len() {
        out.push(Fault { seed, op: Op::Trunc { len: len as u32 } });
    }
    for pos in 0..buf.len() {
        let orig = buf[pos];
        let mut vals: Vec<u8> = subst.to_vec();
        if flip_low_bit {
            vals.push(orig ^ 1);
        }
        let mut seen = [false; 256];
        for v in vals {
            if v == orig || seen[v as usize] {
                continue;
            }
            seen[v as usize] = true;
            out.push(Fault { seed, op: Op::Subst { pos: pos as u32, val: v } });
        }
    }
}

// -------------------------------------------------------------------- sets

pub struct Item {
    pub bytes: Vec<u8>,
    pub desc: String,
}

pub enum SetKind {
    /// every byte string with `min_len <= len <= max_len`
    AllBytes { min_len: u32, max_len: u32 },
    /// every string over `alpha` with `min_len <= len <= max_len`
    Alphabet { alpha: Vec<u8>, min_len: u32, max_len: u32 },
    /// explicit list
    List(Vec<Item>),
    /// single faults of seed artefacts
    Faults { seeds: Vec<(String, Vec<u8>)>, faults: Vec<Fault> },
}

pub struct InputSet {
    pub name: String,
    pub kind: SetKind,
}

fn pow(b: u64, e: u32) -> u64 {
    b.pow(e)
}

impl InputSet {
    pub fn len(&self) -> u64 {
        match &self.kind {
            SetKind::AllBytes { min_len, max_len } => (*min_len..=*max_len).map(|l| pow(256, l)).sum(),
            SetKind::Alphabet { alpha, min_len, max_len } => {
                (*min_len..=*max_len).map(|l| pow(alpha.len() as u64, l)).sum()
            }
            SetKind::List(v) => v.len() as u64,
            SetKind::Faults { faults, .. } => faults.len() as u64,
        }
    }

    /// Write input number `idx` into `out`.
    pub fn fill(&self, idx: u64, out: &mut Vec<u8>) {
        match &self.kind {
            SetKind::AllBytes { min_len, max_len } => {
                radix_string(idx, 256, *min_len, *max_len, |d| d as u8, out);
            }
            SetKind::Alphabet { alpha, min_len, max_len } => {
                radix_string(idx, alpha.len() as u64, *min_len, *max_len, |d| alpha[d as usize], out);
            }
            SetKind::List(v) => {
                out.clear();
                out.extend_from_slice(&v[idx as usize].bytes);
            }
            SetKind::Faults { seeds, faults } => {
                let f = &faults[idx as usize];
                apply(&seeds[f.seed as usize].1, &f.op, out);
            }
        }
    }

    pub fn describe(&self, idx: u64) -> String {
        match &self.kind {
            SetKind::AllBytes { .. } | SetKind::Alphabet { .. } => format!("{}[{}]", self.name, idx),
            SetKind::List(v) => v[idx as usize].desc.clone(),
            SetKind::Faults { seeds, faults } => {
                let f = &faults[idx as usize];
                format!("seed '{}' ({} bytes): {}", seeds[f.seed as usize].0, seeds[f.seed as usize].1.len(), describe_op(&f.op))
            }
        }
    }
}

/// Strings ordered by length, then lexicographically (most significant first).
fn radix_string(mut idx: u64, radix: u64, min_len: u32, max_len: u32, digit: impl Fn(u64) -> u8, out: &mut Vec<u8>) {
    out.clear();
    for l in min_len..=max_len {
        let n = pow(radix, l);
        if idx < n {
            out.resize(l as usize, 0);
            for i in (0..l as usize).rev() {
                out[i] = digit(idx % radix);
                idx /= radix;
            }
            return;
        }
        idx -= n;
    }
    panic!("index out of range");
}
