//! mc-bytes: fault-enumeration engines for the untrusted-bytes properties
//! C38 (protobuf decoder), C34 (tensor file formats), C21 (external data),
//! C05 (model loading).

mod c05;
mod c21;
mod c34;
mod c38;
mod drv;
mod fbw;
mod gens;
mod pbref;
mod seeds;

fn main() {
    // Workers inherit the environment: an aborting worker must not spend seconds
    // symbolising a backtrace. (Set before any thread exists.)
    unsafe { std::env::set_var("RUST_BACKTRACE", "0") };
    // Model loading may start rten's thread pool (constant propagation). One
    // thread is enough for loading and keeps hundreds of short-lived forked
    // children from spinning up 16 threads each.
    unsafe { std::env::set_var("RTEN_NUM_THREADS", "1") };
    if let Some(w) = vp_core::isolate::worker_name() {
        match w.as_str() {
            "c38" => c38::worker(),
            "c34" => c34::worker(),
            "c21" => c21::worker(),
            "c05" => c05::worker(),
            _ => vp_core::machinery_error("unknown worker"),
        }
    }
    let prop = std::env::args().nth(1).unwrap_or_default();
    match prop.as_str() {
        "C38" => c38::run(vp_core::Ctx::from_env("C38")),
        "C34" => c34::run(vp_core::Ctx::from_env("C34")),
        "C21" => c21::run(vp_core::Ctx::from_env("C21")),
        "C05" => c05::run(vp_core::Ctx::from_env("C05")),
        _ => vp_core::machinery_error("unknown property (mc-bytes serves C38 C34 C21 C05)"),
    }
}
