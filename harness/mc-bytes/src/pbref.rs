//! Reference walker for the protobuf wire format, following the *public* ONNX
//! schema (onnx.proto), written independently of rten-onnx.
//!
//! It decides exactly one thing: does a sequential decoder of the given
//! message type necessarily come across a LEN field whose declared length is
//! larger than the remaining input, after a prefix in which every field is
//! well-formed? If so the decoder *must* report an error (property C38,
//! last clause). At the first oddity of any other kind the walker stops and
//! demands nothing.

#[derive(Clone, Copy, Debug, PartialEq, Eq)]
pub enum Mt {
    Model,
    Graph,
    Node,
    Attr,
    Tensor,
    ValueInfo,
    TypeProto,
    TypeTensor,
    TypeSeq,
    Shape,
    Dim,
    Sse,
    Opset,
    /// model as read by a file-type sniffer: no embedded message is descended
    SlimModel,
}

#[derive(Clone, Copy, Debug, PartialEq, Eq)]
pub enum Kind {
    Msg(Mt),
    Str,
    Bytes,
    /// repeated scalar that may be packed (LEN) or unpacked
    PackedVarint,
    PackedF32,
    PackedF64,
    Varint,
    F32,
}

/// Fields of onnx.proto that an inference runtime reads. Fields not listed are
/// "unknown" to the reader: it has to skip them by wire type.
pub fn schema(mt: Mt, field: u64) -> Option<Kind> {
    use Kind::*;
    Some(match (mt, field) {
        (Mt::Model, 1) => Varint,
        (Mt::Model, 2) | (Mt::Model, 3) => Str,
        (Mt::Model, 7) => Msg(Mt::Graph),
        (Mt::Model, 8) => Msg(Mt::Opset),
        (Mt::Model, 14) => Msg(Mt::Sse),
        (Mt::SlimModel, 1) => Varint,
        (Mt::Graph, 1) => Msg(Mt::Node),
        (Mt::Graph, 5) => Msg(Mt::Tensor),
        (Mt::Graph, 11) | (Mt::Graph, 12) | (Mt::Graph, 13) => Msg(Mt::ValueInfo),
        (Mt::Node, 1) | (Mt::Node, 2) | (Mt::Node, 3) | (Mt::Node, 4) | (Mt::Node, 7) => Str,
        (Mt::Node, 5) => Msg(Mt::Attr),
        (Mt::Attr, 1) | (Mt::Attr, 4) | (Mt::Attr, 9) => Str,
        (Mt::Attr, 2) => F32,
        (Mt::Attr, 3) => Varint,
        (Mt::Attr, 5) => Msg(Mt::Tensor),
        (Mt::Attr, 6) => Msg(Mt::Graph),
        (Mt::Attr, 7) => PackedF32,
        (Mt::Attr, 8) => PackedVarint,
        (Mt::Attr, 20) => Varint,
        (Mt::Tensor, 1) => PackedVarint,
        (Mt::Tensor, 2) => Varint,
        (Mt::Tensor, 4) => PackedF32,
        (Mt::Tensor, 5) | (Mt::Tensor, 7) => PackedVarint,
        (Mt::Tensor, 8) => Str,
        (Mt::Tensor, 9) => Bytes,
        (Mt::Tensor, 10) => PackedF64,
        (Mt::Tensor, 13) => Msg(Mt::Sse),
        (Mt::Tensor, 14) => Varint,
        (Mt::ValueInfo, 1) => Str,
        (Mt::ValueInfo, 2) => Msg(Mt::TypeProto),
        (Mt::TypeProto, 1) => Msg(Mt::TypeTensor),
        (Mt::TypeProto, 4) => Msg(Mt::TypeSeq),
        (Mt::TypeTensor, 1) => Varint,
        (Mt::TypeTensor, 2) => Msg(Mt::Shape),
        (Mt::TypeSeq, 1) => Msg(Mt::TypeProto),
        (Mt::Shape, 1) => Msg(Mt::Dim),
        (Mt::Dim, 1) => Varint,
        (Mt::Dim, 2) => Str,
        (Mt::Sse, 1) | (Mt::Sse, 2) => Str,
        (Mt::Opset, 1) => Str,
        (Mt::Opset, 2) => Varint,
        _ => return None,
    })
}

#[derive(Clone, Debug, PartialEq, Eq)]
pub struct Overlong {
    /// "skipped" (unknown to the schema), "string", "bytes", "message", "packed",
    /// "mismatch" (LEN wire type where the schema has a scalar)
    pub kind: &'static str,
    pub field: u64,
    pub in_msg: Mt,
    pub declared: u64,
    pub remaining: u64,
    pub depth: u32,
    /// offset of the field's tag
    pub tag_off: usize,
}

#[derive(Clone, Debug, PartialEq, Eq)]
pub enum Stop {
    /// reached the end of the input with every field well-formed
    End,
    /// a LEN field declares more bytes than remain in the input
    Overlong(Overlong),
    /// anything else that is not a plain well-formed field; nothing is demanded
    Odd(&'static str),
}

#[derive(Clone, Debug)]
pub struct Walk {
    pub stop: Stop,
    /// number of complete, well-formed fields (all depths) seen before stopping
    pub fields: u32,
    pub max_depth: u32,
}

impl Walk {
    pub fn must_err(&self) -> Option<&Overlong> {
        match &self.stop {
            Stop::Overlong(o) => Some(o),
            _ => None,
        }
    }
}

/// Canonical-or-not varint: up to 10 bytes, 10th byte at most 1. Returns
/// (value, length) or None if truncated / over-long.
pub fn read_varint(buf: &[u8], pos: usize) -> Option<(u64, usize)> {
    let mut v: u64 = 0;
    for i in 0..10 {
        let b = *buf.get(pos + i)?;
        if i == 9 && b > 1 {
            return None;
        }
        v |= ((b & 0x7f) as u64) << (7 * i);
        if b & 0x80 == 0 {
            return Some((v, i + 1));
        }
    }
    None
}

pub fn walk(buf: &[u8], root: Mt) -> Walk {
    let mut w = Walk { stop: Stop::End, fields: 0, max_depth: 0 };
    // explicit stack instead of recursion: (message type, end offset)
    let mut stack: Vec<(Mt, usize)> = vec![(root, buf.len())];
    let mut pos = 0usize;
    loop {
        let Some(&(mt, end)) = stack.last() else {
            return w;
        };
        if pos == end {
            stack.pop();
            if !stack.is_empty() {
                w.fields += 1; // the embedded message field is now complete
            }
            continue;
        }
        if pos > end {
            w.stop = Stop::Odd("field crosses the end of its enclosing message");
            return w;
        }
        let depth = (stack.len() - 1) as u32;
        w.max_depth = w.max_depth.max(depth);
        let tag_off = pos;
        let Some((tag, n)) = read_varint(buf, pos) else {
            w.stop = Stop::Odd("malformed or truncated tag varint");
            return w;
        };
        if pos + n > end {
            w.stop = Stop::Odd("tag crosses end of enclosing message");
            return w;
        }
        pos += n;
        let field = tag >> 3;
        let wire = (tag & 7) as u8;
        let kind = schema(mt, field);
        match wire {
            0 => {
                let Some((_, n)) = read_varint(buf, pos) else {
                    w.stop = Stop::Odd("malformed or truncated varint value");
                    return w;
                };
                if pos + n > end {
                    w.stop = Stop::Odd("value crosses end of enclosing message");
                    return w;
                }
                pos += n;
                match kind {
                    None | Some(Kind::Varint) | Some(Kind::PackedVarint) => w.fields += 1,
                    _ => {
                        w.stop = Stop::Odd("wire type does not match schema");
                        return w;
                    }
                }
            }
            1 | 5 => {
                let n = if wire == 1 { 8 } else { 4 };
                if pos + n > end {
                    w.stop = Stop::Odd("truncated fixed-width value");
                    return w;
                }
                pos += n;
                let ok = match kind {
                    None => true,
                    Some(Kind::F32) | Some(Kind::PackedF32) => wire == 5,
                    Some(Kind::PackedF64) => wire == 1,
                    _ => false,
                };
                if !ok {
                    w.stop = Stop::Odd("wire type does not match schema");
                    return w;
                }
                w.fields += 1;
            }
            2 => {
                let Some((len, n)) = read_varint(buf, pos) else {
                    w.stop = Stop::Odd("malformed or truncated length varint");
                    return w;
                };
                if pos + n > end {
                    w.stop = Stop::Odd("length crosses end of enclosing message");
                    return w;
                }
                pos += n;
                let remaining = (buf.len() - pos) as u64;
                let k: &'static str = match kind {
                    None => "skipped",
                    Some(Kind::Str) => "string",
                    Some(Kind::Bytes) => "bytes",
                    Some(Kind::Msg(_)) => "message",
                    Some(Kind::PackedVarint) | Some(Kind::PackedF32) | Some(Kind::PackedF64) => "packed",
                    Some(Kind::Varint) | Some(Kind::F32) => "mismatch",
                };
                if len > remaining {
                    w.stop = Stop::Overlong(Overlong {
                        kind: k,
                        field,
                        in_msg: mt,
                        declared: len,
                        remaining,
                        depth,
                        tag_off,
                    });
                    return w;
                }
                let len = len as usize;
                if pos + len > end {
                    w.stop = Stop::Odd("embedded field longer than its enclosing message");
                    return w;
                }
                match kind {
                    Some(Kind::Msg(m)) => {
                        stack.push((m, pos + len));
                    }
                    Some(Kind::Varint) | Some(Kind::F32) => {
                        w.stop = Stop::Odd("wire type does not match schema");
                        return w;
                    }
                    Some(Kind::PackedF32) if len % 4 != 0 => {
                        w.stop = Stop::Odd("packed length not a multiple of the element size");
                        return w;
                    }
                    Some(Kind::PackedF64) if len % 8 != 0 => {
                        w.stop = Stop::Odd("packed length not a multiple of the element size");
                        return w;
                    }
                    Some(Kind::PackedVarint) => {
                        // contents must be whole varints
                        let mut p = pos;
                        while p < pos + len {
                            match read_varint(buf, p) {
                                Some((_, n)) if p + n <= pos + len => p += n,
                                _ => {
                                    w.stop = Stop::Odd("malformed packed varints");
                                    return w;
                                }
                            }
                        }
                        pos += len;
                        w.fields += 1;
                    }
                    Some(Kind::Str) => {
                        if std::str::from_utf8(&buf[pos..pos + len]).is_err() {
                            w.stop = Stop::Odd("string is not UTF-8");
                            return w;
                        }
                        pos += len;
                        w.fields += 1;
                    }
                    _ => {
                        pos += len;
                        w.fields += 1;
                    }
                }
            }
            3 | 4 => {
                w.stop = Stop::Odd("group wire type");
                return w;
            }
            _ => {
                w.stop = Stop::Odd("invalid wire type");
                return w;
            }
        }
    }
}
