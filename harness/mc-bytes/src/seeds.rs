//! Seed artefacts: small valid ONNX models (one per tensor-data path of the
//! loader) built with the vp-onnx encoder, with the span map of the *whole*
//! model, and the two .rten files of the repository.

use vp_onnx::pb::Msg;
use vp_onnx::{Attr, Graph, Node, Tensor, TensorData, ValueInfo, dtype};

pub struct Seed {
    pub name: &'static str,
    pub msg: Msg,
    /// external data files the model refers to (file name, content)
    pub external: Vec<(String, Vec<u8>)>,
    /// names of the constants the loader must produce, with their element counts
    pub constants: Vec<(&'static str, usize)>,
}

impl Seed {
    pub fn bytes(&self) -> &[u8] {
        &self.msg.buf
    }
}

/// Complete ModelProto around an encoded graph. Besides the fields rten reads
/// (ir_version 1, producer_name 2, producer_version 3, graph 7, opset_import 8,
/// metadata_props 14) it carries fields a reader has to *skip* (domain 4,
/// model_version 5, doc_string 6), so that the skip path is part of every seed.
pub fn model_msg(graph: &Msg, opset: i64) -> Msg {
    let mut m = Msg::new();
    m.varint(1, 8);
    m.string(2, "vp");
    m.string(3, "1.0");
    m.string(4, "dom");
    m.varint(5, 3);
    m.string(6, "doc");
    m.msg(7, graph);
    let mut os = Msg::new();
    os.string(1, "");
    os.varint(2, opset as u64);
    m.msg(8, &os);
    let mut kv = Msg::new();
    kv.string(1, "k");
    kv.string(2, "v");
    m.msg(14, &kv);
    m
}

fn attr_header(name: &str) -> Msg {
    let mut a = Msg::new();
    a.string(1, name);
    a
}

/// NodeProto with hand-made attribute messages (needed for *unpacked* repeated
/// attributes, which is what onnx.proto (proto2) writers emit).
fn node_msg(op: &str, inputs: &[&str], outputs: &[&str], attrs: &[Msg]) -> Msg {
    let mut m = Msg::new();
    for i in inputs {
        m.string(1, i);
    }
    for o in outputs {
        m.string(2, o);
    }
    m.string(3, &format!("{}_{}", op, outputs.first().copied().unwrap_or("")));
    m.string(4, op);
    for a in attrs {
        m.msg(5, a);
    }
    m
}

fn graph_msg(name: &str, nodes: &[Msg], inits: &[Msg], inputs: &[Msg], outputs: &[Msg]) -> Msg {
    let mut m = Msg::new();
    for n in nodes {
        m.msg(1, n);
    }
    m.string(2, name);
    for t in inits {
        m.msg(5, t);
    }
    // doc_string: skipped by readers
    m.string(10, "g");
    for v in inputs {
        m.msg(11, v);
    }
    for v in outputs {
        m.msg(12, v);
    }
    m
}

fn f32_bytes(v: &[f32]) -> Vec<u8> {
    v.iter().flat_map(|x| x.to_le_bytes()).collect()
}

pub const OPSET: i64 = 21;

pub fn seed_raw() -> Seed {
    let w = Tensor::f32("W", &[2, 3], &[1.0, 2.0, 3.0, 4.0, 5.0, 6.0]);
    let k = Tensor::i64("K", &[2], &[1, -1]);
    let g = graph_msg(
        "raw",
        &[
            Node::new("Add", &["X", "W"], &["Y"]).encode(),
            Node::new("Identity", &["K"], &["KO"]).encode(),
        ],
        &[w.encode(), k.encode()],
        &[ValueInfo::fixed("X", dtype::FLOAT, &[2, 3]).encode()],
        &[
            ValueInfo::fixed("Y", dtype::FLOAT, &[2, 3]).encode(),
            ValueInfo::fixed("KO", dtype::INT64, &[2]).encode(),
        ],
    );
    Seed { name: "raw", msg: model_msg(&g, OPSET), external: vec![], constants: vec![("W", 6), ("K", 2)] }
}

pub fn seed_typed() -> Seed {
    let t = |name: &str, dims: &[i64], dt: i32, data: TensorData| Tensor {
        name: name.into(),
        dims: dims.to_vec(),
        data_type: dt,
        data,
    };
    let inits = [
        t("F", &[2], dtype::FLOAT, TensorData::Floats(vec![1.0, 2.0])),
        t("I", &[3], dtype::INT32, TensorData::Int32s(vec![3, 4, 5])),
        t("L", &[2], dtype::INT64, TensorData::Int64s(vec![6, -7])),
        t("D", &[1], dtype::DOUBLE, TensorData::Doubles(vec![0.5])),
        t("U", &[2], dtype::UINT8, TensorData::Int32s(vec![200, 1])),
        t("B", &[2], dtype::BOOL, TensorData::Int32s(vec![1, 0])),
    ];
    let names = ["F", "I", "L", "D", "U", "B"];
    let mut nodes = Vec::new();
    let mut outs = Vec::new();
    for (n, t) in names.iter().zip(&inits) {
        let o = format!("{n}o");
        nodes.push(Node::new("Identity", &[n], &[&o]).encode());
        outs.push(ValueInfo::fixed(&o, t.data_type, &t.dims).encode());
    }
    let im: Vec<Msg> = inits.iter().map(|t| t.encode()).collect();
    let g = graph_msg("typed", &nodes, &im, &[], &outs);
    Seed {
        name: "typed",
        msg: model_msg(&g, OPSET),
        external: vec![],
        constants: vec![("F", 2), ("I", 3), ("L", 2), ("D", 1), ("U", 2), ("B", 2)],
    }
}

pub fn seed_f16() -> Seed {
    let h = Tensor {
        name: "H".into(),
        dims: vec![2],
        data_type: dtype::FLOAT16,
        data: TensorData::Raw(vec![0x00, 0x3c, 0x00, 0x40]),
    };
    let h2 = Tensor {
        name: "H2".into(),
        dims: vec![1],
        data_type: dtype::FLOAT16,
        data: TensorData::Int32s(vec![0x3c00]),
    };
    let g = graph_msg(
        "f16",
        &[
            Node::new("Identity", &["H"], &["Ho"]).encode(),
            Node::new("Identity", &["H2"], &["H2o"]).encode(),
        ],
        &[h.encode(), h2.encode()],
        &[],
        &[
            ValueInfo::fixed("Ho", dtype::FLOAT16, &[2]).encode(),
            ValueInfo::fixed("H2o", dtype::FLOAT16, &[1]).encode(),
        ],
    );
    Seed { name: "f16", msg: model_msg(&g, OPSET), external: vec![], constants: vec![("H", 2), ("H2", 1)] }
}

pub fn ext_file_content() -> Vec<u8> {
    // 8 bytes of padding, then six f32 values, then 8 more bytes
    let mut v = vec![0xeeu8; 8];
    v.extend(f32_bytes(&[10.0, 20.0, 30.0, 40.0, 50.0, 60.0]));
    v.extend([0xddu8; 8]);
    v
}

pub fn seed_ext() -> Seed {
    let w = Tensor {
        name: "W".into(),
        dims: vec![2, 3],
        data_type: dtype::FLOAT,
        data: TensorData::External { location: "w.data".into(), offset: Some(8), length: Some(24) },
    };
    let g = graph_msg(
        "ext",
        &[Node::new("Add", &["X", "W"], &["Y"]).encode()],
        &[w.encode()],
        &[ValueInfo::fixed("X", dtype::FLOAT, &[2, 3]).encode()],
        &[ValueInfo::fixed("Y", dtype::FLOAT, &[2, 3]).encode()],
    );
    Seed {
        name: "ext",
        msg: model_msg(&g, OPSET),
        external: vec![("w.data".into(), ext_file_content())],
        constants: vec![("W", 6)],
    }
}

pub fn seed_const() -> Seed {
    let mut a_val = attr_header("value");
    a_val.msg(5, &Tensor::f32("", &[2], &[1.5, -2.0]).encode());
    a_val.varint(20, 4);
    let mut a_int = attr_header("value_int");
    a_int.varint(3, 7);
    a_int.varint(20, 2);
    let mut a_float = attr_header("value_float");
    a_float.fixed32(2, 1.5f32.to_bits());
    a_float.varint(20, 1);
    let mut a_ints = attr_header("value_ints");
    for v in [1u64, 2, 3] {
        a_ints.varint(8, v);
    }
    a_ints.varint(20, 7);
    let mut a_floats = attr_header("value_floats");
    for v in [0.5f32, 0.25] {
        a_floats.fixed32(7, v.to_bits());
    }
    a_floats.varint(20, 6);
    let nodes = [
        node_msg("Constant", &[], &["c_val"], &[a_val]),
        node_msg("Constant", &[], &["c_int"], &[a_int]),
        node_msg("Constant", &[], &["c_float"], &[a_float]),
        node_msg("Constant", &[], &["c_ints"], &[a_ints]),
        node_msg("Constant", &[], &["c_floats"], &[a_floats]),
        Node::new("Identity", &["c_val"], &["o_val"]).encode(),
        Node::new("Identity", &["c_int"], &["o_int"]).encode(),
        Node::new("Identity", &["c_float"], &["o_float"]).encode(),
        Node::new("Identity", &["c_ints"], &["o_ints"]).encode(),
        Node::new("Identity", &["c_floats"], &["o_floats"]).encode(),
    ];
    let outs = [
        ValueInfo::fixed("o_val", dtype::FLOAT, &[2]).encode(),
        ValueInfo::fixed("o_int", dtype::INT64, &[]).encode(),
        ValueInfo::fixed("o_float", dtype::FLOAT, &[]).encode(),
        ValueInfo::fixed("o_ints", dtype::INT64, &[3]).encode(),
        ValueInfo::fixed("o_floats", dtype::FLOAT, &[2]).encode(),
    ];
    let g = graph_msg("const", &nodes, &[], &[], &outs);
    Seed {
        name: "const",
        msg: model_msg(&g, OPSET),
        external: vec![],
        constants: vec![("c_val", 2), ("c_int", 1), ("c_float", 1), ("c_ints", 3), ("c_floats", 2)],
    }
}

pub fn seed_sub() -> Seed {
    // then: Constant -> t_out ; else: initializer E -> Identity -> e_out
    let mut a_val = attr_header("value");
    a_val.msg(5, &Tensor::f32("", &[2], &[1.0, 2.0]).encode());
    a_val.varint(20, 4);
    let then_g = graph_msg(
        "then",
        &[node_msg("Constant", &[], &["t_out"], &[a_val])],
        &[],
        &[],
        &[ValueInfo::fixed("t_out", dtype::FLOAT, &[2]).encode()],
    );
    let else_g = graph_msg(
        "else",
        &[Node::new("Identity", &["E"], &["e_out"]).encode()],
        &[Tensor::f32("E", &[2], &[3.0, 4.0]).encode()],
        &[],
        &[ValueInfo::fixed("e_out", dtype::FLOAT, &[2]).encode()],
    );
    let mut a_then = attr_header("then_branch");
    a_then.msg(6, &then_g);
    a_then.varint(20, 5);
    let mut a_else = attr_header("else_branch");
    a_else.msg(6, &else_g);
    a_else.varint(20, 5);
    let g = graph_msg(
        "sub",
        &[node_msg("If", &["cond"], &["Z"], &[a_then, a_else])],
        &[],
        &[ValueInfo::fixed("cond", dtype::BOOL, &[]).encode()],
        &[ValueInfo::fixed("Z", dtype::FLOAT, &[2]).encode()],
    );
    Seed { name: "sub", msg: model_msg(&g, OPSET), external: vec![], constants: vec![] }
}

pub fn onnx_seeds() -> Vec<Seed> {
    vec![seed_raw(), seed_typed(), seed_f16(), seed_ext(), seed_const(), seed_sub()]
}

/// A graph whose only content is one initializer; used by the dims boxes.
pub fn single_init_model(t: &Tensor) -> Msg {
    let g = graph_msg(
        "dims",
        &[Node::new("Identity", &[&t.name], &["O"]).encode()],
        &[t.encode()],
        &[],
        &[ValueInfo::typed_no_shape("O", t.data_type).encode()],
    );
    model_msg(&g, OPSET)
}

#[allow(dead_code)]
pub fn unused_marker(_: &Graph, _: &Attr) {}

pub static RTEN_FILE_TEST: &[u8] = include_bytes!("/repo/model-load-file-test.rten");
pub static RTEN_MMAP_TEST: &[u8] = include_bytes!("/repo/model-load-mmap-test.rten");
