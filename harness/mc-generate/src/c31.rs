//! C31 — logit filters implement their contracts for all inputs.
//!
//! Box enumeration (style D). Every point is a (filter chain, logit vector,
//! id layout, SIMD ISA) tuple that is pushed through the REAL filters of
//! `rten_generate::filter`; the oracle is a boring sort-by-total-order reference
//! written below. See `assumptions()` for the exact reading of the statement.

use std::cmp::Ordering;
use std::collections::{BTreeMap, HashMap, HashSet};

use rten_generate::Logits;
use rten_generate::filter::{Chain, LogitsFilter, Sort, Temperature, TopK, TopP, token_id_filter};
use vp_core::{Ctx, Json, Samples, json};

use crate::util::{self, Distinct, Sink, cmp_total, show_vec};

// ---------------------------------------------------------------------------
// Filter descriptions
// ---------------------------------------------------------------------------

#[derive(Clone, Debug, PartialEq)]
pub enum F {
    TopK(usize),
    /// mode 0 = `TopP::new(p)` (judged with whatever the constructed filter does), 1 = `.normalize(true)`,
    /// 2 = `.normalize(false)`
    TopP { p: f32, mode: u8 },
    Temp(f32),
    Sort,
    EvenIds,
}

const MODE_NAMES: [&str; 3] = ["default", "normalize(true)", "normalize(false)"];

impl F {
    fn name(&self) -> &'static str {
        match self {
            F::TopK(_) => "TopK",
            F::TopP { .. } => "TopP",
            F::Temp(_) => "Temperature",
            F::Sort => "Sort",
            F::EvenIds => "token_id_filter",
        }
    }

    fn show(&self) -> String {
        match self {
            F::TopK(k) => format!("TopK({k})"),
            F::TopP { p, mode } => format!("TopP({p:e}, {})", MODE_NAMES[*mode as usize]),
            F::Temp(t) => format!("Temperature({t})"),
            F::Sort => "Sort".into(),
            F::EvenIds => "token_id_filter(id%2==0)".into(),
        }
    }

    fn to_json(&self) -> Json {
        match self {
            F::TopK(k) => json!({"f": "topk", "k": k}),
            F::TopP { p, mode } => json!({"f": "topp", "p_bits": p.to_bits(), "p": format!("{p:e}"), "mode": mode}),
            F::Temp(t) => json!({"f": "temp", "t_bits": t.to_bits(), "t": format!("{t}")}),
            F::Sort => json!({"f": "sort"}),
            F::EvenIds => json!({"f": "even_ids"}),
        }
    }

    fn from_json(j: &Json) -> Option<F> {
        Some(match j["f"].as_str()? {
            "topk" => F::TopK(j["k"].as_u64()? as usize),
            "topp" => F::TopP {
                p: f32::from_bits(j["p_bits"].as_u64()? as u32),
                mode: j["mode"].as_u64()? as u8,
            },
            "temp" => F::Temp(f32::from_bits(j["t_bits"].as_u64()? as u32)),
            "sort" => F::Sort,
            "even_ids" => F::EvenIds,
            _ => return None,
        })
    }

    /// Run the real filter.
    fn apply(&self, input: Logits) -> Logits {
        match self {
            F::TopK(k) => TopK::new(*k).filter(input, &[]),
            F::TopP { p, mode } => match mode {
                0 => TopP::new(*p).filter(input, &[]),
                1 => TopP::new(*p).normalize(true).filter(input, &[]),
                _ => TopP::new(*p).normalize(false).filter(input, &[]),
            },
            F::Temp(t) => Temperature::new(*t).filter(input, &[]),
            F::Sort => Sort::new().filter(input, &[]),
            F::EvenIds => token_id_filter(|id| id % 2 == 0).filter(input, &[]),
        }
    }

    fn append_to(&self, chain: Chain) -> Chain {
        match self {
            // the convenience builders are part of the surface under test
            F::TopK(k) => chain.top_k(*k),
            F::TopP { p, mode } => match mode {
                0 => chain.top_p(*p),
                1 => chain.append(TopP::new(*p).normalize(true)),
                _ => chain.append(TopP::new(*p).normalize(false)),
            },
            F::Temp(t) => chain.temperature(*t),
            F::Sort => chain.append(Sort::new()),
            F::EvenIds => chain.append(token_id_filter(|id| id % 2 == 0)),
        }
    }
}

// ---------------------------------------------------------------------------
// Cases
// ---------------------------------------------------------------------------

#[derive(Clone, Debug)]
pub struct Case {
    pub filters: Vec<F>,
    pub scores: Vec<f32>,
    /// true: `Logits::dense`, false: `Logits::sparse` with permuted ids
    pub dense: bool,
    /// sparse ids whose first id is 0 and last id is n-1 although the ids are not 0..n
    pub ends: bool,
    pub isa: u8,
}

fn sparse_ids(n: usize) -> Vec<u32> {
    (0..n).map(|i| 100 + (n - 1 - i) as u32).collect()
}

impl Case {
    fn logits(&self) -> Logits {
        if self.dense {
            Logits::dense(self.scores.clone())
        } else {
            let n = self.scores.len();
            let ids = if self.ends { (0..n).map(|i| if i == 0 { 0 } else if i == n - 1 { (n - 1) as u32 } else { (2 * n - i) as u32 }).collect() } else { sparse_ids(n) };
            Logits::sparse(self.scores.clone(), ids)
        }
    }

    fn to_json(&self) -> Json {
        json!({
            "filters": self.filters.iter().map(|f| f.to_json()).collect::<Vec<_>>(),
            "filters_text": self.filters.iter().map(|f| f.show()).collect::<Vec<_>>(),
            "scores_bits": util::bits_json(&self.scores),
            "scores_text": show_vec(&self.scores),
            "dense": self.dense,
            "ends": self.ends,
            "isa": self.isa,
            "isa_name": util::ISA_NAMES[self.isa as usize],
        })
    }

    fn from_json(j: &Json) -> Option<Case> {
        let filters = j["filters"].as_array()?.iter().map(F::from_json).collect::<Option<Vec<_>>>()?;
        Some(Case {
            filters,
            scores: util::bits_from_json(&j["scores_bits"]),
            dense: j["dense"].as_bool()?,
            ends: j["ends"].as_bool().unwrap_or(false),
            isa: j["isa"].as_u64()? as u8,
        })
    }
}

// ---------------------------------------------------------------------------
// Oracle
// ---------------------------------------------------------------------------

pub const SIG_TOPK_PANIC_K_GT_N: &str = "TopK::filter panics when K exceeds the number of candidates (n >= 1)";
pub const SIG_TOPK_NAN: &str =
    "TopK::filter NaN among candidates: output is not the K largest in descending total order";

type Viol = (String, String);

/// (id, score) pairs of the output must be distinct candidates of the input.
/// `scores_preserved`: also require bit-identical scores.
fn check_members(
    who: &str,
    is: &[f32],
    ii: &[u32],
    os: &[f32],
    oi: &[u32],
    scores_preserved: bool,
    v: &mut Vec<Viol>,
) -> bool {
    let map: HashMap<u32, f32> = ii.iter().copied().zip(is.iter().copied()).collect();
    let mut seen = HashSet::new();
    for (id, s) in oi.iter().zip(os) {
        let ok = match map.get(id) {
            None => false,
            Some(x) => !scores_preserved || x.to_bits() == s.to_bits() || (x.is_nan() && s.is_nan()),
        };
        if !ok || !seen.insert(*id) {
            v.push((
                format!("{who}::filter output contains an (id, score) pair that is not a distinct input candidate"),
                format!("output pair ({id}, {}) not (uniquely) in the input", util::show_f32(*s)),
            ));
            return false;
        }
    }
    true
}

fn oracle_topk(k: usize, is: &[f32], ii: &[u32], os: &[f32], oi: &[u32], v: &mut Vec<Viol>, zero_sign: &mut u64) {
    let n = is.len();
    let want = k.min(n);
    if os.len() != want {
        v.push((
            "TopK::filter returns a wrong number of candidates".into(),
            format!("expected min(K,n) = {want}, got {}", os.len()),
        ));
        return;
    }
    if !check_members("TopK", is, ii, os, oi, true, v) {
        return;
    }
    let mut sorted = is.to_vec();
    sorted.sort_by(|a, b| cmp_total(*b, *a));
    for i in 0..want {
        if cmp_total(os[i], sorted[i]) != Ordering::Equal {
            let has_nan = is.iter().any(|x| x.is_nan());
            let sig = if has_nan {
                SIG_TOPK_NAN.to_string()
            } else {
                "TopK::filter output is not the K largest in descending order (no NaN involved)".to_string()
            };
            v.push((
                sig,
                format!(
                    "expected scores {} (total_cmp descending, first {want}), got {}",
                    show_vec(&sorted[..want]),
                    show_vec(os)
                ),
            ));
            return;
        }
        if os[i].to_bits() != sorted[i].to_bits() && !os[i].is_nan() {
            *zero_sign += 1;
        }
    }
}

/// Range of acceptable prefix lengths for masses sorted descending.
fn prefix_range(sorted_desc: &[f64], p: f32, eps: f64) -> (usize, usize) {
    let n = sorted_desc.len();
    let thr = (p.max(f32::MIN_POSITIVE)) as f64;
    let mut early = n;
    let mut late = n;
    let mut s = 0.0f64;
    let mut got_early = false;
    for (i, m) in sorted_desc.iter().enumerate() {
        s += m;
        if !got_early && s >= thr - eps {
            early = i + 1;
            got_early = true;
        }
        if s >= thr + eps {
            late = i + 1;
            break;
        }
    }
    (early.max(1), late.max(1))
}

fn softmax64(x: &[f32]) -> Vec<f64> {
    let m = x.iter().fold(f64::NEG_INFINITY, |a, b| a.max(*b as f64));
    let e: Vec<f64> = x.iter().map(|v| ((*v as f64) - m).exp()).collect();
    let s: f64 = e.iter().sum();
    e.iter().map(|v| v / s).collect()
}

const EPS_NORM: f64 = 1e-5;

/// What `TopP::new(p)` (no `.normalize(..)` call) actually does, queried from the
/// real filter: with normalisation the returned scores are probabilities, without
/// it the input scores come back unchanged. C31 says nothing about the default, so
/// `TopP::new(p)` is judged with the semantics the constructed filter implements.
fn default_topp_normalizes() -> bool {
    static CELL: std::sync::OnceLock<bool> = std::sync::OnceLock::new();
    *CELL.get_or_init(|| {
        let out = TopP::new(0.5).filter(Logits::dense(vec![2.0, 0.0]), &[]);
        let explicit_false = TopP::new(0.5).normalize(false).filter(Logits::dense(vec![2.0, 0.0]), &[]);
        let explicit_true = TopP::new(0.5).normalize(true).filter(Logits::dense(vec![2.0, 0.0]), &[]);
        if same_logits(&out, &explicit_false) && !same_logits(&out, &explicit_true) {
            false
        } else if same_logits(&out, &explicit_true) && !same_logits(&out, &explicit_false) {
            true
        } else {
            vp_core::machinery_error("C31: cannot tell whether TopP::new normalizes (probe ambiguous)")
        }
    })
}

fn oracle_topp(p: f32, mode: u8, is: &[f32], ii: &[u32], os: &[f32], oi: &[u32], v: &mut Vec<Viol>, c: &mut Local) {
    let declared_mode = mode;
    let mode = if mode == 0 { if default_topp_normalizes() { 1 } else { 2 } } else { mode };
    let n = is.len();
    if n == 0 {
        if !os.is_empty() {
            v.push(("TopP::filter invents candidates for empty input".into(), format!("got {} items", os.len())));
        }
        return;
    }
    if os.is_empty() {
        v.push((
            "TopP::filter returns an empty set for non-empty input".into(),
            format!("input {} P={p:e}", show_vec(is)),
        ));
        return;
    }
    // Scores are only required to be preserved where no normalisation is requested.
    if !check_members("TopP", is, ii, os, oi, mode == 2, v) {
        return;
    }
    let k = os.len();
    let kept: HashSet<u32> = oi.iter().copied().collect();

    // Reference masses.
    let raw: Vec<f64> = is.iter().map(|x| *x as f64).collect();
    let raw_finite = is.iter().all(|x| x.is_finite());
    let norm: Vec<f64> = softmax64(is);
    let norm_finite = norm.iter().all(|x| x.is_finite());
    let (masses, finite, eps) = if mode == 2 { (&raw, raw_finite, 0.0) } else { (&norm, norm_finite, EPS_NORM) };

    // Kept set must be a highest-mass prefix.
    if mode == 2 {
        // order is defined on the values themselves, for every input
        let mut min_kept: Option<f32> = None;
        let mut max_dropped: Option<f32> = None;
        for (id, s) in ii.iter().zip(is) {
            if kept.contains(id) {
                min_kept = Some(match min_kept {
                    Some(m) if cmp_total(m, *s) != Ordering::Greater => m,
                    _ => *s,
                });
            } else {
                max_dropped = Some(match max_dropped {
                    Some(m) if cmp_total(m, *s) != Ordering::Less => m,
                    _ => *s,
                });
            }
        }
        if let (Some(a), Some(b)) = (min_kept, max_dropped) {
            if cmp_total(a, b) == Ordering::Less {
                v.push((
                    "TopP::filter kept set is not a highest-score prefix".into(),
                    format!("kept min {} < dropped max {}", util::show_f32(a), util::show_f32(b)),
                ));
                return;
            }
        }
    } else if finite {
        let mut min_kept = f64::INFINITY;
        let mut max_dropped = f64::NEG_INFINITY;
        for (id, m) in ii.iter().zip(masses.iter()) {
            if kept.contains(id) {
                min_kept = min_kept.min(*m);
            } else {
                max_dropped = max_dropped.max(*m);
            }
        }
        if min_kept < max_dropped - eps {
            // Could also be the missing normalisation? No: softmax is monotone, the
            // order of raw logits and of probabilities agree.
            v.push((
                "TopP::filter kept set is not a highest-probability prefix".into(),
                format!("kept min mass {min_kept} < dropped max mass {max_dropped}"),
            ));
            return;
        }
    }

    if !finite {
        c.add("topp_structural_only", 1);
        return;
    }
    c.add("topp_threshold_checked", 1);
    let mut sorted = masses.clone();
    sorted.sort_by(|a, b| b.partial_cmp(a).unwrap());
    let (early, late) = prefix_range(&sorted, p, eps);
    let ok = (early..=late).contains(&k) || (p == 1.0 && k == n);
    if ok {
        return;
    }
    v.push((
        format!("TopP::filter prefix is not the shortest reaching P ({})", MODE_NAMES[declared_mode as usize]),
        format!(
            "P={p:e} input {}: kept {k}, acceptable {early}..={late} (masses desc {:?})",
            show_vec(is),
            &sorted[..sorted.len().min(8)]
        ),
    ));
}

fn oracle_temp(t: f32, is: &[f32], ii: &[u32], os: &[f32], oi: &[u32], v: &mut Vec<Viol>) {
    if ii != oi || is.len() != os.len() {
        v.push(("Temperature::filter changes the candidate ids".into(), format!("{ii:?} -> {oi:?}")));
        return;
    }
    for (x, y) in is.iter().zip(os) {
        let want = *x / t;
        let same = (want.is_nan() && y.is_nan()) || want.to_bits() == y.to_bits();
        if !same {
            v.push((
                "Temperature::filter score is not logit / temperature".into(),
                format!("{} / {t} = {}, got {}", util::show_f32(*x), util::show_f32(want), util::show_f32(*y)),
            ));
            return;
        }
    }
}

fn oracle_sort(is: &[f32], ii: &[u32], os: &[f32], oi: &[u32], v: &mut Vec<Viol>) {
    if is.len() != os.len() {
        v.push(("Sort::filter changes the number of candidates".into(), format!("{} -> {}", is.len(), os.len())));
        return;
    }
    if !check_members("Sort", is, ii, os, oi, true, v) {
        return;
    }
    for w in os.windows(2) {
        if cmp_total(w[0], w[1]) == Ordering::Less {
            v.push(("Sort::filter output is not descending in total order".into(), show_vec(os)));
            return;
        }
    }
}

fn oracle_even(is: &[f32], ii: &[u32], os: &[f32], oi: &[u32], v: &mut Vec<Viol>) {
    let want: Vec<(u32, u32)> =
        ii.iter().zip(is).filter(|(id, _)| *id % 2 == 0).map(|(id, s)| (*id, s.to_bits())).collect();
    let got: Vec<(u32, u32)> = oi.iter().zip(os).map(|(id, s)| (*id, s.to_bits())).collect();
    if want != got {
        v.push(("token_id_filter output is not the matching subsequence".into(), format!("{want:?} vs {got:?}")));
    }
}

fn panic_sig(f: &F, n: usize) -> String {
    match f {
        F::TopK(k) if *k > n && n >= 1 => SIG_TOPK_PANIC_K_GT_N.to_string(),
        F::TopK(_) => "TopK::filter panics (K <= n or empty input)".to_string(),
        other => format!("{}::filter panics", other.name()),
    }
}

// ---------------------------------------------------------------------------
// Per-shard bookkeeping
// ---------------------------------------------------------------------------

#[derive(Default)]
pub struct Local {
    pub sink: Sink,
    pub counts: BTreeMap<String, u64>,
    pub distinct: Distinct,
}

impl Local {
    fn add(&mut self, k: &str, n: u64) {
        *self.counts.entry(k.to_string()).or_insert(0) += n;
    }
    fn merge(&mut self, o: Local) {
        self.sink.merge(o.sink);
        for (k, v) in o.counts {
            *self.counts.entry(k).or_insert(0) += v;
        }
        self.distinct.merge(o.distinct);
    }
}

fn same_logits(a: &Logits, b: &Logits) -> bool {
    a.indices() == b.indices()
        && a.logits().len() == b.logits().len()
        && a.logits().iter().zip(b.logits()).all(|(x, y)| x.to_bits() == y.to_bits())
}

/// Run one case on the real filters and judge it. Returns the final output (if
/// no step panicked) for samples.
pub fn run_case(case: &Case, l: &mut Local) -> Option<Logits> {
    l.add("cases", 1);
    let x0 = case.logits();
    let mut cur = x0.clone();
    let mut steps_ok = true;
    for f in &case.filters {
        let is = cur.logits().to_vec();
        let ii = cur.indices().to_vec();
        let inp = cur.clone();
        match vp_core::catch(|| f.apply(inp)) {
            Err(msg) => {
                l.add("panics", 1);
                let sig = panic_sig(f, is.len());
                l.sink.add(
                    &sig,
                    || case.to_json(),
                    || format!("{} on {} (n={}) panicked: {msg}", f.show(), show_vec(&is), is.len()),
                );
                steps_ok = false;
                break;
            }
            Ok(out) => {
                l.add("evaluations", 1);
                let os = out.logits().to_vec();
                let oi = out.indices().to_vec();
                let mut v = Vec::new();
                let mut zero_sign = 0;
                match f {
                    F::TopK(k) => oracle_topk(*k, &is, &ii, &os, &oi, &mut v, &mut zero_sign),
                    F::TopP { p, mode } => oracle_topp(*p, *mode, &is, &ii, &os, &oi, &mut v, l),
                    F::Temp(t) => oracle_temp(*t, &is, &ii, &os, &oi, &mut v),
                    F::Sort => oracle_sort(&is, &ii, &os, &oi, &mut v),
                    F::EvenIds => oracle_even(&is, &ii, &os, &oi, &mut v),
                }
                if zero_sign > 0 {
                    l.add("obs_topk_zero_sign_differs_from_total_cmp", 1);
                }
                for (sig, detail) in v {
                    l.sink.add(
                        &sig,
                        || case.to_json(),
                        || format!("{} on input {} ids {:?} -> scores {} ids {:?}: {detail}", f.show(), show_vec(&is), ii, show_vec(&os), oi),
                    );
                }
                // non-trivial: the filter did something and left something
                if !os.is_empty() && !same_logits(&cur, &out) {
                    l.add("nontrivial", 1);
                    let mut bytes = Vec::with_capacity(8 + 8 * os.len());
                    bytes.extend_from_slice(f.name().as_bytes());
                    for (id, s) in oi.iter().zip(&os) {
                        bytes.extend_from_slice(&id.to_le_bytes());
                        bytes.extend_from_slice(&s.to_bits().to_le_bytes());
                    }
                    l.distinct.add(&bytes);
                }
                cur = out;
            }
        }
    }
    // Chain plumbing: Chain(f1..fm)(x0) must equal the step-by-step result.
    if case.filters.len() != 1 {
        let mut chain = Chain::new();
        for f in &case.filters {
            chain = f.append_to(chain);
        }
        let inp = x0.clone();
        match vp_core::catch(|| chain.filter(inp, &[])) {
            Err(msg) => {
                if steps_ok {
                    l.sink.add(
                        "Chain::filter panics although applying its members one by one does not",
                        || case.to_json(),
                        || format!("chain panicked: {msg}"),
                    );
                }
            }
            Ok(out) => {
                l.add("chain_evaluations", 1);
                if !steps_ok {
                    l.sink.add(
                        "Chain::filter returns although a member panics when applied alone",
                        || case.to_json(),
                        || "inconsistent".to_string(),
                    );
                } else if !same_logits(&out, &cur) {
                    l.sink.add(
                        "Chain::filter differs from the composition of its members",
                        || case.to_json(),
                        || {
                            format!(
                                "chain -> {} {:?}; composition -> {} {:?}",
                                show_vec(out.logits()),
                                out.indices(),
                                show_vec(cur.logits()),
                                cur.indices()
                            )
                        },
                    );
                }
            }
        }
    }
    if steps_ok { Some(cur) } else { None }
}

// ---------------------------------------------------------------------------
// Boxes
// ---------------------------------------------------------------------------

fn p_set() -> Vec<f32> {
    // most ordinary thresholds first (enumeration order decides which counterexample is stored)
    vec![0.5, 0.9, 0.75, 0.25, 0.1, 1.0, 1.0 - f32::EPSILON / 2.0, f32::MIN_POSITIVE, 0.0]
}

/// Every vector of length 0..=max_len over `values`, shortest first.
fn all_vectors(values: &[f32], max_len: usize) -> Vec<Vec<f32>> {
    let mut out = Vec::new();
    for len in 0..=max_len {
        for idx in vp_core::odometer::sequences(values.len(), len) {
            out.push(idx.iter().map(|i| values[*i]).collect());
        }
    }
    out
}

/// Box B: structured long vectors (several SIMD widths).
fn long_vectors(max_len: usize) -> Vec<Vec<f32>> {
    let mut out = Vec::new();
    for n in 0..=max_len {
        // strictly increasing, rotated by every offset
        for r in 0..n.max(1) {
            out.push((0..n).map(|i| ((i + r) % n.max(1)) as f32 * 0.5).collect());
        }
        if n == 0 {
            continue;
        }
        // all equal
        out.push(vec![1.0; n]);
        // one special value at every position of three base patterns
        let bases: [Box<dyn Fn(usize) -> f32>; 3] =
            [Box::new(|i| i as f32 * 0.5), Box::new(move |i| (n - i) as f32 * 0.5), Box::new(|_| 2.0)];
        for base in bases.iter() {
            for special in [f32::NAN, f32::INFINITY, f32::NEG_INFINITY, 1000.0, -1000.0] {
                for pos in 0..n {
                    let mut v: Vec<f32> = (0..n).map(|i| base(i)).collect();
                    v[pos] = special;
                    out.push(v);
                }
            }
        }
    }
    out
}

fn single_filters_for(n: usize, with_topk: bool, with_misc: bool) -> Vec<F> {
    let mut fs = Vec::new();
    if with_topk {
        for k in 0..=n + 2 {
            fs.push(F::TopK(k));
        }
    }
    for p in p_set() {
        for mode in 0..3u8 {
            fs.push(F::TopP { p, mode });
        }
    }
    if with_misc {
        for t in [0.0f32, 0.5, 1.0, 2.0] {
            fs.push(F::Temp(t));
        }
        fs.push(F::Sort);
        fs.push(F::EvenIds);
    }
    fs
}

fn chain_alphabet() -> Vec<F> {
    let mut a = Vec::new();
    for k in [0usize, 1, 2, 3, 7] {
        a.push(F::TopK(k));
    }
    for mode in [0u8, 2] {
        for p in [0.0f32, 0.5, 0.9, 1.0] {
            a.push(F::TopP { p, mode });
        }
    }
    for t in [0.5f32, 1.0, 2.0] {
        a.push(F::Temp(t));
    }
    a.push(F::Sort);
    a.push(F::EvenIds);
    a
}

fn chains(max_len: usize) -> Vec<Vec<F>> {
    let a = chain_alphabet();
    let mut out = vec![vec![]]; // the empty chain
    for len in 2..=max_len {
        for idx in vp_core::odometer::sequences(a.len(), len) {
            out.push(idx.iter().map(|i| a[*i].clone()).collect());
        }
    }
    out
}

struct Phase<'a> {
    name: &'static str,
    inputs: &'a [Vec<f32>],
    /// filter chains to run on an input of length n
    filters: Box<dyn Fn(usize) -> Vec<Vec<F>> + Sync + 'a>,
}

fn run_phase(ph: &Phase, isa: u8, all_samples: &Samples) -> Local {
    // at most two written-out cases per (box, ISA)
    let samples = Samples::new(2);
    let samples = &samples;
    const CHUNK: usize = 64;
    let nchunks = ph.inputs.len().div_ceil(CHUNK);
    let locals = vp_core::par::map(nchunks, |c| {
        let mut l = Local::default();
        let lo = c * CHUNK;
        let hi = (lo + CHUNK).min(ph.inputs.len());
        for scores in &ph.inputs[lo..hi] {
            let fsets = (ph.filters)(scores.len());
            for filters in fsets {
                for (dense, ends) in [(true, false), (false, false), (false, true)] {
                    let case = Case { filters: filters.clone(), scores: scores.clone(), dense, ends, isa };
                    let out = run_case(&case, &mut l);
                    if c == nchunks / 2 || c == nchunks - 1 {
                        if let Some(out) = out {
                            if !out.is_empty() && out.len() < scores.len() {
                                samples.push(|| {
                                    json!({
                                        "box": ph.name,
                                        "filters": case.filters.iter().map(|f| f.show()).collect::<Vec<_>>(),
                                        "scores": show_vec(&case.scores),
                                        "dense": dense,
                                        "isa": util::ISA_NAMES[isa as usize],
                                        "out_scores": show_vec(out.logits()),
                                        "out_ids": out.indices(),
                                    })
                                });
                            }
                        }
                    }
                }
            }
        }
        l
    });
    let mut total = Local::default();
    for l in locals {
        total.merge(l);
    }
    for s in samples.take() {
        all_samples.push(|| s);
    }
    total
}

fn recheck(case: &Json) -> Vec<String> {
    let Some(c) = Case::from_json(case) else { return vec![] };
    util::set_isa(c.isa);
    let mut l = Local::default();
    run_case(&c, &mut l);
    util::set_isa(0);
    l.sink.map.keys().cloned().collect()
}

pub fn run(ctx: Ctx) -> ! {
    if let Some(path) = ctx.replay.clone() {
        let case = vp_core::read_replay_case(&path);
        let Some(c) = Case::from_json(&case) else { ctx.machinery("C31 replay: cannot parse case") };
        util::set_isa(c.isa);
        let mut l = Local::default();
        let out = run_case(&c, &mut l);
        println!(
            "replay: {:?} on {} -> {}",
            c.filters.iter().map(|f| f.show()).collect::<Vec<_>>(),
            show_vec(&c.scores),
            out.map(|o| format!("{} ids {:?}", show_vec(o.logits()), o.indices())).unwrap_or("<panic>".into())
        );
        for (sig, (case, detail, _)) in l.sink.map {
            ctx.violation(sig, case, detail);
        }
        ctx.finish(
            "exploration",
            json!({"evaluations": 1, "distinct_nontrivial": 2, "rule": "replay of one stored case", "samples": [case], "exhaustive": false}),
            assumptions(),
        );
    }

    let thorough = ctx.tier.is_thorough();
    let v7 = [0.0, 1.0, -1.0, 0.5, f32::NEG_INFINITY, f32::INFINITY, f32::NAN];
    let v9 = [0.0, 1.0, -1.0, 0.5, -0.0, f32::NEG_INFINITY, f32::INFINITY, f32::NAN, -f32::NAN];
    let dy = [0.0f32, 0.0625, 0.125, 0.25, 0.5, 1.0];
    let box_a = if thorough { all_vectors(&v9, 6) } else { all_vectors(&v7, 5) };
    let box_d = all_vectors(&dy, if thorough { 7 } else { 5 });
    let box_b = long_vectors(if thorough { 80 } else { 48 });
    let box_c = all_vectors(&v7, 4);
    let box_c2 = all_vectors(&v7, if thorough { 5 } else { 2 });
    let chains2 = chains(2);
    let chains3 = chains(3);

    let phases: Vec<Phase> = vec![
        Phase {
            name: "A: all vectors over special values x every single filter",
            inputs: &box_a,
            filters: Box::new(|n| single_filters_for(n, true, true).into_iter().map(|f| vec![f]).collect()),
        },
        Phase {
            name: "D: all dyadic probability vectors x TopP (exact threshold oracle)",
            inputs: &box_d,
            filters: Box::new(|n| single_filters_for(n, false, false).into_iter().map(|f| vec![f]).collect()),
        },
        Phase {
            name: "B: structured vectors of every length up to several SIMD widths x TopK(all K)/TopP/Sort",
            inputs: &box_b,
            filters: Box::new(|n| {
                let mut fs: Vec<Vec<F>> = single_filters_for(n, true, false).into_iter().map(|f| vec![f]).collect();
                fs.push(vec![F::Sort]);
                fs
            }),
        },
        Phase {
            name: "C: every chain of <=2 filters (and the empty chain)",
            inputs: if thorough { &box_c2 } else { &box_c },
            filters: Box::new(|_| chains2.clone()),
        },
        Phase {
            name: "C3: every chain of 3 filters",
            inputs: if thorough { &box_c } else { &box_c2 },
            filters: Box::new(|_| chains3.iter().filter(|c| c.len() == 3).cloned().collect()),
        },
    ];

    let samples = Samples::new(40);
    let mut total = Local::default();
    let mut per_phase = Vec::new();
    let isas: Vec<u8> = vec![0, 1, 2];
    for (pi, ph) in phases.iter().enumerate() {
        for &isa in &isas {
            // quick tier: chains (pure plumbing + the same kernels) on the native ISA only
            if !thorough && pi >= 3 && isa != 0 {
                continue;
            }
            util::set_isa(isa);
            let t0 = ctx.elapsed_s();
            let l = run_phase(ph, isa, &samples);
            per_phase.push(json!({
                "box": ph.name,
                "isa": util::ISA_NAMES[isa as usize],
                "inputs": ph.inputs.len(),
                "cases": l.counts.get("cases").copied().unwrap_or(0),
                "filter_calls_judged": l.counts.get("evaluations").copied().unwrap_or(0),
                "panics": l.counts.get("panics").copied().unwrap_or(0),
                "seconds": ((ctx.elapsed_s() - t0) * 100.0).round() / 100.0,
            }));
            total.merge(l);
        }
    }
    util::set_isa(0);

    let get = |k: &str| total.counts.get(k).copied().unwrap_or(0);
    let evaluations = get("evaluations");
    let distinct = total.distinct.len() as u64;
    if evaluations == 0 || distinct < 2 || get("topp_threshold_checked") == 0 || get("chain_evaluations") == 0 {
        ctx.machinery("C31: vacuous run (no filter call reached the oracle)");
    }
    for (k, v) in &total.counts {
        if k.starts_with("obs_") {
            ctx.observe_n(k, *v);
        }
    }
    if !default_topp_normalizes() {
        ctx.observe("TopP::new(p) does not normalize (normalize=false) although the doc comment of TopP::normalize says 'This is true by default'; Chain::top_p therefore sums raw scores (doc/code mismatch, not a C31 clause)");
    }
    let counts = json!(total.counts);
    let sink = std::mem::take(&mut total.sink);
    util::flush(&ctx, vec![sink], recheck);

    println!(
        "C31 summary: cases={} filter_calls_judged={} panics={} chain_calls={} topp_threshold_checked={} distinct_outputs={} violations={}",
        get("cases"),
        evaluations,
        get("panics"),
        get("chain_evaluations"),
        get("topp_threshold_checked"),
        distinct,
        ctx.violation_count()
    );
    let coverage = json!({
        "evaluations": evaluations,
        "distinct_nontrivial": distinct,
        "rule": "a case = (filter chain, logit vector, dense|sparse-permuted ids, forced SIMD ISA), enumerated completely from the listed boxes; \
                 evaluations = real filter calls that returned and were judged by the reference; non-trivial = the filter returned a non-empty result \
                 different from its input; distinct_nontrivial = number of distinct (filter kind, output ids, output score bits) among those",
        "exhaustive": true,
        "axes": {
            "box_A_values": if thorough { show_vec(&v9) } else { show_vec(&v7) },
            "box_A_max_len": if thorough { 6 } else { 5 },
            "box_A_vectors": box_a.len(),
            "box_D_values": show_vec(&dy),
            "box_D_vectors": box_d.len(),
            "box_B_max_len": if thorough { 80 } else { 48 },
            "box_B_vectors": box_b.len(),
            "box_C_vectors_len2_chains": if thorough { box_c2.len() } else { box_c.len() },
            "box_C_vectors_len3_chains": if thorough { box_c.len() } else { box_c2.len() },
            "K": "0..=n+2 for every input length n",
            "P": p_set().iter().map(|p| format!("{p:e}")).collect::<Vec<_>>(),
            "TopP_modes": MODE_NAMES,
            "TopP_new_default_normalizes(queried)": default_topp_normalizes(),
            "temperature": [0.0, 0.5, 1.0, 2.0],
            "chain_alphabet": chain_alphabet().iter().map(|f| f.show()).collect::<Vec<_>>(),
            "chains_len_le2": chains2.len(),
            "chains_len3": chains3.len() - chains2.len(),
            "id_layouts": ["dense", "sparse ids 100+(n-1-i)", "sparse unordered ids [0, 2n-1, ..., n+1, n-1] (first and last id look dense)"],
            "isa": util::ISA_NAMES,
        },
        "per_phase": per_phase,
        "counts": counts,
        "samples": samples.take(),
    });
    ctx.finish("exploration", coverage, assumptions());
}

fn assumptions() -> Vec<String> {
    vec![
        "Reading of 'total order': f32::total_cmp, except that -0.0 and +0.0 are treated as a tie (a sign-of-zero difference is counted as an observation, not a violation).".into(),
        "TopK: exactly min(K,n) (id,score) pairs of the input, scores equal position by position to the first min(K,n) entries of the total_cmp-descending sort; which of several tied candidates is kept is free.".into(),
        "TopP: judged as a set. Non-empty for non-empty input; kept set is a highest-mass prefix; its size k lies between the first prefix reaching P-eps and the first reaching P+eps (eps=0 for normalize(false), where the dyadic box makes all sums exact; eps=1e-5 against an f64 softmax otherwise); P is clamped to f32::MIN_POSITIVE as the in-tree test pins; P==1.0 may return everything (pinned by the in-tree test). The threshold clause is only judged when all masses are finite; for NaN/inf masses only the structural clauses and 'no panic' are judged.".into(),
        "TopP::new(p) without .normalize(..) is judged with the semantics the constructed filter actually implements (queried by a probe call: scores returned unchanged => normalize(false), probabilities => normalize(true)); C31 does not fix the default. A mismatch with the doc comment ('This is true by default') is recorded as an observation only.".into(),
        "With normalisation the returned scores are probabilities, not logits; this is not judged.".into(),
        "Chain: Chain(f1..fm).filter(x) must be bit-identical to fm(..f1(x)) computed with the real member filters, and every member is judged on the input it actually received.".into(),
        "A panic inside any LogitsFilter::filter call is a violation (statement: 'No filter panics'). Constructor assertions (Temperature::new(t<0), Logits::sparse length mismatch) are outside the statement.".into(),
        "SIMD ISA is forced through rten_simd::verif::force_isa (native = AVX-512 on this machine, generic, AVX2).".into(),
    ]
}
