//! C32 — the generator feeds the model a consistent token history.
//!
//! Explicit-state history exploration (style A). A state is the history that
//! reaches it: every history is re-executed from scratch on a fresh real
//! `rten_generate::Generator` that drives a mock `rten_generate::model::Model`.
//! The mock behaves like a tiny transformer with a position-stamped KV cache and
//! logs every run; a pure reference model (`Ref`) predicts what the model must
//! receive and what `prev_tokens()` must be.

use std::cell::{Cell, RefCell};
use std::collections::{BTreeMap, HashMap, HashSet};
use std::error::Error;

use rten::{Dimension, NodeId, RunOptions, Value, ValueOrView, ValueView};
use rten_generate::model::{Model, NodeInfo};
use rten_generate::{Generator, GeneratorConfig, ModelInputsConfig};
use rten_tensor::Tensor;
use rten_tensor::prelude::*;
use vp_core::{Ctx, Json, Samples, explore, json};

use crate::util::{self, Sink};

// ---------------------------------------------------------------------------
// Configuration axis
// ---------------------------------------------------------------------------

#[derive(Clone, Copy, Debug, PartialEq, Eq, Hash)]
pub enum Kind {
    NoKv,
    Decoder,
    EncDec,
}

#[derive(Clone, Copy, Debug, PartialEq, Eq, Hash)]
pub struct Cfg {
    pub kind: Kind,
    /// KV cache layout [batch, heads, seq, chans] (true) or [batch, seq, chans]
    pub four_d: bool,
    pub capacity: Option<usize>,
}

impl Cfg {
    fn name(&self) -> String {
        match self.kind {
            Kind::NoKv => "no-kv-cache".to_string(),
            k => format!(
                "{}-{}-cap{}",
                if k == Kind::Decoder { "decoder-kv" } else { "encoder-decoder-kv" },
                if self.four_d { "4d" } else { "3d" },
                self.capacity.map(|c| c.to_string()).unwrap_or("none".into())
            ),
        }
    }
    fn to_json(&self) -> Json {
        json!({
            "kind": match self.kind { Kind::NoKv => "nokv", Kind::Decoder => "decoder", Kind::EncDec => "encdec" },
            "four_d": self.four_d,
            "capacity": self.capacity,
        })
    }
    fn from_json(j: &Json) -> Option<Cfg> {
        Some(Cfg {
            kind: match j["kind"].as_str()? {
                "nokv" => Kind::NoKv,
                "decoder" => Kind::Decoder,
                "encdec" => Kind::EncDec,
                _ => return None,
            },
            four_d: j["four_d"].as_bool()?,
            capacity: j["capacity"].as_u64().map(|c| c as usize),
        })
    }
}

/// Most typical configuration first (shards are merged in this order, so the
/// stored counterexample of a signature comes from the first configuration that shows it).
fn configs() -> Vec<Cfg> {
    let mut v = Vec::new();
    for kind in [Kind::Decoder, Kind::EncDec] {
        for four_d in [true, false] {
            for capacity in [None, Some(2), Some(8)] {
                v.push(Cfg { kind, four_d, capacity });
            }
        }
    }
    v.push(Cfg { kind: Kind::NoKv, four_d: true, capacity: None });
    v
}

const LAYERS: usize = 2;
const HEADS: usize = 2;
const EMBED: usize = 2;
const VOCAB: usize = 32;
const ENC_LEN: usize = 3;

// ---------------------------------------------------------------------------
// Actions
// ---------------------------------------------------------------------------

#[derive(Clone, Copy, Debug, PartialEq, Eq, Hash)]
pub enum Act {
    WithPrompt,
    Append1,
    Append2,
    Next,
    Process,
    Clear,
}

/// Simplest first; `with_prompt` in the middle of a history (the documentation
/// recommends `append_prompt` there) comes last.
const ACTS: [Act; 6] = [Act::Append1, Act::Next, Act::Process, Act::Clear, Act::Append2, Act::WithPrompt];

impl Act {
    fn name(self) -> &'static str {
        match self {
            Act::WithPrompt => "with_prompt([1,2])",
            Act::Append1 => "append_prompt([3])",
            Act::Append2 => "append_prompt([4,5])",
            Act::Next => "next()",
            Act::Process => "process_prompt()",
            Act::Clear => "clear_prompt()",
        }
    }
    fn from_name(s: &str) -> Option<Act> {
        ACTS.iter().copied().find(|a| a.name() == s)
    }
    fn tokens(self) -> &'static [u32] {
        match self {
            Act::WithPrompt => &[1, 2],
            Act::Append1 => &[3],
            Act::Append2 => &[4, 5],
            _ => &[],
        }
    }
}

fn hist_json(h: &[Act]) -> Json {
    json!(h.iter().map(|a| a.name()).collect::<Vec<_>>())
}

// ---------------------------------------------------------------------------
// Mock model
// ---------------------------------------------------------------------------

#[derive(Clone, Debug, PartialEq)]
struct Snap {
    shape: Vec<usize>,
    /// logical (row-major) order
    data: Vec<f32>,
}

struct KvEntry {
    input: NodeId,
    output: NodeId,
    encoder: bool,
}

#[derive(Clone, Debug, Default)]
struct KvIn {
    present: bool,
    owned: bool,
    matches_last_out: bool,
    seq_len: usize,
    /// (token, position) pairs decoded from the stamps of head 0 / channel 0
    decoded: Vec<(u32, u32)>,
    stamps_consistent: bool,
    ptr_same_as_last_out: bool,
}

#[derive(Clone, Debug, Default)]
struct RunLog {
    problems: Vec<String>,
    tokens: Vec<i32>,
    position_ids: Vec<i32>,
    cache_position: Vec<i32>,
    mask_shape: Vec<usize>,
    mask_all_ones: bool,
    use_cache: Option<i32>,
    kv_in: Vec<KvIn>,
    want_logits: bool,
    produced: Option<u32>,
    appended_in_place: u32,
}

struct Mock {
    cfg: Cfg,
    nodes: Vec<NodeInfo>,
    input_ids: Vec<NodeId>,
    n_inputs: usize,
    id_tokens: NodeId,
    id_mask: NodeId,
    id_pos: NodeId,
    id_cache_pos: NodeId,
    id_use_cache: Option<NodeId>,
    id_logits: NodeId,
    kv: Vec<KvEntry>,
    log: RefCell<Vec<RunLog>>,
    last_out: RefCell<Vec<Option<(Snap, usize)>>>,
    enc_generation: Cell<u32>,
}

fn stamp(entry: usize, pos: u32, tok: u32, head: usize, chan: usize) -> f32 {
    ((((entry as u32 * 64 + pos) * 64 + tok) * 4) + (head * 2 + chan) as u32) as f32
}

/// Deterministic "language model": the next token as a function of the whole
/// context (tokens in order). Generated tokens are >= 8, prompt tokens are < 8.
fn next_token(context: &[u32]) -> u32 {
    let s: u32 = context.iter().enumerate().map(|(i, t)| (i as u32 + 1) * *t).sum();
    8 + (s + context.len() as u32) % (VOCAB as u32 - 8)
}

impl Mock {
    fn new(cfg: Cfg) -> Mock {
        let plain = |n: &str| NodeInfo::from_name_shape(n, &[]);
        let mut inputs = vec![plain("input_ids"), plain("attention_mask"), plain("position_ids"), plain("cache_position")];
        let mut outputs = vec![plain("logits")];
        let mut kv_names: Vec<(String, String, bool)> = Vec::new();
        let dims: Vec<Dimension> = if cfg.four_d {
            vec![
                Dimension::Symbolic("batch".into()),
                Dimension::Fixed(HEADS),
                Dimension::Symbolic("seq".into()),
                Dimension::Fixed(EMBED),
            ]
        } else {
            vec![Dimension::Symbolic("batch".into()), Dimension::Symbolic("seq".into()), Dimension::Fixed(EMBED)]
        };
        for layer in 0..LAYERS {
            match cfg.kind {
                Kind::NoKv => {}
                Kind::Decoder => {
                    for kv in ["key", "value"] {
                        kv_names.push((
                            format!("past_key_values.{layer}.{kv}"),
                            format!("present.{layer}.{kv}"),
                            false,
                        ));
                    }
                }
                Kind::EncDec => {
                    for (part, enc) in [("decoder", false), ("encoder", true)] {
                        for kv in ["key", "value"] {
                            kv_names.push((
                                format!("past_key_values.{layer}.{part}.{kv}"),
                                format!("present.{layer}.{part}.{kv}"),
                                enc,
                            ));
                        }
                    }
                }
            }
        }
        for (i, o, _) in &kv_names {
            inputs.push(NodeInfo::from_name_shape(i, &dims));
            outputs.push(NodeInfo::from_name_shape(o, &dims));
        }
        if cfg.kind == Kind::EncDec {
            inputs.push(plain("use_cache_branch"));
        }
        let n_inputs = inputs.len();
        let nodes: Vec<NodeInfo> = inputs.into_iter().chain(outputs).collect();
        let find = |name: &str| {
            NodeId::from_u32(nodes.iter().position(|n| n.name() == name).expect("mock node") as u32)
        };
        let kv = kv_names
            .iter()
            .map(|(i, o, enc)| KvEntry { input: find(i), output: find(o), encoder: *enc })
            .collect::<Vec<_>>();
        let n_kv = kv.len();
        Mock {
            cfg,
            input_ids: (0..n_inputs as u32).map(NodeId::from_u32).collect(),
            n_inputs,
            id_tokens: find("input_ids"),
            id_mask: find("attention_mask"),
            id_pos: find("position_ids"),
            id_cache_pos: find("cache_position"),
            id_use_cache: if cfg.kind == Kind::EncDec { Some(find("use_cache_branch")) } else { None },
            id_logits: find("logits"),
            kv,
            nodes,
            log: RefCell::new(Vec::new()),
            last_out: RefCell::new(vec![None; n_kv]),
            enc_generation: Cell::new(0),
        }
    }

    fn seq_axis(&self) -> usize {
        if self.cfg.four_d { 2 } else { 1 }
    }
    fn heads(&self) -> usize {
        if self.cfg.four_d { HEADS } else { 1 }
    }
    fn kv_shape(&self, seq: usize, embed: usize) -> Vec<usize> {
        if self.cfg.four_d { vec![1, HEADS, seq, embed] } else { vec![1, seq, embed] }
    }
}

fn i32_input(v: &ValueOrView, what: &str, problems: &mut Vec<String>) -> (Vec<usize>, Vec<i32>) {
    match v.as_view() {
        ValueView::Int32Tensor(t) => (t.shape().to_vec(), t.iter().copied().collect()),
        _ => {
            problems.push(format!("{what} is not an int32 tensor"));
            (vec![], vec![])
        }
    }
}

impl Model for Mock {
    fn find_node(&self, name: &str) -> Option<NodeId> {
        self.nodes.iter().position(|n| n.name() == name).map(|p| NodeId::from_u32(p as u32))
    }

    fn node_info(&self, id: NodeId) -> Option<NodeInfo> {
        self.nodes.get(id.as_usize()).cloned()
    }

    fn input_ids(&self) -> &[NodeId] {
        &self.input_ids
    }

    fn run(
        &self,
        inputs: Vec<(NodeId, ValueOrView)>,
        outputs: &[NodeId],
        _opts: Option<RunOptions>,
    ) -> Result<Vec<Value>, Box<dyn Error>> {
        let mut log = RunLog::default();
        let mut by_id: HashMap<NodeId, ValueOrView> = HashMap::new();
        for (id, v) in inputs {
            if id.as_usize() >= self.n_inputs {
                log.problems.push(format!("value supplied for non-input node {}", id.as_u32()));
            }
            if by_id.insert(id, v).is_some() {
                log.problems.push(format!("input {} supplied twice", id.as_u32()));
            }
        }
        for id in &self.input_ids {
            if !by_id.contains_key(id) {
                log.problems.push(format!(
                    "input '{}' missing",
                    self.nodes[id.as_usize()].name()
                ));
            }
        }

        // Token ids and position inputs.
        let n_tokens;
        if let Some(v) = by_id.get(&self.id_tokens) {
            let (shape, data) = i32_input(v, "input_ids", &mut log.problems);
            if shape.len() != 2 || shape[0] != 1 {
                log.problems.push(format!("input_ids has shape {shape:?}, expected [1, n]"));
            }
            log.tokens = data;
        }
        n_tokens = log.tokens.len();
        if let Some(v) = by_id.get(&self.id_pos) {
            let (shape, data) = i32_input(v, "position_ids", &mut log.problems);
            if shape != [1, n_tokens] {
                log.problems.push(format!("position_ids has shape {shape:?}, expected [1, {n_tokens}]"));
            }
            log.position_ids = data;
        }
        if let Some(v) = by_id.get(&self.id_cache_pos) {
            let (shape, data) = i32_input(v, "cache_position", &mut log.problems);
            if shape != [n_tokens] {
                log.problems.push(format!("cache_position has shape {shape:?}, expected [{n_tokens}]"));
            }
            log.cache_position = data;
        }
        if let Some(v) = by_id.get(&self.id_mask) {
            let (shape, data) = i32_input(v, "attention_mask", &mut log.problems);
            log.mask_all_ones = data.iter().all(|x| *x == 1);
            log.mask_shape = shape;
        }
        if let Some(id) = self.id_use_cache {
            if let Some(v) = by_id.get(&id) {
                let (shape, data) = i32_input(v, "use_cache_branch", &mut log.problems);
                if !shape.is_empty() || data.len() != 1 {
                    log.problems.push(format!("use_cache_branch has shape {shape:?}, expected scalar"));
                }
                log.use_cache = data.first().copied();
            }
        }

        // KV cache inputs.
        let mut kv_values: Vec<Option<ValueOrView>> = Vec::new();
        let mut kv_snaps: Vec<Snap> = Vec::new();
        {
            let last_out = self.last_out.borrow();
            for (e, entry) in self.kv.iter().enumerate() {
                let mut k = KvIn::default();
                let v = by_id.remove(&entry.input);
                let mut snap = Snap { shape: self.kv_shape(0, EMBED), data: vec![] };
                if let Some(v) = &v {
                    k.present = true;
                    k.owned = matches!(v, ValueOrView::Value(_));
                    match v.as_view() {
                        ValueView::FloatTensor(t) => {
                            snap = Snap { shape: t.shape().to_vec(), data: t.iter().copied().collect() };
                            let ptr = t.data_ptr() as usize;
                            k.ptr_same_as_last_out = last_out[e].as_ref().map(|(_, p)| *p == ptr).unwrap_or(false);
                        }
                        _ => log.problems.push(format!("kv input {e} is not a float tensor")),
                    }
                }
                let expect_rank = if self.cfg.four_d { 4 } else { 3 };
                if snap.shape.len() != expect_rank
                    || snap.shape[0] != 1
                    || (self.cfg.four_d && snap.shape[1] != HEADS)
                    || *snap.shape.last().unwrap() != EMBED
                {
                    log.problems.push(format!("kv input {e} has shape {:?}", snap.shape));
                }
                k.seq_len = snap.shape.get(self.seq_axis()).copied().unwrap_or(0);
                k.matches_last_out = match &last_out[e] {
                    Some((s, _)) => *s == snap,
                    // before the model returned anything: an empty cache of the declared geometry
                    None => k.seq_len == 0 && snap.data.is_empty(),
                };
                // decode stamps (decoder caches)
                k.stamps_consistent = true;
                if !entry.encoder && snap.shape.len() == expect_rank {
                    let s_len = k.seq_len;
                    for s in 0..s_len {
                        let raw = snap.data.get(s * EMBED).copied().unwrap_or(-1.0) as u32 / 4;
                        let tok = raw % 64;
                        let pos = (raw / 64) % 64;
                        k.decoded.push((tok, pos));
                        for h in 0..self.heads() {
                            for c in 0..EMBED {
                                let got = snap.data.get((h * s_len + s) * EMBED + c).copied().unwrap_or(-1.0);
                                if got != stamp(e, pos, tok, h, c) {
                                    k.stamps_consistent = false;
                                }
                            }
                        }
                    }
                }
                log.kv_in.push(k);
                kv_snaps.push(snap);
                kv_values.push(v);
            }
        }

        // The context the "network" sees.
        let mut context: Vec<u32> = Vec::new();
        if let Some(first_dec) = self.kv.iter().position(|e| !e.encoder) {
            context.extend(log.kv_in[first_dec].decoded.iter().map(|(t, _)| *t));
        }
        context.extend(log.tokens.iter().map(|t| *t as u32));

        // Outputs, in the requested order.
        let mut want: HashSet<u32> = HashSet::new();
        let mut result = Vec::new();
        let first_pass = log.use_cache.map(|f| f == 0).unwrap_or(true);
        if first_pass && self.cfg.kind == Kind::EncDec {
            self.enc_generation.set(self.enc_generation.get() + 1);
        }
        for out in outputs {
            if !want.insert(out.as_u32()) {
                log.problems.push(format!("output {} requested twice", out.as_u32()));
            }
            if *out == self.id_logits {
                log.want_logits = true;
                let tok = next_token(&context);
                let mut lg = Tensor::<f32>::zeros(&[1, n_tokens, VOCAB]);
                for i in 0..n_tokens {
                    let hot = if i + 1 == n_tokens { tok as usize } else { 0 };
                    lg[[0, i, hot]] = 1.0;
                }
                if n_tokens > 0 {
                    log.produced = Some(tok);
                }
                result.push(Value::FloatTensor(lg));
                continue;
            }
            let Some(e) = self.kv.iter().position(|k| k.output == *out) else {
                log.problems.push(format!("unknown output {} requested", out.as_u32()));
                result.push(Value::FloatTensor(Tensor::zeros(&[0])));
                continue;
            };
            let entry = &self.kv[e];
            if entry.encoder {
                let v = if first_pass {
                    let g = self.enc_generation.get();
                    let shape = self.kv_shape(ENC_LEN, EMBED);
                    let len: usize = shape.iter().product();
                    let data: Vec<f32> = (0..len).map(|i| (1_000_000 + g * 10_000 + e as u32 * 100 + i as u32) as f32).collect();
                    let t = Tensor::from_data(&shape, data);
                    self.last_out.borrow_mut()[e] =
                        Some((Snap { shape: shape.clone(), data: t.iter().copied().collect() }, t.data_ptr() as usize));
                    t
                } else {
                    // Optimum-style dummy on later passes; the generator must keep the first one.
                    Tensor::zeros(&self.kv_shape(ENC_LEN, 0))
                };
                result.push(Value::FloatTensor(v));
                continue;
            }
            // Decoder cache: input cache + one stamped entry per new token.
            let old = &kv_snaps[e];
            let s_old = log.kv_in[e].seq_len;
            let heads = self.heads();
            let new_shape = self.kv_shape(n_tokens, EMBED);
            let mut new_data = Vec::with_capacity(heads * n_tokens * EMBED);
            for h in 0..heads {
                for i in 0..n_tokens {
                    let pos = log.position_ids.get(i).copied().unwrap_or(63) as u32 % 64;
                    let tok = log.tokens[i] as u32 % 64;
                    for c in 0..EMBED {
                        new_data.push(stamp(e, pos, tok, h, c));
                    }
                }
            }
            let new_part = Tensor::from_data(&new_shape, new_data.clone());
            let axis = self.seq_axis();
            let mut produced: Option<Tensor<f32>> = None;
            if let Some(ValueOrView::Value(Value::FloatTensor(mut t))) = kv_values[e].take() {
                // Like rten's Concat on an owned KV cache: extend in place when there is capacity.
                if t.ndim() == new_part.ndim() && t.has_capacity(axis, s_old + n_tokens) && t.append(axis, &new_part).is_ok() {
                    log.appended_in_place += 1;
                    produced = Some(t);
                }
            }
            let t = produced.unwrap_or_else(|| {
                let shape = self.kv_shape(s_old + n_tokens, EMBED);
                let s_new = s_old + n_tokens;
                let mut data = Vec::with_capacity(heads * s_new * EMBED);
                for h in 0..heads {
                    for s in 0..s_new {
                        for c in 0..EMBED {
                            data.push(if s < s_old {
                                old.data.get((h * s_old + s) * EMBED + c).copied().unwrap_or(-7.0)
                            } else {
                                new_data[(h * n_tokens + (s - s_old)) * EMBED + c]
                            });
                        }
                    }
                }
                Tensor::from_data(&shape, data)
            });
            self.last_out.borrow_mut()[e] =
                Some((Snap { shape: t.shape().to_vec(), data: t.iter().copied().collect() }, t.data_ptr() as usize));
            result.push(Value::FloatTensor(t));
        }
        // Requested outputs must be all cache outputs (+ logits when generating).
        for k in &self.kv {
            if !want.contains(&k.output.as_u32()) {
                log.problems.push(format!("cache output '{}' not requested", self.nodes[k.output.as_usize()].name()));
            }
        }
        self.log.borrow_mut().push(log);
        Ok(result)
    }

    fn partial_run(
        &self,
        _inputs: Vec<(NodeId, ValueOrView)>,
        _outputs: &[NodeId],
        _opts: Option<RunOptions>,
    ) -> Result<Vec<(NodeId, Value)>, Box<dyn Error>> {
        Ok(Vec::new())
    }
}

// ---------------------------------------------------------------------------
// Reference model
// ---------------------------------------------------------------------------

#[derive(Clone, Copy, Debug, PartialEq, Eq, Hash)]
enum Tag {
    /// prompt token first submitted while the recorded history was still empty
    PromptFirst,
    /// prompt token first submitted after something had already been recorded
    PromptLater,
    Generated,
}

#[derive(Clone, Debug)]
struct Ref {
    has_kv: bool,
    /// tokens queued for the next run, with "already part of the stream" flag
    pending: Vec<(u32, bool)>,
    /// tokens the KV cache must hold, positions 0..
    consumed: Vec<u32>,
    /// every token submitted to or produced by the model, in order of first occurrence
    stream: Vec<(u32, Tag)>,
}

struct Expect {
    tokens: Vec<u32>,
    offset: usize,
}

impl Ref {
    fn new(kind: Kind) -> Ref {
        Ref { has_kv: kind != Kind::NoKv, pending: vec![], consumed: vec![], stream: vec![] }
    }
    fn with_prompt(&mut self, p: &[u32]) {
        self.pending = p.iter().map(|t| (*t, false)).collect();
    }
    fn append(&mut self, p: &[u32]) {
        self.pending.extend(p.iter().map(|t| (*t, false)));
    }
    fn clear(&mut self) {
        self.pending.clear();
    }
    fn expect_run(&self) -> Expect {
        Expect {
            tokens: self.pending.iter().map(|(t, _)| *t).collect(),
            offset: if self.has_kv { self.consumed.len() } else { 0 },
        }
    }
    /// A model run happened; `produced` is the token sampled from it, if any.
    fn apply_run(&mut self, produced: Option<u32>) {
        let tag = if self.stream.is_empty() { Tag::PromptFirst } else { Tag::PromptLater };
        for (t, recorded) in self.pending.iter_mut() {
            if !*recorded {
                self.stream.push((*t, tag));
                *recorded = true;
            }
        }
        if self.has_kv {
            self.consumed.extend(self.pending.iter().map(|(t, _)| *t));
            self.pending.clear();
        }
        if let Some(t) = produced {
            self.stream.push((t, Tag::Generated));
            self.pending.push((t, true));
        }
    }
    fn context(&self) -> Vec<u32> {
        let mut c = self.consumed.clone();
        c.extend(self.pending.iter().map(|(t, _)| *t));
        c
    }
}

/// Number of pending tokens after a history, by the reference alone (used to
/// decide which actions are enabled; `next()` needs at least one pending token).
fn pending_after(kind: Kind, hist: &[Act]) -> usize {
    let mut r = Ref::new(kind);
    for a in hist {
        match a {
            Act::WithPrompt => r.with_prompt(a.tokens()),
            Act::Append1 | Act::Append2 => r.append(a.tokens()),
            Act::Clear => r.clear(),
            Act::Process => r.apply_run(None),
            Act::Next => r.apply_run(Some(9)),
        }
    }
    r.pending.len()
}

// ---------------------------------------------------------------------------
// Executing one history on the real generator
// ---------------------------------------------------------------------------

pub const SIG_PREV_MISSING: &str = "Generator::prev_tokens omits prompt tokens submitted to the model after the first recorded step (append_prompt / with_prompt followed by next or process_prompt)";

#[derive(Default)]
struct Local {
    sink: Sink,
    counts: BTreeMap<String, u64>,
    keys: HashSet<u64>,
    outcomes: HashSet<u64>,
}

impl Local {
    fn add(&mut self, k: &str, n: u64) {
        *self.counts.entry(k.to_string()).or_insert(0) += n;
    }
    fn merge(&mut self, o: Local) {
        self.sink.merge(o.sink);
        for (k, v) in o.counts {
            *self.counts.entry(k).or_insert(0) += v;
        }
        self.keys.extend(o.keys);
        self.outcomes.extend(o.outcomes);
    }
}

struct Exec {
    /// canonical state key, None = prune (feeding/cache violation: model state is corrupt)
    key: Option<u64>,
    /// violations that appeared at the LAST action of the history
    viols: Vec<(String, String)>,
    trace: Vec<Json>,
}

fn ids_u32(v: &[i32]) -> Vec<u32> {
    v.iter().map(|x| *x as u32).collect()
}

fn exec(cfg: Cfg, hist: &[Act], l: &mut Local, want_trace: bool) -> Exec {
    let mock = Mock::new(cfg);
    let config = GeneratorConfig { model_inputs: ModelInputsConfig::default(), kv_cache_capacity: cfg.capacity };
    let mut g = match Generator::from_model_config(&mock, config) {
        Ok(g) => g,
        Err(e) => vp_core::machinery_error(&format!("C32: mock model rejected by Generator::from_model_config: {e}")),
    };
    let mut r = Ref::new(cfg.kind);
    let mut viols: Vec<(String, String)> = Vec::new();
    let mut corrupt = false;
    let mut trace = Vec::new();
    let kind_name = match cfg.kind {
        Kind::NoKv => "model without KV cache",
        Kind::Decoder => "decoder KV cache",
        Kind::EncDec => "encoder-decoder KV cache",
    };

    for (step, a) in hist.iter().enumerate() {
        let last = step + 1 == hist.len();
        let mut step_viols: Vec<(String, String)> = Vec::new();
        let runs_before = mock.log.borrow().len();
        let mut returned: Option<String> = None;
        match a {
            Act::WithPrompt => {
                g = g.with_prompt(a.tokens());
                r.with_prompt(a.tokens());
            }
            Act::Append1 | Act::Append2 => {
                g.append_prompt(a.tokens());
                r.append(a.tokens());
            }
            Act::Clear => {
                g.clear_prompt();
                r.clear();
            }
            Act::Next | Act::Process => {
                let generate = *a == Act::Next;
                let exp = r.expect_run();
                let expected_token = next_token(&r.context());
                // Result of the real call: Ok(Some(token)) / Ok(None) / Err(text) / panic
                let res: Result<Result<Option<u32>, String>, String> = vp_core::catch(|| {
                    if generate {
                        match g.next() {
                            Some(Ok(t)) => Ok(Some(t)),
                            Some(Err(e)) => Err(e.to_string()),
                            None => Err("iterator ended".to_string()),
                        }
                    } else {
                        g.process_prompt().map(|_| None).map_err(|e| e.to_string())
                    }
                });
                let log = mock.log.borrow();
                let new_runs = log.len() - runs_before;
                if new_runs != 1 {
                    step_viols.push((
                        format!("Generator runs the model {new_runs} times for one step ({kind_name})"),
                        format!("expected exactly one model run for {}", a.name()),
                    ));
                    corrupt = true;
                }
                if let Some(run) = log.last().filter(|_| new_runs >= 1) {
                    if !run.problems.is_empty() {
                        step_viols.push((
                            format!("Generator calls the model with malformed inputs/outputs ({kind_name})"),
                            run.problems.join("; "),
                        ));
                        corrupt = true;
                    }
                    let got = ids_u32(&run.tokens);
                    if got != exp.tokens {
                        step_viols.push((
                            format!("model does not receive exactly the pending tokens ({kind_name})"),
                            format!("expected input_ids {:?}, model received {:?}", exp.tokens, got),
                        ));
                        corrupt = true;
                    }
                    let n = got.len();
                    let want_pos: Vec<i32> = (exp.offset..exp.offset + n).map(|p| p as i32).collect();
                    let pos_ok = run.position_ids == want_pos
                        && run.cache_position == want_pos
                        && run.mask_shape == [1, exp.offset + n]
                        && run.mask_all_ones;
                    if !pos_ok {
                        step_viols.push((
                            format!("position inputs are not the contiguous range after the consumed tokens ({kind_name})"),
                            format!(
                                "expected positions {:?} and mask [1,{}]; got position_ids {:?} cache_position {:?} mask {:?} all_ones={}",
                                want_pos,
                                exp.offset + n,
                                run.position_ids,
                                run.cache_position,
                                run.mask_shape,
                                run.mask_all_ones
                            ),
                        ));
                        corrupt = true;
                    }
                    if cfg.kind == Kind::EncDec {
                        let want_flag = if exp.offset == 0 { 0 } else { 1 };
                        if run.use_cache != Some(want_flag) {
                            step_viols.push((
                                "use_cache_branch flag does not say whether tokens were already consumed".to_string(),
                                format!("expected {want_flag}, got {:?}", run.use_cache),
                            ));
                            corrupt = true;
                        }
                    }
                    for (e, k) in run.kv_in.iter().enumerate() {
                        let enc = mock.kv[e].encoder;
                        if !k.present {
                            continue; // already listed in problems
                        }
                        if !k.matches_last_out {
                            step_viols.push((
                                format!(
                                    "{} KV cache passed to the model is not the one it last returned ({kind_name})",
                                    if enc { "encoder" } else { "decoder" }
                                ),
                                format!("cache entry {e}: seq_len {} decoded {:?}", k.seq_len, k.decoded),
                            ));
                            corrupt = true;
                        }
                        if !enc {
                            let want: Vec<(u32, u32)> =
                                r.consumed.iter().enumerate().map(|(p, t)| (*t, p as u32)).collect();
                            if k.decoded != want || !k.stamps_consistent {
                                step_viols.push((
                                    format!("decoder KV cache content is not the consumed stream at positions 0.. ({kind_name})"),
                                    format!("cache entry {e}: expected (token,pos) {want:?}, cache holds {:?}", k.decoded),
                                ));
                                corrupt = true;
                            }
                            if k.owned {
                                l.add("obs_decoder_cache_passed_owned", 1);
                            } else {
                                l.add("obs_decoder_cache_passed_as_view", 1);
                            }
                            if k.ptr_same_as_last_out {
                                l.add("obs_cache_buffer_identical_to_last_returned", 1);
                            }
                        }
                    }
                    if run.want_logits != generate {
                        step_viols.push((
                            "logits output requested on process_prompt / not requested on next".to_string(),
                            format!("want_logits={}", run.want_logits),
                        ));
                    }
                    l.add("model_runs_judged", 1);
                    l.add("obs_cache_appended_in_place", run.appended_in_place as u64);
                }
                let produced_by_mock = log.last().and_then(|r| r.produced);
                drop(log);
                match res {
                    Err(p) => {
                        step_viols.push((
                            format!("Generator panics during {} with a well-behaved model ({kind_name})", a.name()),
                            format!("panic: {p}"),
                        ));
                        corrupt = true;
                        returned = Some(format!("panic: {p}"));
                    }
                    Ok(Err(e)) => {
                        step_viols.push((
                            format!("Generator returns an error although the model run succeeded ({kind_name})"),
                            format!("{}: {e}", a.name()),
                        ));
                        corrupt = true;
                        returned = Some(format!("Err({e})"));
                    }
                    Ok(Ok(tok)) => {
                        if generate {
                            if tok != produced_by_mock {
                                l.add("obs_returned_token_is_not_argmax_of_mock_logits", 1);
                            }
                            if tok != Some(expected_token) && !corrupt {
                                l.add("obs_token_differs_from_reference_prediction", 1);
                            }
                            returned = Some(format!("Ok({tok:?})"));
                        } else {
                            returned = Some("Ok(())".into());
                        }
                        r.apply_run(if generate { tok } else { None });
                    }
                }
            }
        }

        // Observers after every action.
        let prev = g.prev_tokens().to_vec();
        let want_stream: Vec<u32> = r.stream.iter().map(|(t, _)| *t).collect();
        if prev != want_stream && !corrupt {
            // Is the implementation's record the reference stream minus later-submitted prompt tokens?
            let mut i = 0;
            let mut kept: Vec<(u32, Tag)> = Vec::new();
            let mut only_later_prompt_missing = true;
            for (t, tag) in &r.stream {
                if i < prev.len() && prev[i] == *t {
                    kept.push((*t, *tag));
                    i += 1;
                } else if *tag != Tag::PromptLater {
                    only_later_prompt_missing = false;
                }
            }
            let is_subseq = i == prev.len();
            let sig = if is_subseq && only_later_prompt_missing {
                SIG_PREV_MISSING.to_string()
            } else {
                "Generator::prev_tokens differs from the stream of submitted/produced tokens (other than missing later prompts)".to_string()
            };
            step_viols.push((
                sig,
                format!("prev_tokens() = {prev:?}, submitted-or-produced stream = {want_stream:?}"),
            ));
            // Report once, then follow the implementation so that only NEW divergences are reported later.
            r.stream = if is_subseq { kept } else { prev.iter().map(|t| (*t, Tag::Generated)).collect() };
        }
        let prompt = g.prompt().to_vec();
        let want_pending: Vec<u32> = r.pending.iter().map(|(t, _)| *t).collect();
        if prompt != want_pending && !corrupt {
            l.add("obs_prompt_accessor_differs_from_reference_pending", 1);
        }
        let kv_len = g.kv_cache_len();
        let want_kv_len = if r.has_kv { Some(r.consumed.len()) } else { None };
        if kv_len != want_kv_len && !corrupt {
            l.add("obs_kv_cache_len_differs_from_reference", 1);
        }

        if want_trace {
            let runs = mock.log.borrow();
            let run_json = if runs.len() > runs_before {
                let run = runs.last().unwrap();
                json!({
                    "input_ids": run.tokens,
                    "position_ids": run.position_ids,
                    "attention_mask_shape": run.mask_shape,
                    "use_cache_branch": run.use_cache,
                    "kv_in_seq_len": run.kv_in.iter().map(|k| k.seq_len).collect::<Vec<_>>(),
                    "kv_in_equals_last_out": run.kv_in.iter().map(|k| k.matches_last_out).collect::<Vec<_>>(),
                    "decoder_cache_tokens_at_pos": run.kv_in.first().map(|k| k.decoded.clone()),
                })
            } else {
                Json::Null
            };
            trace.push(json!({
                "action": a.name(),
                "returned": returned,
                "model_run": run_json,
                "prompt()": prompt,
                "prev_tokens()": prev,
                "kv_cache_len()": kv_len,
                "reference_stream": want_stream,
            }));
        }
        if last {
            viols = step_viols;
        }
        if corrupt {
            break;
        }
    }

    if corrupt {
        // only report if the corruption appeared at the last action; otherwise this
        // history extends an already reported (pruned) one - cannot happen under BFS pruning
        return Exec { key: None, viols, trace };
    }
    let mut bytes: Vec<u8> = Vec::new();
    let mut push = |v: &[u32]| {
        bytes.extend_from_slice(&(v.len() as u32).to_le_bytes());
        for x in v {
            bytes.extend_from_slice(&x.to_le_bytes());
        }
    };
    push(&r.pending.iter().map(|(t, f)| *t * 2 + *f as u32).collect::<Vec<_>>());
    push(&r.stream.iter().map(|(t, _)| *t).collect::<Vec<_>>());
    push(&r.consumed);
    push(g.prompt());
    push(g.prev_tokens());
    push(&[g.kv_cache_len().map(|x| x as u32 + 1).unwrap_or(0)]);
    let key = vp_core::fnv(&bytes);
    Exec { key: Some(key), viols, trace }
}

fn case_json(cfg: Cfg, hist: &[Act]) -> Json {
    json!({"config": cfg.to_json(), "config_name": cfg.name(), "history": hist_json(hist)})
}

fn parse_case(j: &Json) -> Option<(Cfg, Vec<Act>)> {
    let cfg = Cfg::from_json(&j["config"])?;
    let hist = j["history"].as_array()?.iter().map(|a| Act::from_name(a.as_str()?)).collect::<Option<Vec<_>>>()?;
    Some((cfg, hist))
}

fn recheck(case: &Json) -> Vec<String> {
    let Some((cfg, hist)) = parse_case(case) else { return vec![] };
    let mut l = Local::default();
    exec(cfg, &hist, &mut l, false).viols.into_iter().map(|(s, _)| s).collect()
}

/// Side probe (observation only): `next()` with nothing pending.
fn probe_empty_next(cfg: Cfg) -> String {
    let mock = Mock::new(cfg);
    let config = GeneratorConfig { model_inputs: ModelInputsConfig::default(), kv_cache_capacity: cfg.capacity };
    let Ok(mut g) = Generator::from_model_config(&mock, config) else { return "from_model_config failed".into() };
    match vp_core::catch(|| g.next().map(|r| r.map_err(|e| e.to_string()))) {
        Err(p) => format!("panics: {}", vp_core::truncate(&p, 80)),
        Ok(Some(Err(e))) => format!("Err: {}", vp_core::truncate(&e, 80)),
        Ok(Some(Ok(t))) => format!("Ok({t})"),
        Ok(None) => "None".into(),
    }
}

pub fn run(ctx: Ctx) -> ! {
    if let Some(path) = ctx.replay.clone() {
        let case = vp_core::read_replay_case(&path);
        let Some((cfg, hist)) = parse_case(&case) else { ctx.machinery("C32 replay: cannot parse case") };
        let mut l = Local::default();
        let ex = exec(cfg, &hist, &mut l, true);
        for t in &ex.trace {
            println!("replay: {t}");
        }
        for (sig, detail) in ex.viols {
            ctx.violation(sig, case.clone(), detail);
        }
        ctx.finish(
            "model_checking",
            json!({"states": 1, "transitions": hist.len().max(1), "traces_validated_against_impl": 1,
                   "samples": [{"case": case, "trace": ex.trace}], "exhaustive": false}),
            assumptions(),
        );
    }

    let depth = ctx.tier.pick(7usize, 8usize);
    let cfgs = configs();
    // One BFS per (configuration, first action): shards are merged in this order.
    let shards: Vec<(Cfg, Act)> = cfgs.iter().flat_map(|c| ACTS.iter().map(move |a| (*c, *a))).collect();
    let samples = Samples::new(8);
    let results = vp_core::par::map(shards.len(), |si| {
        let (cfg, first) = shards[si];
        let mut l = Local::default();
        let stats = {
            let l = RefCell::new(&mut l);
            explore::bfs(
                depth,
                false,
                |hist: &[Act]| {
                    let pending = pending_after(cfg.kind, hist);
                    ACTS.iter()
                        .copied()
                        .filter(|a| hist.is_empty() && *a == first || !hist.is_empty())
                        .filter(|a| *a != Act::Next || pending > 0)
                        .collect()
                },
                |hist: &[Act]| {
                    let mut lb = l.borrow_mut();
                    let ex = exec(cfg, hist, &mut lb, false);
                    for (sig, detail) in ex.viols {
                        lb.sink.add(&sig, || case_json(cfg, hist), || format!("[{}] {:?}: {detail}", cfg.name(), hist_json(hist).to_string()));
                    }
                    if let Some(k) = ex.key {
                        lb.keys.insert(k ^ vp_core::fnv(cfg.name().as_bytes()));
                    }
                    ex.key
                },
            )
        };
        (l, stats)
    });

    let mut total = Local::default();
    let mut stats = explore::Stats::default();
    let mut sinks = Vec::new();
    let mut per_cfg: BTreeMap<String, (u64, u64)> = BTreeMap::new();
    for (si, (mut l, s)) in results.into_iter().enumerate() {
        sinks.push(std::mem::take(&mut l.sink));
        let e = per_cfg.entry(shards[si].0.name()).or_insert((0, 0));
        e.0 += s.traces;
        e.1 += s.pruned;
        stats.merge(&s);
        total.merge(l);
    }
    let states = total.keys.len() as u64;
    let get = |k: &str| total.counts.get(k).copied().unwrap_or(0);
    if stats.traces < 100 || get("model_runs_judged") == 0 || states < 10 {
        ctx.machinery("C32: vacuous exploration");
    }
    if get("obs_cache_appended_in_place") == 0 || get("obs_decoder_cache_passed_owned") == 0 {
        ctx.machinery("C32: the owned/in-place KV-cache path was never exercised");
    }
    for (k, v) in &total.counts {
        if k.starts_with("obs_") {
            ctx.observe_n(k, *v);
        }
    }
    // A few complete explored histories, written out with what the mock logged.
    let sample_hists: [&[Act]; 3] = [
        &[Act::WithPrompt, Act::Next, Act::Next, Act::Append2, Act::Process, Act::Next],
        &[Act::Append2, Act::Process, Act::Append1, Act::Next, Act::Clear, Act::Append1, Act::Next],
        &[Act::WithPrompt, Act::Process, Act::Process, Act::Append1, Act::Next, Act::Next],
    ];
    for (i, cfg) in [cfgs[0], cfgs[6], *cfgs.last().unwrap()].iter().enumerate() {
        let mut l2 = Local::default();
        let h = sample_hists[i];
        let ex = exec(*cfg, h, &mut l2, true);
        samples.push(|| json!({"config": cfg.name(), "history": hist_json(h), "trace": ex.trace,
                               "violations_at_last_action": ex.viols.iter().map(|v| v.0.clone()).collect::<Vec<_>>()}));
    }
    let probes: BTreeMap<String, String> = cfgs.iter().map(|c| (c.name(), probe_empty_next(*c))).collect();
    util::flush(&ctx, sinks, recheck);

    println!(
        "C32 summary: configs={} depth<={} histories_executed={} transitions={} distinct_states={} pruned={} model_runs_judged={} violations={}",
        cfgs.len(),
        depth,
        stats.traces,
        stats.transitions,
        states,
        stats.pruned,
        get("model_runs_judged"),
        ctx.violation_count()
    );
    let coverage = json!({
        "states": states,
        "transitions": stats.transitions,
        "traces_validated_against_impl": stats.traces,
        "exhaustive": true,
        "bound": format!("every history of <= {depth} actions, per model configuration (no state merging: dedupe=false)"),
        "max_depth": stats.max_depth,
        "pruned_histories": stats.pruned,
        "alphabet": ACTS.iter().map(|a| a.name()).collect::<Vec<_>>(),
        "enabledness": "next() is enabled only when the reference has >= 1 pending token (see probes for what happens otherwise); all other actions always",
        "configurations": cfgs.iter().map(|c| c.name()).collect::<Vec<_>>(),
        "mock_geometry": {"layers": LAYERS, "heads": HEADS, "embed": EMBED, "vocab": VOCAB, "encoder_len": ENC_LEN},
        "histories_per_configuration": per_cfg.iter().map(|(k, v)| (k.clone(), json!({"executed": v.0, "pruned": v.1}))).collect::<BTreeMap<_, _>>(),
        "counts": json!(total.counts),
        "probe_next_with_nothing_pending(observation only)": probes,
        "samples": samples.take(),
    });
    ctx.finish("model_checking", coverage, assumptions());
}

fn assumptions() -> Vec<String> {
    vec![
        "The model is a mock implementing the public trait rten_generate::model::Model (built from public APIs only): it never fails, appends one position-stamped entry per received token to every decoder cache (in place when the owned input tensor has capacity, like rten's Concat), returns the encoder caches on passes with use_cache_branch == 0 and Optimum-style empty dummies otherwise, and emits arg-max logits that are a function of the whole context.".into(),
        "Reference semantics: with_prompt(p) replaces the pending tokens, append_prompt(p) extends them, clear_prompt() drops them; a run (next / process_prompt) must hand the model exactly the pending tokens at positions consumed..consumed+n (KV cache) or the whole retained input at positions 0..n (no KV cache); position_ids, cache_position, attention_mask length and use_cache_branch must agree with that.".into(),
        "'Cache passed in is the one it last returned' is judged on shape + content (the generator may legitimately re-allocate the buffer to grow capacity); buffer identity is counted as an observation. For encoder caches 'last returned' means the last non-dummy one.".into(),
        "'Recorded previous tokens' = Generator::prev_tokens(); required to equal, after every action, the sequence of tokens in order of first submission to / production by the model. After a mismatch is reported the reference follows the implementation so that only new divergences are reported by longer histories.".into(),
        "next() with nothing pending is outside the explored alphabet (a run of zero tokens that must produce logits has no stated outcome); its behaviour is recorded as an observation per configuration.".into(),
        "Model errors (a failing run) are not part of the alphabet.".into(),
    ]
}
