//! C33 — samplers choose only valid candidates.
//!
//! Box enumeration (style D): candidate sets x (for Multinomial) the scripted
//! uniform draw, through the hook `rten_generate::sampler::verif::force_target`.
//! The only randomness of the sampler is thereby an enumerated environment
//! answer. The seed clause is checked without the hook (seeds 0..=255, twice).

use std::collections::BTreeMap;

use rten_generate::Logits;
use rten_generate::sampler::{ArgMax, Multinomial, Sampler, verif::force_target};
use vp_core::{Ctx, Json, Samples, json};

use crate::util::{self, Distinct, Sink, show_vec};

pub const SIG_DRAW_ZERO: &str =
    "Multinomial::sample uniform draw == 0 selects a leading zero-probability (-inf) candidate";
pub const SIG_FALLBACK: &str =
    "Multinomial::sample draw above the rounded cumulative sum falls back to index 0, a zero-probability (-inf) candidate";

#[derive(Clone, Debug)]
pub struct Case {
    /// "argmax" | "multinomial"
    pub sampler: String,
    pub scores: Vec<f32>,
    pub dense: bool,
    /// sparse ids whose first id is 0 and last id is n-1 although the ids are not 0..n
    pub ends: bool,
    pub draw: Option<f32>,
    pub isa: u8,
}

fn sparse_ids(n: usize) -> Vec<u32> {
    (0..n).map(|i| 100 + (n - 1 - i) as u32).collect()
}

/// Unordered sparse ids that look dense at both ends: [0, 2n-1, 2n-2, ..., n-1]
fn sparse_ids_dense_ends(n: usize) -> Vec<u32> {
    (0..n).map(|i| if i == 0 { 0 } else if i == n - 1 { (n - 1) as u32 } else { (2 * n - i) as u32 }).collect()
}

impl Case {
    fn logits(&self) -> Logits {
        if self.dense {
            Logits::dense(self.scores.clone())
        } else {
            Logits::sparse(self.scores.clone(), if self.ends { sparse_ids_dense_ends(self.scores.len()) } else { sparse_ids(self.scores.len()) })
        }
    }
    fn to_json(&self) -> Json {
        json!({
            "sampler": self.sampler,
            "scores_bits": util::bits_json(&self.scores),
            "scores_text": show_vec(&self.scores),
            "dense": self.dense,
            "ends": self.ends,
            "draw_bits": self.draw.map(|d| d.to_bits()),
            "draw_text": self.draw.map(|d| format!("{d:e}")),
            "draw_producible_by_locked_fastrand_2_3_0": self.draw.map(producible),
            "isa": self.isa,
            "isa_name": util::ISA_NAMES[self.isa as usize],
        })
    }
    fn from_json(j: &Json) -> Option<Case> {
        Some(Case {
            sampler: j["sampler"].as_str()?.to_string(),
            scores: util::bits_from_json(&j["scores_bits"]),
            dense: j["dense"].as_bool()?,
            ends: j["ends"].as_bool().unwrap_or(false),
            draw: j["draw_bits"].as_u64().map(|b| f32::from_bits(b as u32)),
            isa: j["isa"].as_u64()? as u8,
        })
    }
}

/// fastrand 2.3.0 (the locked version) returns multiples of 2^-23 in [0, 1);
/// newer 2.x versions (allowed by the manifest's "2.0.2") return any f32 in [0,1).
fn producible(d: f32) -> bool {
    let scaled = d as f64 * (1u64 << 23) as f64;
    d >= 0.0 && d < 1.0 && scaled.fract() == 0.0
}

fn draws(thorough: bool) -> Vec<f32> {
    let ulp23 = 1.0 / (1u32 << 23) as f32;
    let ulp24 = ulp23 / 2.0;
    let mut d: Vec<f32> = vec![0.0];
    let push = |d: &mut Vec<f32>, x: f32| {
        if !d.contains(&x) {
            d.push(x);
        }
    };
    // producible by the locked RNG (multiples of 2^-23)
    let grid = if thorough { 64 } else { 16 };
    for k in 1..=(if thorough { 8 } else { 4 }) {
        push(&mut d, k as f32 * ulp23);
        push(&mut d, 1.0 - k as f32 * ulp23);
    }
    for i in 1..grid {
        push(&mut d, i as f32 / grid as f32);
    }
    for x in [1.0f32 / 3.0, 0.1, 0.9, 0.7] {
        push(&mut d, x - x % ulp23);
    }
    // contract-only ("f32 in 0..1"): not multiples of 2^-23
    for x in [1.0 - ulp24, f32::MIN_POSITIVE, ulp24, 0.1, 0.9] {
        push(&mut d, x);
    }
    d
}

#[derive(Default)]
struct Local {
    sink: Sink,
    counts: BTreeMap<String, u64>,
    distinct: Distinct,
}

impl Local {
    fn add(&mut self, k: &str, n: u64) {
        *self.counts.entry(k.to_string()).or_insert(0) += n;
    }
    fn merge(&mut self, o: Local) {
        self.sink.merge(o.sink);
        for (k, v) in o.counts {
            *self.counts.entry(k).or_insert(0) += v;
        }
        self.distinct.merge(o.distinct);
    }
}

/// Reference: soft-max probability is non-zero iff the score is not -inf, given
/// at least one finite score and no NaN/+inf (the box keeps all finite scores
/// within [-3, 38], so no underflow question arises).
fn positive_prob(scores: &[f32], idx: usize) -> bool {
    scores[idx] != f32::NEG_INFINITY
}

fn softmax_defined(scores: &[f32]) -> bool {
    scores.iter().all(|x| !x.is_nan() && *x != f32::INFINITY) && scores.iter().any(|x| x.is_finite())
}

fn run_case(case: &Case, mn: &Multinomial, l: &mut Local) -> Option<u32> {
    l.add("cases", 1);
    let logits = case.logits();
    let ids = logits.indices().to_vec();
    let res = if case.sampler == "argmax" {
        vp_core::catch(|| ArgMax::new().sample(&logits))
    } else {
        force_target(case.draw);
        let r = vp_core::catch(|| mn.sample(&logits));
        force_target(None);
        r
    };
    let id = match res {
        Err(msg) => {
            // `sample` documents a panic only for empty logits; the box has none.
            l.add("obs_panics", 1);
            l.sink.add(
                &format!("{}::sample panics on a non-empty candidate set", case.sampler),
                || case.to_json(),
                || format!("panic: {msg}"),
            );
            return None;
        }
        Ok(id) => id,
    };
    l.add("evaluations", 1);
    let Some(idx) = ids.iter().position(|x| *x == id) else {
        l.sink.add(
            &format!("{}::sample returns an id that is not in the candidate set", case.sampler),
            || case.to_json(),
            || format!("returned {id}, candidates {ids:?}"),
        );
        return Some(id);
    };
    if case.sampler == "argmax" {
        if case.scores.iter().any(|x| x.is_nan()) {
            l.add("obs_argmax_nan_input_not_judged", 1);
            return Some(id);
        }
        let best = case.scores.iter().fold(f32::NEG_INFINITY, |a, b| a.max(*b));
        if case.scores[idx] != best {
            l.sink.add(
                "ArgMax::sample returns an id whose score is not maximal",
                || case.to_json(),
                || format!("scores {} -> id {id} (score {}), max is {best}", show_vec(&case.scores), case.scores[idx]),
            );
        }
    } else {
        if !softmax_defined(&case.scores) {
            l.add("obs_multinomial_softmax_undefined_not_judged", 1);
            return Some(id);
        }
        l.add("multinomial_judged", 1);
        if case.scores.iter().any(|x| *x == f32::NEG_INFINITY) {
            l.add("multinomial_judged_with_zero_probability_candidates", 1);
        }
        if !positive_prob(&case.scores, idx) {
            let sig = match case.draw {
                Some(d) if d == 0.0 => SIG_DRAW_ZERO.to_string(),
                Some(_) => SIG_FALLBACK.to_string(),
                None => "Multinomial::sample (seeded) selects a zero-probability candidate".to_string(),
            };
            l.sink.add(
                &sig,
                || case.to_json(),
                || {
                    format!(
                        "scores {} ids {:?} draw {:?}: sampled id {id} = position {idx} whose score is -inf (probability 0)",
                        show_vec(&case.scores),
                        ids,
                        case.draw
                    )
                },
            );
        }
    }
    let mut bytes = Vec::new();
    bytes.extend_from_slice(case.sampler.as_bytes());
    for s in &case.scores {
        bytes.extend_from_slice(&s.to_bits().to_le_bytes());
    }
    bytes.extend_from_slice(&id.to_le_bytes());
    l.distinct.add(&bytes);
    Some(id)
}

fn all_sets(values: &[f32], max_len: usize) -> Vec<Vec<f32>> {
    let mut out = Vec::new();
    for len in 1..=max_len {
        for idx in vp_core::odometer::sequences(values.len(), len) {
            out.push(idx.iter().map(|i| values[*i]).collect());
        }
    }
    out
}

/// Longer candidate sets (several SIMD widths; rounding of the f32 cumulative
/// sum matters more): a leading or trailing -inf block plus a ramp.
fn long_sets(max_len: usize) -> Vec<Vec<f32>> {
    let mut out = Vec::new();
    for n in 6..=max_len {
        for ninf in [0usize, 1, 2] {
            for step in [0.0f32, 0.125, 0.25, 0.5] {
                for lead in [true, false] {
                    if ninf == 0 && !lead {
                        continue;
                    }
                    let mut v: Vec<f32> = (0..n - ninf).map(|i| i as f32 * step - 2.0).collect();
                    let infs = vec![f32::NEG_INFINITY; ninf];
                    if lead {
                        let mut w = infs.clone();
                        w.extend(v);
                        v = w;
                    } else {
                        v.extend(infs);
                    }
                    out.push(v);
                }
            }
        }
    }
    out
}

fn recheck(case: &Json) -> Vec<String> {
    if case["sampler"] == "multinomial-seeded" {
        let mut l = Local::default();
        seed_clause(&mut l, &Samples::new(0));
        return l.sink.map.keys().cloned().collect();
    }
    let Some(c) = Case::from_json(case) else { return vec![] };
    util::set_isa(c.isa);
    let mut l = Local::default();
    run_case(&c, &Multinomial::with_seed(1), &mut l);
    util::set_isa(0);
    l.sink.map.keys().cloned().collect()
}

/// The seed clause: same seed + same inputs => same sequence. No forcing.
fn seed_clause(l: &mut Local, seed_samples: &Samples) -> (u64, u64) {
    force_target(None);
    let sets: Vec<Logits> = vec![
        Logits::dense(vec![0.0, 0.0, 0.0, 0.0]),
        Logits::dense(vec![f32::NEG_INFINITY, 1.0, 0.0, -1.0]),
        Logits::sparse(vec![0.5, f32::NEG_INFINITY, 0.5], vec![7, 8, 9]),
        Logits::dense(vec![2.0]),
        Logits::dense(vec![-1.0, 1.0, -1.0, 1.0, f32::NEG_INFINITY, 0.0]),
        Logits::sparse((0..24).map(|i| i as f32 * 0.25).collect(), (0..24).map(|i| 1000 - i).collect()),
    ];
    const LEN: usize = 48;
    let mut distinct_seqs = Distinct::default();
    let mut seeds = 0;
    for seed in 0u64..=255 {
        let seq = |_: ()| -> Vec<u32> {
            let s = Multinomial::with_seed(seed);
            (0..LEN).map(|i| s.sample(&sets[i % sets.len()])).collect()
        };
        let a = seq(());
        let b = seq(());
        seeds += 1;
        l.add("seed_sequences_compared", 1);
        if a != b {
            l.sink.add(
                "Multinomial::with_seed: two samplers with the same seed give different sequences",
                || json!({"sampler": "multinomial-seeded", "seed": seed}),
                || format!("seed {seed}: {a:?} vs {b:?}"),
            );
        }
        for (i, id) in a.iter().enumerate() {
            let set = &sets[i % sets.len()];
            l.add("seeded_samples_judged", 1);
            match set.indices().iter().position(|x| x == id) {
                None => l.sink.add(
                    "Multinomial::sample (seeded) returns an id that is not in the candidate set",
                    || json!({"sampler": "multinomial-seeded", "seed": seed, "step": i}),
                    || format!("seed {seed} step {i}: id {id}"),
                ),
                Some(p) if set.logits()[p] == f32::NEG_INFINITY => l.sink.add(
                    "Multinomial::sample (seeded) selects a zero-probability candidate",
                    || json!({"sampler": "multinomial-seeded", "seed": seed, "step": i}),
                    || format!("seed {seed} step {i}: id {id} has score -inf"),
                ),
                _ => {}
            }
        }
        let bytes: Vec<u8> = a.iter().flat_map(|x| x.to_le_bytes()).collect();
        distinct_seqs.add(&bytes);
        if seed < 2 {
            seed_samples.push(|| json!({"seed": seed, "sequence_first_12": &a[..12]}));
        }
    }
    (seeds, distinct_seqs.len() as u64)
}

pub fn run(ctx: Ctx) -> ! {
    if let Some(path) = ctx.replay.clone() {
        let case = vp_core::read_replay_case(&path);
        let mut l = Local::default();
        if case["sampler"] == "multinomial-seeded" {
            let s = Samples::new(1);
            seed_clause(&mut l, &s);
        } else {
            let Some(c) = Case::from_json(&case) else { ctx.machinery("C33 replay: cannot parse case") };
            util::set_isa(c.isa);
            let id = run_case(&c, &Multinomial::with_seed(1), &mut l);
            println!("replay: {} on {} draw {:?} -> id {:?}", c.sampler, show_vec(&c.scores), c.draw, id);
        }
        for (sig, (case, detail, _)) in l.sink.map {
            ctx.violation(sig, case, detail);
        }
        ctx.finish(
            "exploration",
            json!({"evaluations": 1, "distinct_nontrivial": 2, "rule": "replay of one stored case", "samples": [case], "exhaustive": false}),
            assumptions(),
        );
    }

    let thorough = ctx.tier.is_thorough();
    let vals_q = [f32::NEG_INFINITY, -3.0, -1.0, -0.5, 0.0, 0.5, 1.0, 3.0];
    let vals_t = [f32::NEG_INFINITY, -3.0, -2.0, -1.0, -0.5, 0.0, 0.5, 1.0, 2.0, 3.0];
    let vals: &[f32] = if thorough { &vals_t } else { &vals_q };
    let max_len = if thorough { 6 } else { 5 };
    let mut sets = all_sets(vals, max_len);
    let n_small = sets.len();
    let long = long_sets(if thorough { 80 } else { 64 });
    let n_long = long.len();
    sets.extend(long);
    let argmax_extra = [f32::INFINITY, f32::NAN];
    let dr = draws(thorough);
    let samples = Samples::new(10);

    // Draw groups: the draws the locked RNG can produce come first (together with
    // ArgMax), so that a stored counterexample uses one of them whenever one exists.
    let groups: Vec<(bool, Vec<f32>)> = vec![
        (true, dr.iter().copied().filter(|d| producible(*d)).collect()),
        (false, dr.iter().copied().filter(|d| !producible(*d)).collect()),
    ];
    let mut total = Local::default();
    let mut sinks = Vec::new();
    for (with_argmax, group) in &groups {
        for isa in [0u8, 1, 2] {
            util::set_isa(isa);
            const CHUNK: usize = 128;
            let nchunks = sets.len().div_ceil(CHUNK);
            let locals = vp_core::par::map(nchunks, |c| {
                let mut l = Local::default();
                let mn = Multinomial::with_seed(c as u64);
                let lo = c * CHUNK;
                let hi = (lo + CHUNK).min(sets.len());
                for scores in &sets[lo..hi] {
                    for (dense, ends) in [(true, false), (false, false), (false, true)] {
                        if *with_argmax {
                            // ArgMax: the set itself and the set with +inf / NaN put at each position
                            let mut variants = vec![scores.clone()];
                            if scores.len() <= 4 {
                                for e in argmax_extra {
                                    for pos in 0..scores.len() {
                                        let mut v = scores.clone();
                                        v[pos] = e;
                                        variants.push(v);
                                    }
                                }
                            }
                            for v in variants {
                                let case = Case { sampler: "argmax".into(), scores: v, dense, ends, draw: None, isa };
                                run_case(&case, &mn, &mut l);
                            }
                        }
                        for &d in group {
                            let case = Case {
                                sampler: "multinomial".into(),
                                scores: scores.clone(),
                                dense,
                                ends,
                                draw: Some(d),
                                isa,
                            };
                            let before = l.sink.map.get(SIG_FALLBACK).map(|e| e.2).unwrap_or(0);
                            let id = run_case(&case, &mn, &mut l);
                            let after = l.sink.map.get(SIG_FALLBACK).map(|e| e.2).unwrap_or(0);
                            if after > before {
                                l.add(
                                    if producible(d) {
                                        "fallback_violations_with_draw_producible_by_locked_fastrand"
                                    } else {
                                        "fallback_violations_with_contract_only_draw"
                                    },
                                    1,
                                );
                            }
                            if c == nchunks / 3 && scores.contains(&f32::NEG_INFINITY) {
                                samples.push(|| {
                                    json!({"sampler": "multinomial", "scores": show_vec(scores), "dense": dense,
                                           "draw": format!("{d:e}"), "isa": util::ISA_NAMES[isa as usize], "sampled_id": id})
                                });
                            }
                        }
                    }
                }
                l
            });
            for mut l in locals {
                sinks.push(std::mem::take(&mut l.sink));
                total.merge(l);
            }
        }
    }
    util::set_isa(0);

    // Non-vacuity of the hook: different scripted draws must reach different candidates.
    {
        let mn = Multinomial::with_seed(0);
        let lg = Logits::dense(vec![0.0; 4]);
        let mut outs = Vec::new();
        for d in [0.1f32, 0.3, 0.6, 0.9] {
            force_target(Some(d));
            outs.push(mn.sample(&lg));
        }
        force_target(None);
        if outs != [0, 1, 2, 3] {
            ctx.machinery(&format!("C33: force_target hook does not steer the sampler (got {outs:?}); built without --cfg rten_verif?"));
        }
    }

    let (seeds, distinct_seqs) = seed_clause(&mut total, &samples);
    if distinct_seqs < 2 {
        ctx.machinery("C33: all seeds gave the same sequence (seed clause vacuous)");
    }

    let get = |k: &str| total.counts.get(k).copied().unwrap_or(0);
    if get("multinomial_judged_with_zero_probability_candidates") == 0 || get("evaluations") == 0 {
        ctx.machinery("C33: vacuous run");
    }
    for (k, v) in &total.counts {
        if k.starts_with("obs_") {
            ctx.observe_n(k, *v);
        }
    }
    let counts = json!(total.counts);
    let distinct = total.distinct.len() as u64;
    sinks.push(std::mem::take(&mut total.sink)); // seed clause
    util::flush(&ctx, sinks, recheck);

    println!(
        "C33 summary: cases={} judged={} multinomial_judged={} (with -inf candidates {}) seeds={} distinct_seed_sequences={} distinct_outcomes={} violations={}",
        get("cases"),
        get("evaluations"),
        get("multinomial_judged"),
        get("multinomial_judged_with_zero_probability_candidates"),
        seeds,
        distinct_seqs,
        distinct,
        ctx.violation_count()
    );
    let coverage = json!({
        "evaluations": get("evaluations") + get("seeded_samples_judged"),
        "distinct_nontrivial": distinct,
        "rule": "a case = (sampler, candidate scores, dense|sparse-permuted ids, scripted uniform draw, forced ISA), enumerated completely; \
                 evaluations = real `sample` calls that returned and were judged; distinct_nontrivial = number of distinct (sampler, scores, returned id) triples",
        "exhaustive": true,
        "axes": {
            "score_values": show_vec(vals),
            "set_sizes": format!("1..={max_len}"),
            "small_sets": n_small,
            "long_sets": n_long,
            "long_set_sizes": format!("6..={}", if thorough { 80 } else { 64 }),
            "argmax_extra_values_at_every_position(sets of size<=4)": ["inf", "NaN (observed, not judged)"],
            "draws": dr.iter().map(|d| format!("{d:e}")).collect::<Vec<_>>(),
            "draws_producible_by_locked_fastrand": dr.iter().map(|d| producible(*d)).collect::<Vec<_>>(),
            "id_layouts": ["dense", "sparse ids 100+(n-1-i)", "sparse unordered ids [0, 2n-1, ..., n+1, n-1] (first and last id look dense)"],
            "isa": util::ISA_NAMES,
            "seeds": "0..=255, each twice, 48 samples over 6 candidate sets, no forcing",
        },
        "seed_clause": {"seeds": seeds, "distinct_sequences": distinct_seqs},
        "counts": counts,
        "samples": samples.take(),
    });
    ctx.finish("exploration", coverage, assumptions());
}

fn assumptions() -> Vec<String> {
    vec![
        "Multinomial's uniform draw is scripted through rten_generate::sampler::verif::force_target (thread-local); everything else is the real code, including the SIMD softmax on each forced ISA.".into(),
        "The draw alphabet is a subset of what `fastrand::Rng::f32` ('f32 in 0..1') may return. The locked fastrand 2.3.0 returns multiples of 2^-23 (0 included); each case records whether its draw is producible by that version. Draws that are not (1-2^-24, MIN_POSITIVE, ...) are legal under the documented contract and under fastrand >= 2.4, which the manifest's version requirement admits.".into(),
        "'Non-zero probability' is judged by the reference rule: probability is zero iff the score is -inf (finite scores in the boxes lie in [-3, 38], so exp(x-max) >= e^-41, far above f32 underflow). Sets for which soft-max is undefined (all -inf, any +inf or NaN) are run (no panic, id in set) but the probability clause is not judged.".into(),
        "ArgMax: judged on sets without NaN (returned id's score must equal the maximum); NaN inputs are run and counted as observations.".into(),
        "Seed clause: two fresh Multinomial::with_seed(s) samplers fed the same 48 inputs must return identical sequences, for s in 0..=255.".into(),
    ]
}
