//! Engine for the `rten-generate` properties:
//!   C31 logit filters, C32 generator token history, C33 samplers.
//!
//! `mc-generate <Cnn> [quick|thorough] [--replay <file>]`

mod c31;
mod c32;
mod c33;
mod util;

fn main() {
    let prop = std::env::args().nth(1).unwrap_or_default();
    match prop.as_str() {
        "C31" => c31::run(vp_core::Ctx::from_env("C31")),
        "C32" => c32::run(vp_core::Ctx::from_env("C32")),
        "C33" => c33::run(vp_core::Ctx::from_env("C33")),
        _ => vp_core::machinery_error("mc-generate: unknown property (expected C31, C32 or C33)"),
    }
}
