//! Small helpers shared by the three engines of this crate: float encoding for
//! replay artefacts, a per-shard violation sink that is merged in shard order
//! (so the stored counterexample is the first in enumeration order, whatever
//! the thread interleaving), ISA forcing.

use std::cmp::Ordering;
use std::collections::{BTreeMap, HashSet};

use vp_core::{Ctx, Json, json};

/// Total order of the property statement, except that the two zeros compare
/// equal (the sign of zero is recorded as an observation only, see the
/// assumptions of C31).
pub fn cmp_total(a: f32, b: f32) -> Ordering {
    if a == 0.0 && b == 0.0 {
        return Ordering::Equal;
    }
    a.total_cmp(&b)
}

pub fn show_f32(x: f32) -> String {
    if x.is_nan() {
        if x.is_sign_negative() { "-NaN".into() } else { "NaN".into() }
    } else if x == f32::INFINITY {
        "inf".into()
    } else if x == f32::NEG_INFINITY {
        "-inf".into()
    } else if x == 0.0 && x.is_sign_negative() {
        "-0".into()
    } else {
        format!("{x}")
    }
}

pub fn show_vec(v: &[f32]) -> String {
    let parts: Vec<String> = v.iter().map(|x| show_f32(*x)).collect();
    format!("[{}]", parts.join(", "))
}

pub fn bits_json(v: &[f32]) -> Json {
    json!(v.iter().map(|x| x.to_bits()).collect::<Vec<u32>>())
}

pub fn bits_from_json(j: &Json) -> Vec<f32> {
    j.as_array()
        .map(|a| a.iter().map(|x| f32::from_bits(x.as_u64().unwrap_or(0) as u32)).collect())
        .unwrap_or_default()
}

pub const ISA_NAMES: [&str; 3] = ["native", "generic", "avx2"];

/// Process-global: callers run ISA phases one after the other.
pub fn set_isa(isa: u8) {
    rten_simd::verif::force_isa(isa);
}

/// Per-shard violation collector.
#[derive(Default)]
pub struct Sink {
    pub map: BTreeMap<String, (Json, String, u64)>,
}

impl Sink {
    pub fn add(&mut self, sig: &str, case: impl FnOnce() -> Json, detail: impl FnOnce() -> String) {
        match self.map.get_mut(sig) {
            Some(e) => e.2 += 1,
            None => {
                self.map.insert(sig.to_string(), (case(), detail(), 1));
            }
        }
    }
    pub fn merge(&mut self, other: Sink) {
        for (sig, (case, detail, n)) in other.map {
            match self.map.get_mut(&sig) {
                Some(e) => e.2 += n,
                None => {
                    self.map.insert(sig, (case, detail, n));
                }
            }
        }
    }
}

/// Merge shard sinks in shard order and hand them to the context. `recheck`
/// re-runs the stored case twice and must return the same signature both
/// times, otherwise the run is a machinery error (uncontrolled
/// nondeterminism), not a verdict.
pub fn flush(ctx: &Ctx, sinks: Vec<Sink>, recheck: impl Fn(&Json) -> Vec<String>) {
    let mut total = Sink::default();
    for s in sinks {
        total.merge(s);
    }
    for (sig, (case, detail, n)) in total.map {
        for round in 0..2 {
            let sigs = recheck(&case);
            if !sigs.iter().any(|s| *s == sig) {
                ctx.machinery(&format!(
                    "violation '{sig}' did not reproduce on re-run {round} of its stored case {case} (got {sigs:?})"
                ));
            }
        }
        ctx.violation(sig.clone(), case, detail);
        for _ in 1..n {
            ctx.violation(sig.clone(), Json::Null, "");
        }
    }
}

/// Distinct-outcome counter (64-bit FNV of a canonical byte string).
#[derive(Default)]
pub struct Distinct {
    pub set: HashSet<u64>,
}

impl Distinct {
    pub fn add(&mut self, bytes: &[u8]) {
        self.set.insert(vp_core::fnv(bytes));
    }
    pub fn merge(&mut self, o: Distinct) {
        self.set.extend(o.set);
    }
    pub fn len(&self) -> usize {
        self.set.len()
    }
}
