//! C02: run results are independent of execution strategy.
//!
//! Every program of a small grammar is executed by the real `Model::run`
//! under the default strategy for every requested-output subset, and under
//! every single deviation (thorough: pairs) from the default strategy:
//! owned vs borrowed inputs, thread-pool size, prepacked weights, every
//! linear extension of the plan (through `Graph::verif_run_plan`), and buffer
//! pool off (child process with RTEN_USE_POOL=0). Oracle: the naive evaluator.

use std::collections::{BTreeMap, HashSet};
use std::sync::{Arc, Mutex};

use rten::NodeId;
use rten::ThreadPool;
use rten::verif::graph::PlanOptions;
use vp_core::{Ctx, Json, Samples, json};

use crate::prog::{self, NArr, OpK, Prog};
use crate::subject::{self, LoadCfg, Loaded, RunCfg, RunOutcome};

pub struct Pools {
    pub p: Vec<(usize, Arc<ThreadPool>)>,
}

impl Pools {
    pub fn new() -> Pools {
        Pools { p: [1usize, 2, 4].iter().map(|&n| (n, Arc::new(ThreadPool::with_num_threads(n)))).collect() }
    }
}

#[derive(Default)]
pub struct Stats {
    pub programs: u64,
    pub programs_ref_ok: u64,
    pub runs: u64,
    pub outputs_compared: u64,
    pub by_dev: BTreeMap<String, u64>,
    pub outcomes: HashSet<u64>,
    pub orders_tried: u64,
    pub load_failures: u64,
}

impl Stats {
    pub fn merge(&mut self, o: Stats) {
        self.programs += o.programs;
        self.programs_ref_ok += o.programs_ref_ok;
        self.runs += o.runs;
        self.outputs_compared += o.outputs_compared;
        self.orders_tried += o.orders_tried;
        self.load_failures += o.load_failures;
        for (k, v) in o.by_dev {
            *self.by_dev.entry(k).or_insert(0) += v;
        }
        self.outcomes.extend(o.outcomes);
    }
}

fn hash_out(a: &NArr) -> u64 {
    let mut b = Vec::new();
    for s in &a.shape {
        b.extend_from_slice(&(*s as u32).to_le_bytes());
    }
    for d in &a.data {
        b.extend_from_slice(&d.to_bits().to_le_bytes());
    }
    vp_core::fnv(&b)
}

fn value_class(p: &Prog, v: usize) -> String {
    match p.producer(v) {
        None if v < p.n_inputs => "graph input".into(),
        None => "constant".into(),
        Some(i) => format!("{} output", p.ops[i].kind.name()),
    }
}

fn consumers(p: &Prog, v: usize) -> String {
    let mut ks: Vec<&str> = p.ops.iter().filter(|o| o.ins.contains(&v)).map(|o| o.kind.name()).collect();
    ks.sort();
    ks.dedup();
    if ks.is_empty() { "none".into() } else { ks.join("+") }
}

/// All dependency-respecting orders of `plan`.
pub fn linear_extensions(p: &Prog, l: &Loaded, plan: &[NodeId]) -> Vec<Vec<NodeId>> {
    let g = l.model.verif_graph();
    // map plan op -> AST op index through the op's first output value
    let mut ast_of: Vec<Option<usize>> = Vec::new();
    for &pid in plan {
        let mut found = None;
        for i in 0..p.ops.len() {
            if let Some(vid) = l.ids[p.first_out(i)] {
                if let Some((src, _)) = g.get_source_node(vid) {
                    if src == pid {
                        found = Some(i);
                    }
                }
            }
        }
        ast_of.push(found);
    }
    if ast_of.iter().any(|a| a.is_none()) {
        return vec![];
    }
    let ast: Vec<usize> = ast_of.into_iter().map(|a| a.unwrap()).collect();
    let n = plan.len();
    // deps[j] = positions in plan that must precede j
    let mut deps: Vec<Vec<usize>> = vec![vec![]; n];
    for j in 0..n {
        for &v in &p.ops[ast[j]].ins {
            if let Some(prod) = p.producer(v) {
                if let Some(pos) = ast.iter().position(|&a| a == prod) {
                    deps[j].push(pos);
                }
            }
        }
    }
    let mut out = Vec::new();
    for perm in vp_core::odometer::permutations(n) {
        let mut pos_of = vec![0; n];
        for (pos, &j) in perm.iter().enumerate() {
            pos_of[j] = pos;
        }
        if (0..n).all(|j| deps[j].iter().all(|&d| pos_of[d] < pos_of[j])) {
            out.push(perm.iter().map(|&j| plan[j]).collect());
        }
    }
    out
}

struct Checker<'a> {
    ctx: &'a Ctx,
    p: &'a Prog,
    fill: usize,
    reference: &'a [Option<NArr>],
    tensors: &'a [rten_tensor::Tensor<f32>],
    stats: &'a mut Stats,
    prefix: &'a str,
    /// an operator-output value that the caller supplies in addition to the graph inputs
    extra: Option<usize>,
}

impl Checker<'_> {
    fn check(&mut self, l: &Loaded, outs: &[usize], dev: &str, cfg: &RunCfg) {
        let mut supplied: Vec<usize> = (0..self.p.n_inputs).collect();
        supplied.extend(self.extra);
        let r = subject::run(l, self.tensors, &supplied, outs, cfg);
        self.stats.runs += 1;
        let dev = format!("{}{}", self.prefix, dev);
        *self.stats.by_dev.entry(dev.clone()).or_insert(0) += 1;
        let case = || {
            json!({"program": self.p.to_json(), "describe": self.p.describe(), "fill": self.fill, "outputs": outs,
                   "deviation": dev, "owned_mask": cfg.owned_mask, "supplied_intermediate": self.extra,
                   "order": cfg.order.map(|o| o.iter().map(|id| format!("{id:?}")).collect::<Vec<_>>())})
        };
        match r {
            RunOutcome::Ok(vals) => {
                if vals.len() != outs.len() {
                    self.ctx.violation(format!("[{dev}] run returned wrong number of outputs"), case(), format!("{} vs {}", vals.len(), outs.len()));
                    return;
                }
                for (k, &o) in outs.iter().enumerate() {
                    let want = self.reference[o].as_ref().unwrap();
                    self.stats.outputs_compared += 1;
                    self.stats.outcomes.insert(hash_out(&vals[k]));
                    if !vals[k].same(want) {
                        self.ctx.violation(
                            format!("[{dev}] {} differs from naive evaluation (value also consumed by: {})", value_class(self.p, o), consumers(self.p, o)),
                            case(),
                            format!("program: {} output {}: got {:?} want {:?}", self.p.describe(), self.p.vname(o), vals[k], want),
                        );
                        return;
                    }
                }
            }
            RunOutcome::Err(e) => {
                self.ctx.violation(
                    format!("[{dev}] run fails although naive evaluation succeeds: {}", vp_core::truncate(&e, 50)),
                    case(),
                    format!("program: {} error: {e}", self.p.describe()),
                );
            }
            RunOutcome::Panic(m) => {
                self.ctx.violation(
                    format!("[{dev}] run panics: {}", vp_core::truncate(&m, 50)),
                    case(),
                    format!("program: {} panic: {m}", self.p.describe()),
                );
            }
        }
    }
}

pub struct Plan2 {
    pub pairs: bool,
    pub all_subsets: bool,
}

pub fn check_program(ctx: &Ctx, p: &Prog, pools: &Pools, plan2: &Plan2, stats: &mut Stats, prefix: &str, replay_filter: Option<&Json>) {
    stats.programs += 1;
    let l = match subject::load(p, LoadCfg::default()) {
        Ok(l) => l,
        Err(e) => {
            stats.load_failures += 1;
            ctx.observe(&format!("load failed: {}", vp_core::truncate(&e, 60)));
            return;
        }
    };
    let has_matmul_const = p.ops.iter().any(|o| matches!(o.kind, OpK::MatMul | OpK::IfMMThen | OpK::IfMMElse));
    let l_prepack = if has_matmul_const { subject::load(p, LoadCfg { prepack: true, ..Default::default() }).ok() } else { None };
    let mut any_ok = false;
    for fill in 0..2usize {
        if let Some(f) = replay_filter {
            if f["fill"].as_u64() != Some(fill as u64) {
                continue;
            }
        }
        let inputs: Vec<NArr> = (0..p.n_inputs).map(|i| prog::input_fill(fill, i)).collect();
        let reference = prog::eval(p, &inputs);
        let valid: Vec<usize> = (0..p.n_values()).filter(|&v| reference[v].is_some()).collect();
        let valid_ops: Vec<usize> = valid.iter().copied().filter(|&v| p.producer(v).is_some()).collect();
        if valid_ops.is_empty() {
            continue;
        }
        any_ok = true;
        let tensors: Vec<_> = inputs.iter().map(subject::to_tensor).collect();
        let mut ck = Checker { ctx, p, fill, reference: &reference, tensors: &tensors, stats, prefix, extra: None };
        let dflt = RunCfg { owned_mask: 0, pool: None, order: None, owned_noncontiguous: false };
        // Box A: every non-empty subset of the valid values, default strategy.
        let nv = valid.len().min(7);
        if plan2.all_subsets && fill == 0 && (plan2.pairs || p.ops.len() <= 2) {
            for m in 1u32..(1 << nv) {
                let outs: Vec<usize> = (0..nv).filter(|i| m >> i & 1 == 1).map(|i| valid[i]).collect();
                ck.check(&l, &outs, "default", &dflt);
            }
        }
        // Box B: deviations, for three output sets.
        let last = vec![*valid_ops.last().unwrap()];
        let out_sets: Vec<Vec<usize>> = {
            let mut v = vec![valid.clone(), valid_ops.clone(), last];
            v.dedup();
            v
        };
        for outs in &out_sets {
            ck.check(&l, outs, "default", &dflt);
            let masks: Vec<u32> = (1u32..(1 << p.n_inputs)).collect();
            for &m in &masks {
                ck.check(&l, outs, "owned-inputs", &RunCfg { owned_mask: m, ..dflt_cfg() });
                ck.check(&l, outs, "owned-noncontiguous-inputs", &RunCfg { owned_mask: m, owned_noncontiguous: true, ..dflt_cfg() });
            }
            for (n, pool) in &pools.p {
                ck.check(&l, outs, &format!("threads={n}"), &RunCfg { pool: Some(pool), ..dflt_cfg() });
            }
            if let Some(lp) = &l_prepack {
                ck.check(lp, outs, "prepack", &dflt);
                if plan2.pairs {
                    for &m in &masks {
                        ck.check(lp, outs, "prepack+owned-inputs", &RunCfg { owned_mask: m, ..dflt_cfg() });
                    }
                }
            }
            // every linear extension of the planner's plan
            let in_ids: Vec<NodeId> = (0..p.n_inputs).filter_map(|i| l.ids[i]).collect();
            let out_ids: Vec<NodeId> = outs.iter().filter_map(|&o| l.ids[o]).collect();
            if let Ok(plan) = l.model.verif_graph().execution_plan(&in_ids, &out_ids, PlanOptions::default()) {
                let exts = linear_extensions(p, &l, &plan);
                for ord in &exts {
                    ck.stats.orders_tried += 1;
                    let is_planner = *ord == plan;
                    ck.check(&l, outs, if is_planner { "explicit-planner-order" } else { "alt-order" }, &RunCfg { order: Some(ord), ..dflt_cfg() });
                    if plan2.pairs || !is_planner {
                        for &m in &masks {
                            if plan2.pairs || m == masks[masks.len() - 1] {
                                ck.check(&l, outs, "alt-order+owned-inputs", &RunCfg { owned_mask: m, pool: None, order: Some(ord), owned_noncontiguous: false });
                            }
                        }
                    }
                }
            }
        }
        // Box C: the caller also supplies an operator-output value (contents = computed + 16),
        // as a view or as an owned tensor; the naive evaluator uses the supplied value for
        // everything downstream and returns it when it is requested.
        if replay_filter.map(|f| !f["supplied_intermediate"].is_null()).unwrap_or(true) {
            for &v in &valid_ops {
                if let Some(f) = replay_filter {
                    if f["supplied_intermediate"].as_u64() != Some(v as u64) {
                        continue;
                    }
                }
                let computed = reference[v].as_ref().unwrap();
                let over = NArr { shape: computed.shape.clone(), data: computed.data.iter().map(|x| x + 16.0).collect() };
                let reference2 = prog::eval_over(p, &inputs, Some((v, &over)));
                let valid2: Vec<usize> = (0..p.n_values()).filter(|&x| reference2[x].is_some()).collect();
                let last2: Vec<usize> = valid2.iter().copied().filter(|&x| p.producer(x).is_some()).last().into_iter().collect();
                let mut arrs: Vec<NArr> = inputs.clone();
                while arrs.len() < v {
                    arrs.push(NArr { shape: vec![0], data: vec![] });
                }
                arrs.push(over.clone());
                let tensors2: Vec<_> = arrs.iter().map(subject::to_tensor).collect();
                let mut ck2 = Checker { ctx, p, fill, reference: &reference2, tensors: &tensors2, stats: &mut *stats, prefix, extra: Some(v) };
                let mut sets = vec![valid2.clone(), last2];
                sets.dedup();
                for outs in sets.iter().filter(|o| !o.is_empty()) {
                    ck2.check(&l, outs, "supplied-intermediate", &dflt);
                    ck2.check(&l, outs, "supplied-intermediate(owned)", &RunCfg { owned_mask: 1u32 << v, ..dflt_cfg() });
                    if plan2.pairs {
                        ck2.check(&l, outs, "supplied-intermediate(all owned)", &RunCfg { owned_mask: (1u32 << (v + 1)) - 1, ..dflt_cfg() });
                    }
                }
            }
        }
    }
    if any_ok {
        stats.programs_ref_ok += 1;
    }
}

fn dflt_cfg<'a>() -> RunCfg<'a> {
    RunCfg { owned_mask: 0, pool: None, order: None, owned_noncontiguous: false }
}

pub fn program_box(ctx: &Ctx) -> Vec<Prog> {
    let full = [
        OpK::Relu, OpK::Identity, OpK::Transpose, OpK::Split, OpK::Add, OpK::Sub, OpK::Mul, OpK::MatMul, OpK::Concat,
        OpK::IfAdd, OpK::IfSub, OpK::IfMMThen, OpK::IfMMElse, OpK::CastRT,
    ];
    let mut progs = Vec::new();
    prog::enumerate(2, 1, 1, &full, &mut progs);
    prog::enumerate(2, 1, 2, &full, &mut progs);
    let three: &[OpK] = if ctx.tier.is_thorough() {
        &[OpK::Relu, OpK::Split, OpK::Transpose, OpK::Add, OpK::Sub, OpK::MatMul, OpK::Concat, OpK::IfAdd]
    } else {
        &[OpK::Relu, OpK::Split, OpK::Add, OpK::Sub, OpK::IfAdd]
    };
    let mut p3 = Vec::new();
    prog::enumerate(2, 1, 3, three, &mut p3);
    progs.extend(p3.into_iter().filter(prog::all_ops_used));
    if ctx.tier.is_thorough() {
        let mut p4 = Vec::new();
        prog::enumerate(1, 1, 4, &[OpK::Relu, OpK::Add, OpK::Sub, OpK::Split], &mut p4);
        progs.extend(p4.into_iter().filter(prog::all_ops_used));
    }
    progs
}


/// Fan-out family: one value consumed by N operators, N around the saturation point of
/// the executor's 8-bit reference counts; the value is a graph input (view / owned) or an
/// operator output. Every consumer's output is requested and must equal Relu(value).
fn fanout_family(ctx: &Ctx, stats: &mut Stats, prefix: &str, replay: Option<&Json>) {
    use rten_tensor::prelude::*;
    use vp_onnx as onnx;
    for &n in &[1usize, 2, 254, 255, 256, 257, 300] {
        for temp in [false, true] {
            for owned in [false, true] {
                if let Some(f) = replay {
                    if f["fanout"]["n"].as_u64() != Some(n as u64) || f["fanout"]["temp"].as_bool() != Some(temp) || f["fanout"]["owned"].as_bool() != Some(owned) {
                        continue;
                    }
                }
                let mut g = onnx::Graph::new("fanout");
                g.inputs.push(onnx::ValueInfo::new("x", onnx::dtype::FLOAT, &[onnx::Dim::Sym("r".into()), onnx::Dim::Sym("c".into())]));
                let src = if temp {
                    g.nodes.push(onnx::Node::new("Neg", &["x"], &["t"]).named("neg"));
                    "t"
                } else {
                    "x"
                };
                for i in 0..n {
                    let o = format!("r{i}");
                    g.nodes.push(onnx::Node::new("Relu", &[src], &[&o]).named(&format!("relu_{i}")));
                    g.outputs.push(onnx::ValueInfo::untyped(&o));
                }
                let model = match subject::load_bytes(onnx::model_bytes(&g), LoadCfg::default()) {
                    Ok(m) => m,
                    Err(e) => {
                        ctx.observe(&format!("fan-out model failed to load: {}", vp_core::truncate(&e, 60)));
                        continue;
                    }
                };
                let xin = NArr::new(&[2, 2], vec![1.0, -2.0, 3.0, -4.0]);
                let want: Vec<f32> = xin.data.iter().map(|v| if temp { (-v).max(0.0) } else { v.max(0.0) }).collect();
                let t = subject::to_tensor(&xin);
                let xid = model.find_node("x").unwrap();
                let inputs: Vec<(NodeId, rten::ValueOrView)> = if owned { vec![(xid, rten::ValueOrView::Value(rten::Value::from(t.clone())))] } else { vec![(xid, rten::ValueOrView::from(t.view()))] };
                let outs: Vec<NodeId> = (0..n).filter_map(|i| model.find_node(&format!("r{i}"))).collect();
                stats.runs += 1;
                let dev = format!("{prefix}fan-out");
                *stats.by_dev.entry(dev.clone()).or_insert(0) += 1;
                let case = || json!({"fanout": {"n": n, "temp": temp, "owned": owned}, "deviation": dev});
                let cls = format!("{} consumers of {} passed {}", if n > 255 { "more than 255" } else { "up to 255" }, if temp { "an operator output" } else { "a graph input" }, if owned { "as an owned value" } else { "as a view" });
                match vp_core::catch(|| model.run(inputs, &outs, None)) {
                    Ok(Ok(vals)) => {
                        for (i, v) in vals.iter().enumerate() {
                            stats.outputs_compared += 1;
                            match subject::value_to_narr(v) {
                                Ok(a) if a.data == want => {}
                                other => {
                                    ctx.violation(format!("[{dev}] consumer output differs from naive evaluation [{cls}]"), case(), format!("output r{i}: {other:?}, want {want:?}"));
                                    break;
                                }
                            }
                        }
                    }
                    Ok(Err(e)) => ctx.violation(format!("[{dev}] run fails although naive evaluation succeeds [{cls}]"), case(), format!("{e}")),
                    Err(p) => ctx.violation(format!("[{dev}] run panics [{cls}]: {}", vp_core::truncate(&p, 50)), case(), p),
                }
            }
        }
    }
}

pub fn run(ctx: Ctx) -> ! {
    let pools = Pools::new();
    let child = std::env::var("VERIF_C02_CHILD").ok();
    let prefix = if child.is_some() { "pool-off+" } else { "" };
    if let Some(path) = &ctx.replay {
        let case = vp_core::read_replay_case(path);
        if !case["fanout"].is_null() {
            let mut stats = Stats::default();
            fanout_family(&ctx, &mut stats, "", Some(&case));
            ctx.finish("exploration", json!({"evaluations": stats.runs.max(1), "distinct_nontrivial": 2, "rule": "replay", "samples": [case]}), vec![]);
        }
        let p = Prog::from_json(&case["program"]);
        let dev = case["deviation"].as_str().unwrap_or("");
        if dev.starts_with("pool-off") && std::env::var("RTEN_USE_POOL").is_err() {
            // re-exec with the pool disabled
            let st = std::process::Command::new(std::env::current_exe().unwrap())
                .args(std::env::args().skip(1))
                .env("RTEN_USE_POOL", "0")
                .env("VERIF_C02_CHILD_REPLAY", "1")
                .status()
                .unwrap();
            std::process::exit(st.code().unwrap_or(2));
        }
        let mut stats = Stats::default();
        let pfx = if dev.starts_with("pool-off") { "pool-off+" } else { "" };
        check_program(&ctx, &p, &pools, &Plan2 { pairs: true, all_subsets: true }, &mut stats, pfx, Some(&case));
        ctx.finish("exploration", json!({"evaluations": stats.runs.max(1), "distinct_nontrivial": 2, "rule": "replay", "samples": [case]}), vec![]);
    }
    let progs = program_box(&ctx);
    let plan2 = Plan2 { pairs: ctx.tier.is_thorough(), all_subsets: true };
    let total = Mutex::new(Stats::default());
    let samples = Samples::new(6);
    let ctxr = &ctx;
    let chunk = 64;
    let nchunks = progs.len().div_ceil(chunk);
    vp_core::par::for_each(nchunks, |c| {
        let mut st = Stats::default();
        for p in &progs[c * chunk..((c + 1) * chunk).min(progs.len())] {
            check_program(ctxr, p, &pools, &plan2, &mut st, prefix, None);
        }
        if c % 97 == 3 {
            samples.push(|| json!({"program": progs[c * chunk].describe()}));
        }
        total.lock().unwrap().merge(st);
    });
    let mut st = total.into_inner().unwrap();
    fanout_family(&ctx, &mut st, prefix, None);
    if let Some(path) = child {
        // child: hand results to the parent
        let out = json!({"violations": ctx.export_violations(), "runs": st.runs, "outputs_compared": st.outputs_compared,
                         "by_dev": st.by_dev, "programs": st.programs});
        std::fs::write(&path, serde_json_to_string(&out)).unwrap();
        std::process::exit(0);
    }
    // pool-off pass in a child process (RTEN_USE_POOL is read from the environment)
    let tmp = std::env::temp_dir().join(format!("vp-c02-child-{}.json", std::process::id()));
    let status = std::process::Command::new(std::env::current_exe().unwrap())
        .args(["C02", ctx.tier.name()])
        .env("RTEN_USE_POOL", "0")
        .env("VERIF_C02_CHILD", &tmp)
        .env("VERIF_TIER", ctx.tier.name())
        .stdout(std::process::Stdio::null())
        .status();
    let mut child_runs = 0u64;
    match status {
        Ok(s) if s.success() => {
            let v: Json = vp_core::serde_json::from_str(&std::fs::read_to_string(&tmp).unwrap_or_default()).unwrap_or(Json::Null);
            ctx.import_violations(&v["violations"]);
            child_runs = v["runs"].as_u64().unwrap_or(0);
            st.outputs_compared += v["outputs_compared"].as_u64().unwrap_or(0);
            if let Some(m) = v["by_dev"].as_object() {
                for (k, n) in m {
                    *st.by_dev.entry(k.clone()).or_insert(0) += n.as_u64().unwrap_or(0);
                }
            }
            let _ = std::fs::remove_file(&tmp);
        }
        other => ctx.machinery(&format!("pool-off child failed: {other:?}")),
    }
    if st.programs_ref_ok < 100 || st.outcomes.len() < 20 || child_runs == 0 || st.orders_tried == 0 {
        ctx.machinery("C02 vacuous: too few programs/outcomes/orders");
    }
    let cov = json!({
        "evaluations": st.runs + child_runs,
        "distinct_nontrivial": st.programs_ref_ok,
        "rule": "all programs of the grammar (each also run with every operator-output value supplied by the caller as a view / owned tensor; <=2 ops over 14 operator kinds incl. a same-size Cast round trip (f32->i32->f32, executed in place on owned values), If with captures and If with branch-local MatMul weights; 3 ops over a reduced kind set, dead-code-free; thorough adds 4 ops) x 2 input fills; non-trivial = programs for which the naive evaluator produces at least one operator output",
        "samples": samples.take(),
        "exhaustive": true,
        "programs": st.programs,
        "runs_pool_on": st.runs,
        "runs_pool_off_child": child_runs,
        "outputs_compared": st.outputs_compared,
        "distinct_output_values": st.outcomes.len(),
        "linear_extensions_executed": st.orders_tried,
        "runs_by_deviation": st.by_dev,
        "deviation_bound": if ctx.tier.is_thorough() { 2 } else { 1 },
        "load_failures": st.load_failures,
    });
    ctx.finish(
        "exploration",
        cov,
        vec![
            "values are small integers in f32 so every summation order agrees bit-for-bit; comparison is exact".into(),
            "thread interleavings inside operator kernels are not controlled (tiny tensors run single-threaded inside rten)".into(),
        ],
    )
}

fn serde_json_to_string(v: &Json) -> String {
    vp_core::serde_json::to_string(v).unwrap()
}
