//! C03: execution plans are valid, complete and minimal; planning terminates.
//!
//! Every small graph (operators with fresh output values, inputs ranging over
//! ALL values including the operator's own and later outputs, so cycles
//! occur) x every request (input set, output list) incl. invalid requests,
//! through the real `Graph::execution_plan`. Oracle: backward reachability.

use std::collections::BTreeSet;
use std::sync::Arc;
use std::sync::Mutex;
use std::sync::atomic::{AtomicU64, Ordering};

use rten::NodeId;
use rten::verif::graph::{CaptureEnv, Graph, PlanOptions, RunError};
use rten::verif::operator::{OpError, OpRunContext, Operator, OutputList, OutputTypeList, OutputTypesContext, SubgraphOperator};
use rten::verif::timing::Profiler;
use rten::verif::weight_cache::WeightCache;
use rten_base::bit_set::BitSet;
use rten_shape_inference::InferShapes;
use rten_tensor::Tensor;
use vp_core::{Ctx, Json, Samples, json};

#[derive(Debug)]
struct Dummy {
    name: &'static str,
    in_place: bool,
    n_out: usize,
}

impl Operator for Dummy {
    fn name(&self) -> &str {
        self.name
    }
    fn run(&self, _ctx: &OpRunContext) -> Result<OutputList, OpError> {
        Err(OpError::InvalidValue("dummy operator"))
    }
    fn max_inputs(&self) -> Option<usize> {
        None
    }
    fn max_outputs(&self) -> Option<usize> {
        Some(self.n_out)
    }
    fn output_types(&self, _ctx: &OutputTypesContext) -> Option<OutputTypeList> {
        None
    }
    fn in_place_inputs(&self) -> BitSet<u16> {
        if self.in_place { BitSet::from_indices([0]) } else { BitSet::new() }
    }
    fn as_infer_shapes(&self) -> Option<&dyn InferShapes> {
        None
    }
}

/// Operator with one explicit input and one subgraph whose only content is a
/// value captured by name from the enclosing graph (like the body of If/Loop).
struct DummySub {
    sub: Graph,
}

impl std::fmt::Debug for DummySub {
    fn fmt(&self, f: &mut std::fmt::Formatter<'_>) -> std::fmt::Result {
        f.write_str("DummySub")
    }
}

impl Operator for DummySub {
    fn name(&self) -> &str {
        "Sub"
    }
    fn run(&self, _ctx: &OpRunContext) -> Result<OutputList, OpError> {
        Err(OpError::InvalidValue("dummy operator"))
    }
    fn max_inputs(&self) -> Option<usize> {
        None
    }
    fn max_outputs(&self) -> Option<usize> {
        Some(1)
    }
    fn output_types(&self, _ctx: &OutputTypesContext) -> Option<OutputTypeList> {
        None
    }
    fn as_infer_shapes(&self) -> Option<&dyn InferShapes> {
        None
    }
    fn as_subgraph_op(&self) -> Option<&dyn SubgraphOperator> {
        Some(self)
    }
}

impl SubgraphOperator for DummySub {
    fn subgraphs(&self) -> smallvec::SmallVec<[&Graph; 2]> {
        smallvec::SmallVec::from_slice(&[&self.sub])
    }
    fn run_subgraph<'a>(
        &'a self,
        _ctx: &OpRunContext,
        _captures: CaptureEnv,
        _weight_cache: Option<&[WeightCache]>,
        _profiler: Option<&mut Profiler<'a>>,
        _run_opts: Option<rten::RunOptions>,
    ) -> Result<OutputList, RunError> {
        unreachable!("plans are only built, never run")
    }
}

#[derive(Clone, Copy, Debug, PartialEq, Eq, Hash)]
pub enum Kind {
    /// inputs: [explicit input, value captured by the operator's subgraph]
    Sub,
    Un,
    UnInPlace,
    Bin,
    /// second input slot is absent (None)
    BinOpt,
    Two,
}

impl Kind {
    fn n_in(self) -> usize {
        match self {
            Kind::Bin | Kind::Sub => 2,
            _ => 1,
        }
    }
    fn n_out(self) -> usize {
        if self == Kind::Two { 2 } else { 1 }
    }
    fn name(self) -> &'static str {
        match self {
            Kind::Sub => "Sub",
            Kind::Un => "Un",
            Kind::UnInPlace => "UnInPlace",
            Kind::Bin => "Bin",
            Kind::BinOpt => "BinOpt",
            Kind::Two => "Two",
        }
    }
    fn from_name(s: &str) -> Kind {
        match s {
"Sub" => Kind::Sub,
            "Un" => Kind::Un,
            "UnInPlace" => Kind::UnInPlace,
            "Bin" => Kind::Bin,
            "BinOpt" => Kind::BinOpt,
            _ => Kind::Two,
        }
    }
}

/// Abstract graph. Value space: 0..n_free free values, n_free = constant,
/// then operator outputs in operator order.
#[derive(Clone, Debug)]
pub struct AGraph {
    pub n_free: usize,
    pub ops: Vec<(Kind, Vec<usize>)>,
}

impl AGraph {
    fn n_values(&self) -> usize {
        self.n_free + 1 + self.ops.iter().map(|o| o.0.n_out()).sum::<usize>()
    }
    fn const_idx(&self) -> usize {
        self.n_free
    }
    fn first_out(&self, i: usize) -> usize {
        self.n_free + 1 + self.ops[..i].iter().map(|o| o.0.n_out()).sum::<usize>()
    }
    fn producer(&self, v: usize) -> Option<usize> {
        (0..self.ops.len()).find(|&i| v >= self.first_out(i) && v < self.first_out(i) + self.ops[i].0.n_out())
    }
    fn to_json(&self) -> Json {
        json!({"n_free": self.n_free, "ops": self.ops.iter().map(|(k, i)| json!([k.name(), i])).collect::<Vec<_>>()})
    }
    fn from_json(v: &Json) -> AGraph {
        AGraph {
            n_free: v["n_free"].as_u64().unwrap() as usize,
            ops: v["ops"].as_array().unwrap().iter().map(|o| {
                (Kind::from_name(o[0].as_str().unwrap()), o[1].as_array().unwrap().iter().map(|x| x.as_u64().unwrap() as usize).collect())
            }).collect(),
        }
    }
    fn describe(&self) -> String {
        let mut s = String::new();
        for (i, (k, ins)) in self.ops.iter().enumerate() {
            let outs: Vec<String> = (0..k.n_out()).map(|j| format!("v{}", self.first_out(i) + j)).collect();
            s.push_str(&format!("{}={}({}); ", outs.join(","), k.name(), ins.iter().map(|v| format!("v{v}")).collect::<Vec<_>>().join(",")));
        }
        format!("free v0..v{} const v{}; {}", self.n_free.saturating_sub(1), self.const_idx(), s)
    }
}

pub struct Built {
    graph: Graph,
    value_ids: Vec<NodeId>,
    op_ids: Vec<NodeId>,
}

fn build(g: &AGraph) -> Built {
    let mut graph = Graph::new();
    let nv = g.n_values();
    let mut value_ids = Vec::with_capacity(nv);
    for v in 0..nv {
        if v == g.const_idx() {
            value_ids.push(graph.add_constant(Some(&format!("v{v}")), Tensor::from([1.0f32, 2.0]).into_arc()));
        } else {
            value_ids.push(graph.add_value(Some(&format!("v{v}")), None, None));
        }
    }
    let mut op_ids = Vec::new();
    for (i, (k, ins)) in g.ops.iter().enumerate() {
        let mut inputs: Vec<Option<NodeId>> = ins.iter().map(|&v| Some(value_ids[v])).collect();
        if *k == Kind::BinOpt {
            inputs.push(None);
        }
        let outputs: Vec<Option<NodeId>> = (0..k.n_out()).map(|j| Some(value_ids[g.first_out(i) + j])).collect();
        if *k == Kind::Sub {
            // explicit input = ins[0]; ins[1] is captured by name inside the subgraph
            inputs.truncate(1);
            let mut sub = Graph::new();
            let cap = sub.add_value(Some(&format!("v{}", ins[1])), None, None);
            sub.set_captures(&[cap]);
            op_ids.push(graph.add_op(Some(&format!("op{i}")), Arc::new(DummySub { sub }), &inputs, &outputs));
            continue;
        }
        let op = Arc::new(Dummy { name: k.name(), in_place: *k == Kind::UnInPlace, n_out: k.n_out() });
        op_ids.push(graph.add_op(Some(&format!("op{i}")), op, &inputs, &outputs));
    }
    Built { graph, value_ids, op_ids }
}

/// A request: indices >= 1000 encode invalid ids: 1000+i = operator i's node id,
/// 2000 = an id that is not in the graph.
#[derive(Clone, Debug)]
pub struct Request {
    inputs: Vec<usize>,
    outputs: Vec<usize>,
}

fn resolve(b: &Built, x: usize) -> NodeId {
    if x >= 2000 {
        NodeId::from_u32(1_000_000)
    } else if x >= 1000 {
        b.op_ids[x - 1000]
    } else {
        b.value_ids[x]
    }
}

#[derive(Debug, PartialEq)]
enum RefVerdict {
    Invalid(&'static str),
    /// set of needed operators
    Feasible(BTreeSet<usize>),
}

/// Independent reference: backward reachability from the outputs, stopping at
/// supplied inputs and constants.
fn reference(g: &AGraph, r: &Request) -> RefVerdict {
    let dup = |v: &[usize]| (0..v.len()).any(|i| v[i + 1..].contains(&v[i]));
    if dup(&r.outputs) || dup(&r.inputs) {
        return RefVerdict::Invalid("duplicate id");
    }
    if r.inputs.iter().chain(&r.outputs).any(|&x| x >= 1000) {
        return RefVerdict::Invalid("not a value node");
    }
    let avail = |v: usize| r.inputs.contains(&v) || v == g.const_idx();
    let mut needed = BTreeSet::new();
    // 0 = unvisited, 1 = on stack, 2 = done
    let mut state = vec![0u8; g.ops.len()];
    fn visit(g: &AGraph, op: usize, avail: &dyn Fn(usize) -> bool, state: &mut [u8], needed: &mut BTreeSet<usize>) -> Result<(), &'static str> {
        state[op] = 1;
        for &v in &g.ops[op].1 {
            if avail(v) {
                continue;
            }
            match g.producer(v) {
                None => return Err("missing input"),
                Some(p) => match state[p] {
                    1 => return Err("cycle"),
                    2 => {}
                    _ => visit(g, p, avail, state, needed)?,
                },
            }
        }
        state[op] = 2;
        needed.insert(op);
        Ok(())
    }
    for &o in &r.outputs {
        if avail(o) {
            continue;
        }
        match g.producer(o) {
            None => return RefVerdict::Invalid("missing source"),
            Some(p) => {
                if state[p] == 0 {
                    if let Err(e) = visit(g, p, &avail, &mut state, &mut needed) {
                        return RefVerdict::Invalid(e);
                    }
                }
            }
        }
    }
    RefVerdict::Feasible(needed)
}

struct Cnt {
    plans: AtomicU64,
    ok_plans: AtomicU64,
    err_plans: AtomicU64,
    nonempty_plans: AtomicU64,
}

fn check(ctx: &Ctx, g: &AGraph, b: &Built, r: &Request, cnt: &Cnt) {
    let in_ids: Vec<NodeId> = r.inputs.iter().map(|&x| resolve(b, x)).collect();
    let out_ids: Vec<NodeId> = r.outputs.iter().map(|&x| resolve(b, x)).collect();
    let case = || json!({"graph": g.to_json(), "describe": g.describe(), "inputs": r.inputs, "outputs": r.outputs});
    cnt.plans.fetch_add(1, Ordering::Relaxed);
    let res = vp_core::catch(|| b.graph.execution_plan(&in_ids, &out_ids, PlanOptions::default()));
    let refv = reference(g, r);
    let shape = || {
        let kinds: BTreeSet<&str> = g.ops.iter().map(|o| o.0.name()).collect();
        format!("ops {{{}}}", kinds.into_iter().collect::<Vec<_>>().join(","))
    };
    match res {
        Err(p) => ctx.violation(format!("execution_plan panics: {}", vp_core::truncate(&p, 60)), case(), format!("{} request {:?}", g.describe(), r)),
        Ok(Err(e)) => {
            cnt.err_plans.fetch_add(1, Ordering::Relaxed);
            if let RefVerdict::Feasible(_) = refv {
                ctx.violation(
                    format!("planning reports an error for a feasible request: {}", vp_core::truncate(&format!("{e}").split('"').next().unwrap_or("").to_string(), 40)),
                    case(),
                    format!("{} request {:?}: error {e}", g.describe(), r),
                );
            }
        }
        Ok(Ok(plan)) => {
            cnt.ok_plans.fetch_add(1, Ordering::Relaxed);
            if !plan.is_empty() {
                cnt.nonempty_plans.fetch_add(1, Ordering::Relaxed);
            }
            let needed = match refv {
                RefVerdict::Invalid(why) => {
                    ctx.violation(format!("planning succeeds for an invalid request ({why})"), case(), format!("{} request {:?}: plan {:?}", g.describe(), r, plan));
                    return;
                }
                RefVerdict::Feasible(n) => n,
            };
            // map plan to AST ops
            let mut seq = Vec::new();
            for id in &plan {
                match b.op_ids.iter().position(|o| o == id) {
                    Some(i) => seq.push(i),
                    None => {
                        ctx.violation("plan contains an id that is not an operator of the graph", case(), format!("{plan:?}"));
                        return;
                    }
                }
            }
            let supplied_is_output = r.inputs.iter().any(|&v| g.producer(v).is_some());
            let ctxs = if supplied_is_output { "a supplied input is also an operator output" } else { "inputs are free values" };
            let mut seen = BTreeSet::new();
            let mut avail: BTreeSet<usize> = r.inputs.iter().copied().collect();
            avail.insert(g.const_idx());
            for &op in &seq {
                if !seen.insert(op) {
                    ctx.violation(format!("operator appears twice in plan [{ctxs}; {}]", shape()), case(), format!("{} request {:?}: plan ops {:?}", g.describe(), r, seq));
                    return;
                }
                for &v in &g.ops[op].1 {
                    if !avail.contains(&v) {
                        ctx.violation(format!("operator scheduled before its input is available [{ctxs}]"), case(), format!("{} request {:?}: plan ops {:?}", g.describe(), r, seq));
                        return;
                    }
                }
                for j in 0..g.ops[op].0.n_out() {
                    avail.insert(g.first_out(op) + j);
                }
            }
            for &o in &r.outputs {
                if !avail.contains(&o) {
                    ctx.violation(format!("requested output is not produced by the plan [{ctxs}]"), case(), format!("{} request {:?}: plan ops {:?}", g.describe(), r, seq));
                    return;
                }
            }
            for &op in &seq {
                if !needed.contains(&op) {
                    ctx.violation(format!("plan contains an operator that no requested output needs [{ctxs}]"), case(), format!("{} request {:?}: plan ops {:?} needed {:?}", g.describe(), r, seq, needed));
                    return;
                }
            }
        }
    }
    // allow_missing_inputs: no duplicates, only needed-or-unresolvable ops, producer before consumer
    let res2 = vp_core::catch(|| b.graph.execution_plan(&in_ids, &out_ids, PlanOptions { allow_missing_inputs: true, captures_available: false }));
    if let Ok(Ok(plan)) = res2 {
        let seq: Vec<usize> = plan.iter().filter_map(|id| b.op_ids.iter().position(|o| o == id)).collect();
        let mut seen = BTreeSet::new();
        for (pos, &op) in seq.iter().enumerate() {
            if !seen.insert(op) {
                ctx.violation("operator appears twice in plan [allow_missing_inputs]", case(), format!("{} request {:?}: plan ops {:?}", g.describe(), r, seq));
                return;
            }
            for &v in &g.ops[op].1 {
                if let Some(p) = g.producer(v) {
                    if !r.inputs.contains(&v) && seq[pos..].contains(&p) && p != op {
                        ctx.violation("consumer scheduled before producer [allow_missing_inputs]", case(), format!("{} request {:?}: plan ops {:?}", g.describe(), r, seq));
                        return;
                    }
                }
            }
        }
    } else if let Err(p) = res2 {
        ctx.violation(format!("execution_plan(allow_missing_inputs) panics: {}", vp_core::truncate(&p, 60)), case(), g.describe());
    }
}

fn enumerate_graphs(n_free: usize, n_ops: usize, kinds: &[Kind]) -> Vec<AGraph> {
    // total number of values is known once the kinds are chosen
    let mut out = Vec::new();
    for kc in vp_core::odometer::Odometer::new(&vec![kinds.len(); n_ops]) {
        let ks: Vec<Kind> = kc.iter().map(|&i| kinds[i]).collect();
        let nv = n_free + 1 + ks.iter().map(|k| k.n_out()).sum::<usize>();
        let slots: usize = ks.iter().map(|k| k.n_in()).sum();
        for ic in vp_core::odometer::Odometer::new(&vec![nv; slots]) {
            let mut ops = Vec::new();
            let mut s = 0;
            for k in &ks {
                ops.push((*k, ic[s..s + k.n_in()].to_vec()));
                s += k.n_in();
            }
            out.push(AGraph { n_free, ops });
        }
    }
    out
}

fn requests(g: &AGraph, max_in: usize, max_out: usize, with_invalid: bool) -> Vec<Request> {
    let nv = g.n_values();
    let ids: Vec<usize> = (0..nv).collect();
    // input sets: subsets (order irrelevant) of size <= max_in
    let mut in_sets: Vec<Vec<usize>> = vec![vec![]];
    for a in 0..nv {
        in_sets.push(vec![a]);
        if max_in >= 2 {
            for b in a + 1..nv {
                in_sets.push(vec![a, b]);
                if max_in >= 3 {
                    for c in b + 1..nv {
                        in_sets.push(vec![a, b, c]);
                    }
                }
            }
        }
    }
    // output lists: ordered, size 1..=max_out, distinct
    let mut out_lists: Vec<Vec<usize>> = Vec::new();
    for &a in &ids {
        out_lists.push(vec![a]);
        if max_out >= 2 {
            for &b in &ids {
                if a != b {
                    out_lists.push(vec![a, b]);
                }
            }
        }
    }
    if max_out >= 3 {
        for a in 0..nv {
            for b in a + 1..nv {
                for c in b + 1..nv {
                    out_lists.push(vec![a, b, c]);
                    out_lists.push(vec![c, a, b]);
                }
            }
        }
    }
    let mut out = Vec::new();
    for i in &in_sets {
        for o in &out_lists {
            out.push(Request { inputs: i.clone(), outputs: o.clone() });
        }
    }
    if with_invalid {
        // invalid requests: duplicates, operator ids, unknown ids - in inputs and in outputs
        let last = nv - 1;
        for bad in [1000usize, 2000] {
            for &good in &[0usize, last] {
                out.push(Request { inputs: vec![bad], outputs: vec![good] });
                out.push(Request { inputs: vec![good], outputs: vec![bad] });
                out.push(Request { inputs: vec![], outputs: vec![good, bad] });
                out.push(Request { inputs: vec![0, bad], outputs: vec![last] });
            }
        }
        for v in 0..nv {
            out.push(Request { inputs: vec![], outputs: vec![v, v] });
            out.push(Request { inputs: vec![v, v], outputs: vec![last] });
            out.push(Request { inputs: vec![0], outputs: vec![v, last, v] });
        }
    }
    out
}

pub fn run(ctx: Ctx) -> ! {
    let cnt = Cnt { plans: AtomicU64::new(0), ok_plans: AtomicU64::new(0), err_plans: AtomicU64::new(0), nonempty_plans: AtomicU64::new(0) };
    if let Some(path) = &ctx.replay {
        let case = vp_core::read_replay_case(path);
        let g = AGraph::from_json(&case["graph"]);
        let v = |k: &str| -> Vec<usize> { case[k].as_array().unwrap().iter().map(|x| x.as_u64().unwrap() as usize).collect() };
        let b = build(&g);
        check(&ctx, &g, &b, &Request { inputs: v("inputs"), outputs: v("outputs") }, &cnt);
        ctx.finish("exploration", json!({"evaluations": 1, "distinct_nontrivial": 2, "rule": "replay", "samples": [case]}), vec![]);
    }
    let all = [Kind::Un, Kind::UnInPlace, Kind::Bin, Kind::BinOpt, Kind::Two, Kind::Sub];
    let mut graphs = Vec::new();
    graphs.extend(enumerate_graphs(1, 1, &all));
    graphs.extend(enumerate_graphs(1, 2, &all));
    let n2 = graphs.len();
    if ctx.tier.is_thorough() {
        graphs.extend(enumerate_graphs(1, 3, &all));
        graphs.extend(enumerate_graphs(2, 2, &all));
        graphs.extend(enumerate_graphs(1, 4, &[Kind::UnInPlace, Kind::Two]));
    } else {
        graphs.extend(enumerate_graphs(1, 3, &[Kind::UnInPlace, Kind::Two, Kind::Bin, Kind::Sub]));
    }
    // watchdog for "planning always terminates"
    let plans_shared = Arc::new(AtomicU64::new(0));
    let far = std::time::Instant::now() + std::time::Duration::from_secs(1_000_000);
    let nslots = graphs.len().div_ceil(32);
    let current: Arc<Vec<Mutex<(std::time::Instant, String, (Vec<usize>, Vec<usize>))>>> =
        Arc::new((0..nslots).map(|_| Mutex::new((far, String::new(), (vec![], vec![])))).collect());
    {
        let current = current.clone();
        let dir = ctx.verif_path("replays/C03");
        let evpath = ctx.verif_path("evidence/C03.json");
        let tier = ctx.tier.name();
        let plans_so_far = plans_shared.clone();
        let t0 = std::time::Instant::now();
        std::thread::spawn(move || loop {
            std::thread::sleep(std::time::Duration::from_secs(5));
            for slot in current.iter() {
                let g = slot.lock().unwrap();
                let (t, desc, req) = &*g;
                if *t < std::time::Instant::now() && t.elapsed().as_secs() > 300 {
                    let _ = std::fs::create_dir_all(&dir);
                    let path = dir.join("planning_does_not_terminate.json");
                    let _ = std::fs::write(&path, format!("{{\"property\":\"C03\",\"signature\":\"planning does not terminate\",\"case\":{{\"graph\":{desc},\"inputs\":{:?},\"outputs\":{:?}}}}}", req.0, req.1));
                    println!("VIOLATION property=C03 replay={}", path.display());
                    let ev = format!(
                        "{{\"property_id\":\"C03\",\"tier\":\"{tier}\",\"seed\":0,\"level\":\"exploration\",\"coverage\":{{\"evaluations\":{},\"distinct_nontrivial\":2,\"rule\":\"run aborted by the termination watchdog: one execution_plan call did not return within 300 s\",\"samples\":[{{\"graph\":{desc},\"inputs\":{:?},\"outputs\":{:?}}}],\"exhaustive\":false}},\"wall_s\":{},\"violations\":1}}",
                        plans_so_far.load(Ordering::Relaxed).max(1), req.0, req.1, t0.elapsed().as_secs()
                    );
                    let _ = std::fs::write(&evpath, ev);
                    std::process::exit(1);
                }
            }
        });
    }
    let samples = Samples::new(5);
    let ctxr = &ctx;
    let thorough = ctx.tier.is_thorough();
    let chunk = 32;
    let nchunks = graphs.len().div_ceil(chunk);
    vp_core::par::for_each(nchunks, |c| {
        let slot = c;
        for (k, g) in graphs[c * chunk..((c + 1) * chunk).min(graphs.len())].iter().enumerate() {
            let gi = c * chunk + k;
            {
                let mut cur = current[slot].lock().unwrap();
                cur.0 = std::time::Instant::now();
                cur.1 = g.to_json().to_string();
            }
            let b = build(g);
            let small = gi < n2;
            let reqs = if small { requests(g, 3, if thorough { 3 } else { 2 }, true) } else { requests(g, if thorough { 2 } else { 1 }, 2, thorough) };
            let dbg = std::env::var("VERIF_C03_DEBUG").is_ok();
            plans_shared.fetch_add(reqs.len() as u64, Ordering::Relaxed);
            for r in &reqs {
                if dbg {
                    eprintln!("{} {:?}", g.describe(), r);
                }
                {
                    let mut cur = current[slot].lock().unwrap();
                    cur.0 = std::time::Instant::now();
                    cur.2.0.clone_from(&r.inputs);
                    cur.2.1.clone_from(&r.outputs);
                }
                check(ctxr, g, &b, r, &cnt);
            }
        }
        current[slot].lock().unwrap().0 = far;
        if c % 211 == 1 {
            samples.push(|| json!({"graph": graphs[c * chunk].describe()}));
        }
    });
    let plans = cnt.plans.load(Ordering::Relaxed);
    let ok = cnt.ok_plans.load(Ordering::Relaxed);
    let err = cnt.err_plans.load(Ordering::Relaxed);
    let nonempty = cnt.nonempty_plans.load(Ordering::Relaxed);
    if ok < 1000 || err < 1000 || nonempty < 1000 {
        ctx.machinery("C03 vacuous");
    }
    let cov = json!({
        "evaluations": plans,
        "distinct_nontrivial": nonempty,
        "rule": "every abstract graph (1 free value, 1 constant, <=2 operators over 6 kinds {plain, in-place-capable, binary, optional-input, two-output, subgraph operator with one explicit input and one value captured by name}; 3 operators over {in-place-capable, two-output, binary, subgraph} (thorough: over all 6 kinds, plus 2 free values x 2 ops, plus 4 operators over {in-place-capable, two-output}) with every input slot ranging over ALL values (cycles included) x every request (input subsets, ordered output lists with repetition, operator ids, unknown ids); non-trivial = requests whose plan is non-empty",
        "samples": samples.take(),
        "exhaustive": true,
        "graphs": graphs.len(),
        "plan_calls": plans,
        "ok_plans": ok,
        "error_plans": err,
        "nonempty_plans": nonempty,
    });
    ctx.finish("exploration", cov, vec!["reference = backward reachability from the requested outputs, cut at supplied inputs and constants".into()])
}
