//! C04: partial evaluation composes with full evaluation; non-deterministic
//! operators are never evaluated by partial_run or folded into constants.
//!
//! Every program of the grammar (incl. a RandomUniform source) x optimisation
//! on/off x every subset of the graph inputs x several output sets:
//! run(all inputs) must equal run(remaining inputs + partial_run(subset)).

use std::collections::HashSet;
use std::sync::Mutex;

use rten::{NodeId, Value, ValueOrView};
use rten_tensor::prelude::*;
use vp_core::{Ctx, Samples, json};

use crate::prog::{self, NArr, OpK, Prog};
use crate::subject::{self, LoadCfg, Loaded};

#[derive(Default)]
struct St {
    programs: u64,
    compositions: u64,
    partial_nonempty: u64,
    partial_total: u64,
    random_programs: u64,
    random_diff_confirmed: u64,
}

/// values (transitively) downstream of a Random op
fn tainted(p: &Prog) -> HashSet<usize> {
    let mut t = HashSet::new();
    for (i, op) in p.ops.iter().enumerate() {
        let f = p.first_out(i);
        if op.kind == OpK::Random || op.kind == OpK::RandomLike || op.ins.iter().any(|v| t.contains(v)) {
            for k in 0..op.kind.n_out() {
                t.insert(f + k);
            }
        }
    }
    t
}

fn run_ids(l: &Loaded, inputs: Vec<(NodeId, ValueOrView)>, outs: &[NodeId]) -> Result<Vec<NArr>, String> {
    match vp_core::catch(|| l.model.run(inputs, outs, None)) {
        Ok(Ok(v)) => v.iter().map(subject::value_to_narr).collect(),
        Ok(Err(e)) => Err(format!("error: {e}")),
        Err(p) => Err(format!("PANIC: {p}")),
    }
}

fn check_program(ctx: &Ctx, p: &Prog, optimize: bool, st: &mut St) {
    let Ok(l) = subject::load(p, LoadCfg { optimize, ..Default::default() }) else { return };
    st.programs += 1;
    let taint = tainted(p);
    let has_random = !taint.is_empty();
    let inputs: Vec<NArr> = (0..p.n_inputs).map(|i| prog::input_fill(0, i)).collect();
    let tensors: Vec<_> = inputs.iter().map(subject::to_tensor).collect();
    let op_outs: Vec<usize> = (p.n_inputs + p.n_consts..p.n_values()).filter(|&v| l.ids[v].is_some()).collect();
    let mut out_sets: Vec<Vec<usize>> = vec![op_outs.clone()];
    for &o in &op_outs {
        out_sets.push(vec![o]);
    }
    out_sets.push((0..p.n_inputs + p.n_consts).filter(|&v| l.ids[v].is_some()).collect());
    out_sets.retain(|s| !s.is_empty());
    out_sets.dedup();
    let cfgname = if optimize { "optimized" } else { "unoptimized" };
    for outs in &out_sets {
        let out_ids: Vec<NodeId> = outs.iter().map(|&o| l.ids[o].unwrap()).collect();
        let all_inputs = |own: bool| -> Vec<(NodeId, ValueOrView)> {
            (0..p.n_inputs)
                .map(|i| {
                    let id = l.ids[i].unwrap();
                    if own { (id, ValueOrView::Value(Value::from(tensors[i].clone()))) } else { (id, ValueOrView::from(tensors[i].view())) }
                })
                .collect()
        };
        let Ok(full) = run_ids(&l, all_inputs(false), &out_ids) else { continue };
        for mask in 0u32..(1 << p.n_inputs) {
            let case = || json!({"program": p.to_json(), "describe": p.describe(), "optimize": optimize, "partial_inputs_mask": mask, "outputs": outs});
            let part_inputs: Vec<(NodeId, ValueOrView)> =
                (0..p.n_inputs).filter(|i| mask >> i & 1 == 1).map(|i| (l.ids[i].unwrap(), ValueOrView::from(tensors[i].view()))).collect();
            st.partial_total += 1;
            let pr = match vp_core::catch(|| l.model.partial_run(part_inputs, &out_ids, None)) {
                Ok(Ok(v)) => v,
                Ok(Err(e)) => {
                    ctx.violation(format!("partial_run fails where the full run succeeds [{cfgname}]: {}", vp_core::truncate(&format!("{e}"), 40)), case(), format!("{} : {e}", p.describe()));
                    continue;
                }
                Err(m) => {
                    ctx.violation(format!("partial_run panics [{cfgname}]: {}", vp_core::truncate(&m, 50)), case(), format!("{} : {m}", p.describe()));
                    continue;
                }
            };
            if !pr.is_empty() {
                st.partial_nonempty += 1;
            }
            // no returned value may depend on a non-deterministic operator
            for (id, _) in &pr {
                if let Some(v) = (0..p.n_values()).find(|&v| l.ids[v] == Some(*id)) {
                    if taint.contains(&v) {
                        ctx.violation(format!("partial_run evaluated a value that depends on a non-deterministic operator [{cfgname}]"), case(), format!("{} returned {}", p.describe(), p.vname(v)));
                    }
                }
            }
            // compose
            let mut second: Vec<(NodeId, ValueOrView)> = Vec::new();
            let pr_ids: HashSet<NodeId> = pr.iter().map(|(id, _)| *id).collect();
            for i in 0..p.n_inputs {
                let id = l.ids[i].unwrap();
                if mask >> i & 1 == 0 && !pr_ids.contains(&id) {
                    second.push((id, ValueOrView::from(tensors[i].view())));
                }
            }
            for (id, v) in pr {
                second.push((id, ValueOrView::Value(v)));
            }
            st.compositions += 1;
            match run_ids(&l, second, &out_ids) {
                Ok(vals) => {
                    for (k, &o) in outs.iter().enumerate() {
                        if taint.contains(&o) {
                            continue;
                        }
                        if !vals[k].same(&full[k]) {
                            ctx.violation(
                                format!("run(rest + partial_run(subset)) differs from run(all) [{cfgname}]"),
                                case(),
                                format!("{} output {}: composed {:?} full {:?}", p.describe(), p.vname(o), vals[k], full[k]),
                            );
                            break;
                        }
                    }
                }
                Err(e) => {
                    ctx.violation(format!("run(rest + partial_run(subset)) fails although run(all) succeeds [{cfgname}]: {}", vp_core::truncate(&e, 40)), case(), format!("{} : {e}", p.describe()));
                }
            }
        }
    }
    // a random source must still vary between runs after optimisation
    if has_random {
        st.random_programs += 1;
        if let Some(ri) = p.ops.iter().position(|o| o.kind == OpK::Random || o.kind == OpK::RandomLike) {
            let v = p.first_out(ri);
            if let Some(id) = l.ids[v] {
                let mk = || -> Vec<(NodeId, ValueOrView)> { (0..p.n_inputs).map(|i| (l.ids[i].unwrap(), ValueOrView::from(tensors[i].view()))).collect() };
                if let (Ok(a), Ok(b)) = (run_ids(&l, mk(), &[id]), run_ids(&l, mk(), &[id])) {
                    if a[0].same(&b[0]) {
                        ctx.violation(format!("a random generator returns the same values on two runs (folded into a constant?) [{cfgname}]"), json!({"program": p.to_json(), "optimize": optimize}), p.describe());
                    } else {
                        st.random_diff_confirmed += 1;
                    }
                }
            }
        }
    }
}

pub fn run(ctx: Ctx) -> ! {
    if let Some(path) = &ctx.replay {
        let case = vp_core::read_replay_case(path);
        let p = Prog::from_json(&case["program"]);
        let mut st = St::default();
        check_program(&ctx, &p, case["optimize"].as_bool().unwrap_or(false), &mut st);
        ctx.finish("exploration", json!({"evaluations": st.compositions.max(1), "distinct_nontrivial": 2, "rule": "replay", "samples": [case]}), vec![]);
    }
    let kinds = [OpK::Relu, OpK::Identity, OpK::Transpose, OpK::Split, OpK::Add, OpK::Sub, OpK::Mul, OpK::MatMul, OpK::Concat, OpK::IfAdd, OpK::Random, OpK::RandomLike];
    let mut progs = Vec::new();
    prog::enumerate(2, 1, 1, &kinds, &mut progs);
    prog::enumerate(2, 1, 2, &kinds, &mut progs);
    let three: &[OpK] = if ctx.tier.is_thorough() { &[OpK::Relu, OpK::Split, OpK::Add, OpK::Sub, OpK::MatMul, OpK::IfAdd, OpK::Random, OpK::RandomLike] } else { &[OpK::Relu, OpK::Add, OpK::Random, OpK::RandomLike] };
    let mut p3 = Vec::new();
    prog::enumerate(2, 1, 3, three, &mut p3);
    progs.extend(p3.into_iter().filter(prog::all_ops_used));
    let total = Mutex::new(St::default());
    let samples = Samples::new(5);
    let ctxr = &ctx;
    let chunk = 32;
    vp_core::par::for_each(progs.len().div_ceil(chunk), |c| {
        let mut st = St::default();
        for p in &progs[c * chunk..((c + 1) * chunk).min(progs.len())] {
            check_program(ctxr, p, false, &mut st);
            check_program(ctxr, p, true, &mut st);
        }
        if c % 151 == 5 {
            samples.push(|| json!({"program": progs[c * chunk].describe()}));
        }
        let mut t = total.lock().unwrap();
        t.programs += st.programs;
        t.compositions += st.compositions;
        t.partial_nonempty += st.partial_nonempty;
        t.partial_total += st.partial_total;
        t.random_programs += st.random_programs;
        t.random_diff_confirmed += st.random_diff_confirmed;
    });
    let t = total.into_inner().unwrap();
    if t.partial_nonempty < 1000 || t.random_diff_confirmed < 10 {
        ctx.machinery(&format!("C04 vacuous: partial_nonempty={} random_diff={}", t.partial_nonempty, t.random_diff_confirmed));
    }
    let cov = json!({
        "evaluations": t.compositions,
        "distinct_nontrivial": t.partial_nonempty,
        "rule": "programs (<=2 ops over 12 kinds incl. RandomUniform, RandomUniformLike (a non-deterministic operator WITH an input) and If, 3 ops over a reduced set) x {optimize off,on} x every subset of the 2 graph inputs x output sets {all op outputs, each single op output, inputs+constants}; non-trivial = partial_run calls that returned at least one value",
        "samples": samples.take(),
        "exhaustive": true,
        "program_loads": t.programs,
        "partial_run_calls": t.partial_total,
        "programs_with_random_op(loads)": t.random_programs,
        "random_output_varies_between_runs_confirmed": t.random_diff_confirmed,
    });
    ctx.finish("exploration", cov, vec!["outputs downstream of a random generator are excluded from the equality check (they legitimately differ between runs)".into()])
}
