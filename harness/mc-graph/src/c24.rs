//! C24: control-flow subgraphs behave like the equivalent inlined graph, and a
//! subgraph never changes a parent value that is still needed afterwards.
//!
//! Programs with If / Loop (and one level of nesting) are generated from
//! templates whose holes are filled exhaustively (bodies over captured parent
//! values, capture use patterns, conditions, trip counts, loop-carried values,
//! scan outputs), run through the real Model with optimisation on and off and
//! owned/borrowed inputs, and compared with a reference evaluator that inlines
//! the selected branch / unrolls the loop with an explicit environment.

use std::collections::HashMap;
use std::sync::Mutex;

use rten::{NodeId, Value, ValueOrView};
use rten_tensor::prelude::*;
use vp_core::{Ctx, Json, Samples, json};
use vp_onnx as onnx;

use crate::prog::{NArr, OpK, eval_op};
use crate::subject::{self, LoadCfg};

#[derive(Clone, Debug, PartialEq)]
pub enum N {
    /// simple operator: kind, inputs, output
    S(OpK, Vec<String>, String),
    /// Not(a) -> out (bool)
    Not(String, String),
    /// Less(iter, k) -> out (bool); k is an i64 constant
    LessK(String, i64, String),
    If { cond: String, then_b: Block, else_b: Block, outs: Vec<String> },
    /// trip: Some(const) ; cond0: initial condition; carried: init names
    Loop { trip: i64, cond0: bool, carried: Vec<String>, body: Block, outs: Vec<String> },
}

#[derive(Clone, Debug, PartialEq, Default)]
pub struct Block {
    pub params: Vec<String>,
    pub nodes: Vec<N>,
    pub outputs: Vec<String>,
}

#[derive(Clone, Debug)]
pub enum V {
    F(NArr),
    B(bool),
    I(i64),
}

type Env<'a> = Vec<&'a HashMap<String, V>>;

fn lookup(env: &Env, local: &HashMap<String, V>, name: &str) -> Result<V, String> {
    if let Some(v) = local.get(name) {
        return Ok(v.clone());
    }
    for m in env.iter().rev() {
        if let Some(v) = m.get(name) {
            return Ok(v.clone());
        }
    }
    Err(format!("unbound {name}"))
}

fn as_f(v: V) -> Result<NArr, String> {
    match v {
        V::F(a) => Ok(a),
        _ => Err("expected float tensor".into()),
    }
}

/// Evaluate a block in an environment; returns its outputs. `trace` receives
/// every (name, value) bound in the *top-level* block.
pub fn eval_block(b: &Block, env: &Env, args: Vec<V>, top: Option<&mut HashMap<String, V>>) -> Result<Vec<V>, String> {
    let mut local: HashMap<String, V> = HashMap::new();
    for (p, a) in b.params.iter().zip(args) {
        local.insert(p.clone(), a);
    }
    for n in &b.nodes {
        match n {
            N::S(k, ins, out) => {
                let vals: Result<Vec<NArr>, String> = ins.iter().map(|i| lookup(env, &local, i).and_then(as_f)).collect();
                let r = eval_op(*k, &vals?)?;
                local.insert(out.clone(), V::F(r[0].clone()));
            }
            N::Not(a, out) => match lookup(env, &local, a)? {
                V::B(x) => {
                    local.insert(out.clone(), V::B(!x));
                }
                _ => return Err("Not on non-bool".into()),
            },
            N::LessK(a, k, out) => match lookup(env, &local, a)? {
                V::I(x) => {
                    local.insert(out.clone(), V::B(x < *k));
                }
                _ => return Err("Less on non-int".into()),
            },
            N::If { cond, then_b, else_b, outs } => {
                let c = match lookup(env, &local, cond)? {
                    V::B(x) => x,
                    _ => return Err("If cond".into()),
                };
                let mut e2 = env.clone();
                e2.push(&local);
                let r = eval_block(if c { then_b } else { else_b }, &e2, vec![], None)?;
                let binds: Vec<(String, V)> = outs.iter().cloned().zip(r).collect();
                for (o, v) in binds {
                    local.insert(o, v);
                }
            }
            N::Loop { trip, cond0, carried, body, outs } => {
                let mut cond = *cond0;
                let mut car: Vec<V> = carried.iter().map(|c| lookup(env, &local, c)).collect::<Result<_, _>>()?;
                let n_scan = body.outputs.len() - 1 - car.len();
                let mut scans: Vec<Vec<NArr>> = vec![vec![]; n_scan];
                let mut i = 0i64;
                while i < *trip && cond {
                    let mut args = vec![V::I(i), V::B(cond)];
                    args.extend(car.drain(..));
                    let mut e2 = env.clone();
                    e2.push(&local);
                    let mut r = eval_block(body, &e2, args, None)?;
                    cond = match r.remove(0) {
                        V::B(x) => x,
                        _ => return Err("loop cond type".into()),
                    };
                    let nc = carried.len();
                    car = r.drain(..nc).collect();
                    for (k, s) in r.into_iter().enumerate() {
                        scans[k].push(as_f(s)?);
                    }
                    i += 1;
                }
                let mut results: Vec<Option<V>> = car.into_iter().map(Some).collect();
                for s in scans {
                    if s.is_empty() {
                        // zero iterations: the statement defines outputs by evaluating iterations; not asserted
                        results.push(None);
                    } else {
                        let mut shape = vec![s.len()];
                        shape.extend_from_slice(&s[0].shape);
                        let mut data = Vec::new();
                        for x in &s {
                            if x.shape != s[0].shape {
                                return Err("scan shapes differ".into());
                            }
                            data.extend_from_slice(&x.data);
                        }
                        results.push(Some(V::F(NArr { shape, data })));
                    }
                }
                for (o, v) in outs.iter().zip(results) {
                    if let Some(v) = v {
                        local.insert(o.clone(), v);
                    }
                }
            }
        }
    }
    let outs: Result<Vec<V>, String> = b.outputs.iter().map(|o| lookup(env, &local, o)).collect();
    if let Some(t) = top {
        *t = local;
    }
    outs
}

// ---------- ONNX encoding ----------

fn encode_block(b: &Block, name: &str, counter: &mut usize) -> onnx::Graph {
    let mut g = onnx::Graph::new(name);
    for p in &b.params {
        g.inputs.push(onnx::ValueInfo::untyped(p));
    }
    for n in &b.nodes {
        *counter += 1;
        let id = *counter;
        match n {
            N::S(k, ins, out) => {
                let ins_ref: Vec<&str> = ins.iter().map(|s| s.as_str()).collect();
                let mut node = onnx::Node::new(k.name(), &ins_ref, &[out]).named(&format!("n{id}"));
                if *k == OpK::Concat {
                    node = node.attr("axis", onnx::Attr::Int(0));
                }
                g.nodes.push(node);
            }
            N::Not(a, out) => g.nodes.push(onnx::Node::new("Not", &[a], &[out]).named(&format!("n{id}"))),
            N::LessK(a, k, out) => {
                let kn = format!("k{id}");
                g.initializers.push(onnx::Tensor::i64(&kn, &[], &[*k]));
                g.nodes.push(onnx::Node::new("Less", &[a, &kn], &[out]).named(&format!("n{id}")));
            }
            N::If { cond, then_b, else_b, outs } => {
                let outs_ref: Vec<&str> = outs.iter().map(|s| s.as_str()).collect();
                let tg = encode_block(then_b, &format!("then{id}"), counter);
                let eg = encode_block(else_b, &format!("else{id}"), counter);
                g.nodes.push(
                    onnx::Node::new("If", &[cond], &outs_ref)
                        .named(&format!("n{id}"))
                        .attr("then_branch", onnx::Attr::Graph(tg))
                        .attr("else_branch", onnx::Attr::Graph(eg)),
                );
            }
            N::Loop { trip, cond0, carried, body, outs } => {
                let tn = format!("trip{id}");
                let cn = format!("cond{id}");
                g.initializers.push(onnx::Tensor::i64(&tn, &[], &[*trip]));
                g.initializers.push(onnx::Tensor::bool(&cn, &[], &[*cond0]));
                let mut ins: Vec<&str> = vec![&tn, &cn];
                ins.extend(carried.iter().map(|s| s.as_str()));
                let outs_ref: Vec<&str> = outs.iter().map(|s| s.as_str()).collect();
                let bg = encode_block(body, &format!("body{id}"), counter);
                g.nodes.push(onnx::Node::new("Loop", &ins, &outs_ref).named(&format!("n{id}")).attr("body", onnx::Attr::Graph(bg)));
            }
        }
    }
    for o in &b.outputs {
        g.outputs.push(onnx::ValueInfo::untyped(o));
    }
    g
}

#[derive(Clone, Debug)]
pub struct CfProg {
    pub top: Block,
    /// names of bool graph inputs (conditions supplied at run time) and their values
    pub bool_inputs: Vec<(String, bool)>,
    pub class: String,
}

fn to_onnx(p: &CfProg) -> Vec<u8> {
    let mut counter = 0;
    let mut g = encode_block(&Block { params: vec![], nodes: p.top.nodes.clone(), outputs: p.top.outputs.clone() }, "main", &mut counter);
    g.inputs.push(onnx::ValueInfo::new("x0", onnx::dtype::FLOAT, &[onnx::Dim::Sym("r".into()), onnx::Dim::Sym("c".into())]));
    for (n, _) in &p.bool_inputs {
        g.inputs.push(onnx::ValueInfo::fixed(n, onnx::dtype::BOOL, &[]));
    }
    g.initializers.push(onnx::Tensor::f32("c0", &[2, 2], &const0().data));
    g.initializers.push(onnx::Tensor::f32("b1", &[2], &bias1().data));
    g.initializers.push(onnx::Tensor::f32("s2", &[], &[2.0]));
    g.initializers.push(onnx::Tensor::bool("ctrue", &[], &[true]));
    g.initializers.push(onnx::Tensor::bool("cfalse", &[], &[false]));
    onnx::model_bytes(&g)
}

fn const0() -> NArr {
    NArr::new(&[2, 2], vec![1.0, -1.0, 2.0, 0.0])
}
fn bias1() -> NArr {
    NArr::new(&[2], vec![1.0, -1.0])
}
fn x0_val() -> NArr {
    NArr::new(&[2, 2], vec![1.0, -2.0, 3.0, 0.0])
}

// ---------- generation ----------

fn s(k: OpK, ins: &[&str], out: &str) -> N {
    N::S(k, ins.iter().map(|x| x.to_string()).collect(), out.to_string())
}

/// All one- and two-operator bodies over `vals`, output named `out`.
fn bodies(vals: &[&str], out: &str, tmp: &str, rich: bool) -> Vec<Vec<N>> {
    let mut v = Vec::new();
    for &u in vals {
        v.push(vec![s(OpK::Relu, &[u], out)]);
        v.push(vec![s(OpK::Identity, &[u], out)]);
        for &w in vals {
            v.push(vec![s(OpK::Add, &[u, w], out)]);
            v.push(vec![s(OpK::Sub, &[u, w], out)]);
            if rich {
                v.push(vec![s(OpK::Mul, &[u, w], out)]);
                v.push(vec![s(OpK::Relu, &[u], tmp), s(OpK::Add, &[tmp, w], out)]);
                v.push(vec![s(OpK::Add, &[u, w], tmp), s(OpK::Relu, &[tmp], out)]);
            }
        }
    }
    v
}

fn pre_variants() -> Vec<(Vec<N>, Vec<&'static str>)> {
    vec![
        (vec![], vec!["x0", "c0"]),
        (vec![s(OpK::Relu, &["x0"], "a")], vec!["x0", "c0", "a"]),
        (vec![s(OpK::Relu, &["x0"], "a"), s(OpK::Add, &["x0", "c0"], "b")], vec!["x0", "c0", "a", "b"]),
    ]
}

/// post variants: what happens to captured values after the control-flow op
fn post_variants(vals: &[&str], cf_out: &str) -> Vec<(Vec<N>, Vec<String>, &'static str)> {
    let mut v: Vec<(Vec<N>, Vec<String>, &'static str)> = vec![(vec![], vec![], "captured values not used afterwards")];
    // every temp also requested as a graph output
    let temps: Vec<String> = vals.iter().filter(|x| **x == "a" || **x == "b").map(|x| x.to_string()).collect();
    if !temps.is_empty() {
        v.push((vec![], temps.clone(), "captured temp is also a graph output"));
    }
    for &u in vals {
        v.push((vec![s(OpK::Add, &[cf_out, u], "post")], vec!["post".to_string()], "captured value consumed again after the control-flow op"));
    }
    v
}

pub fn programs(thorough: bool) -> Vec<CfProg> {
    let mut out = Vec::new();
    // ---- If templates
    for (pre, vals) in pre_variants() {
        let then_bodies = bodies(&vals, "t_out", "t_tmp", true);
        let else_bodies: Vec<Vec<N>> = if thorough { bodies(&vals, "e_out", "e_tmp", false) } else {
            vec![vec![s(OpK::Sub, &[vals[0], vals[vals.len() - 1]], "e_out")], vec![s(OpK::Relu, &[vals[vals.len() - 1]], "e_out")], vec![s(OpK::Identity, &["c0"], "e_out")]]
        };
        for tb in &then_bodies {
            for eb in &else_bodies {
                for cond in ["ctrue", "cfalse", "bcond_t", "bcond_f"] {
                    if !thorough && cond.starts_with("bcond") && tb.len() > 1 {
                        continue;
                    }
                    for (post, extra_outs, cls) in post_variants(&vals, "if_out") {
                        let mut nodes = pre.clone();
                        nodes.push(N::If {
                            cond: cond.to_string(),
                            then_b: Block { params: vec![], nodes: tb.clone(), outputs: vec!["t_out".into()] },
                            else_b: Block { params: vec![], nodes: eb.clone(), outputs: vec!["e_out".into()] },
                            outs: vec!["if_out".into()],
                        });
                        nodes.extend(post);
                        let mut outputs = vec!["if_out".to_string()];
                        outputs.extend(extra_outs);
                        let bool_inputs = match cond {
                            "bcond_t" => vec![("bcond_t".to_string(), true)],
                            "bcond_f" => vec![("bcond_f".to_string(), false)],
                            _ => vec![],
                        };
                        out.push(CfProg { top: Block { params: vec![], nodes, outputs }, bool_inputs, class: format!("If; {cls}") });
                    }
                }
            }
        }
    }
    // ---- two control-flow ops capturing the same value
    for (pre, vals) in pre_variants().into_iter().skip(1) {
        for b1 in bodies(&vals, "t_out", "t_tmp", false) {
            for &u in &vals {
                let mut nodes = pre.clone();
                nodes.push(N::If {
                    cond: "ctrue".into(),
                    then_b: Block { params: vec![], nodes: b1.clone(), outputs: vec!["t_out".into()] },
                    else_b: Block { params: vec![], nodes: vec![s(OpK::Identity, &["c0"], "e_out")], outputs: vec!["e_out".into()] },
                    outs: vec!["if1".into()],
                });
                nodes.push(N::If {
                    cond: "cfalse".into(),
                    then_b: Block { params: vec![], nodes: vec![s(OpK::Identity, &["c0"], "t2")], outputs: vec!["t2".into()] },
                    else_b: Block { params: vec![], nodes: vec![s(OpK::Add, &[u, "if1"], "e2")], outputs: vec!["e2".into()] },
                    outs: vec!["if2".into()],
                });
                out.push(CfProg { top: Block { params: vec![], nodes, outputs: vec!["if2".into(), "if1".into()] }, bool_inputs: vec![], class: "two If ops capturing the same value".into() });
            }
        }
    }
    // ---- Loop templates
    for (pre, vals) in pre_variants() {
        for trip in 0..=3i64 {
            for cond_mode in 0..4 {
                // carried value present
                for &init in &vals {
                    let mut bvals: Vec<&str> = vec!["v_in"];
                    bvals.extend(vals.iter().copied());
                    let updates = bodies(&bvals, "v_out", "v_tmp", thorough);
                    for up in &updates {
                        for scan in 0..3 {
                            if !thorough && scan == 2 && up.len() > 1 {
                                continue;
                            }
                            let mut bn = up.clone();
                            let cond_out = match cond_mode {
                                0 => {
                                    bn.push(N::S(OpK::Identity, vec!["cond_in".into()], "cond_out".into()));
                                    "cond_out"
                                }
                                1 => {
                                    bn.push(N::Not("cond_in".into(), "cond_out".into()));
                                    "cond_out"
                                }
                                2 => {
                                    bn.push(N::LessK("iter".into(), 1, "cond_out".into()));
                                    "cond_out"
                                }
                                _ => {
                                    bn.push(N::LessK("iter".into(), 0, "cond_out".into()));
                                    "cond_out"
                                }
                            };
                            let mut bouts = vec![cond_out.to_string(), "v_out".to_string()];
                            let mut louts = vec!["l_v".to_string()];
                            match scan {
                                1 => {
                                    bn.push(s(OpK::Identity, &["v_in"], "scan_out"));
                                    bouts.push("scan_out".into());
                                    louts.push("l_scan".into());
                                }
                                2 => {
                                    bn.push(s(OpK::Add, &["v_out", vals[vals.len() - 1]], "scan_out"));
                                    bouts.push("scan_out".into());
                                    louts.push("l_scan".into());
                                }
                                _ => {}
                            }
                            for (post, extra_outs, cls) in post_variants(&vals, "l_v") {
                                if !thorough && !post.is_empty() && trip == 3 {
                                    continue;
                                }
                                let mut nodes = pre.clone();
                                nodes.push(N::Loop {
                                    trip,
                                    cond0: true,
                                    carried: vec![init.to_string()],
                                    body: Block { params: vec!["iter".into(), "cond_in".into(), "v_in".into()], nodes: bn.clone(), outputs: bouts.clone() },
                                    outs: louts.clone(),
                                });
                                nodes.extend(post);
                                let mut outputs = louts.clone();
                                outputs.extend(extra_outs);
                                out.push(CfProg { top: Block { params: vec![], nodes, outputs }, bool_inputs: vec![], class: format!("Loop trip={trip} scan={}; {cls}", scan > 0) });
                            }
                        }
                    }
                }
            }
        }
    }
    // ---- a control-flow op captures the INTERMEDIATE value of a pattern that the optimizer
    // fuses (the fused operator no longer produces that value); the pattern's final output is
    // a graph output too, and nothing else in the parent graph consumes the intermediate
    let fusable: Vec<(&str, Vec<N>)> = vec![
        ("Transpose+MatMul", vec![s(OpK::Transpose, &["x0"], "f_mid"), s(OpK::MatMul, &["f_mid", "c0"], "f_y")]),
        ("MatMul+Add(bias)", vec![s(OpK::MatMul, &["x0", "c0"], "f_mid"), s(OpK::Add, &["f_mid", "b1"], "f_y")]),
        ("Mul(scalar)+MatMul", vec![s(OpK::Mul, &["x0", "s2"], "f_mid"), s(OpK::MatMul, &["f_mid", "c0"], "f_y")]),
        ("MatMul+Mul(scalar)", vec![s(OpK::MatMul, &["x0", "c0"], "f_mid"), s(OpK::Mul, &["f_mid", "s2"], "f_y")]),
        ("Identity+Relu", vec![s(OpK::Identity, &["x0"], "f_mid"), s(OpK::Relu, &["f_mid"], "f_y")]),
        ("Transpose+Transpose+MatMul", vec![s(OpK::Transpose, &["x0"], "f_mid"), s(OpK::Transpose, &["c0"], "f_t2"), s(OpK::MatMul, &["f_mid", "f_t2"], "f_y")]),
        ("MatMul+Add(bias)+Relu", vec![s(OpK::MatMul, &["x0", "c0"], "f_m0"), s(OpK::Add, &["f_m0", "b1"], "f_mid"), s(OpK::Relu, &["f_mid"], "f_y")]),
    ];
    for (fname, pat) in &fusable {
        let fvals = ["f_mid", "x0"];
        for tb in bodies(&fvals, "t_out", "t_tmp", false).into_iter().filter(|b| format!("{b:?}").contains("f_mid")) {
            for cond in ["ctrue", "cfalse", "bcond_t", "bcond_f"] {
                for cf_first in [false, true] {
                    let bool_inputs = match cond {
                        "bcond_t" => vec![("bcond_t".to_string(), true)],
                        "bcond_f" => vec![("bcond_f".to_string(), false)],
                        _ => vec![],
                    };
                    let iff = N::If {
                        cond: cond.to_string(),
                        then_b: Block { params: vec![], nodes: tb.clone(), outputs: vec!["t_out".into()] },
                        else_b: Block { params: vec![], nodes: vec![s(OpK::Sub, &["f_mid", "c0"], "e_out")], outputs: vec!["e_out".into()] },
                        outs: vec!["if_out".into()],
                    };
                    // the control-flow node sits either after the whole pattern or between the
                    // producer of the intermediate and the pattern's last operator
                    let mut nodes: Vec<N> = pat[..pat.len() - 1].to_vec();
                    if cf_first {
                        nodes.push(iff);
                        nodes.push(pat[pat.len() - 1].clone());
                    } else {
                        nodes.push(pat[pat.len() - 1].clone());
                        nodes.push(iff);
                    }
                    out.push(CfProg { top: Block { params: vec![], nodes, outputs: vec!["f_y".into(), "if_out".into()] }, bool_inputs, class: format!("If capturing the intermediate of a fusable pattern; {fname}") });
                }
            }
        }
        for trip in [0i64, 2] {
            let body = Block {
                params: vec!["iter".into(), "cond_in".into(), "v_in".into()],
                nodes: vec![s(OpK::Add, &["v_in", "f_mid"], "v_out"), N::S(OpK::Identity, vec!["cond_in".into()], "cond_out".into())],
                outputs: vec!["cond_out".into(), "v_out".into()],
            };
            let mut nodes = pat.clone();
            nodes.push(N::Loop { trip, cond0: true, carried: vec!["c0".into()], body, outs: vec!["l_v".into()] });
            out.push(CfProg { top: Block { params: vec![], nodes, outputs: vec!["f_y".into(), "l_v".into()] }, bool_inputs: vec![], class: format!("Loop capturing the intermediate of a fusable pattern; {fname}") });
        }
    }
    // ---- nesting: If inside Loop, Loop inside If
    for (pre, vals) in pre_variants() {
        for &u in &vals {
            for &w in &vals {
                for trip in [0i64, 1, 2] {
                    // Loop body contains an If that captures the carried value and a parent value
                    let inner = N::If {
                        cond: "cond_in".into(),
                        then_b: Block { params: vec![], nodes: vec![s(OpK::Add, &["v_in", u], "it")], outputs: vec!["it".into()] },
                        else_b: Block { params: vec![], nodes: vec![s(OpK::Sub, &["v_in", w], "ie")], outputs: vec!["ie".into()] },
                        outs: vec!["v_out".into()],
                    };
                    let body = Block {
                        params: vec!["iter".into(), "cond_in".into(), "v_in".into()],
                        nodes: vec![inner, N::S(OpK::Identity, vec!["cond_in".into()], "cond_out".into())],
                        outputs: vec!["cond_out".into(), "v_out".into()],
                    };
                    let mut nodes = pre.clone();
                    nodes.push(N::Loop { trip, cond0: true, carried: vec![w.to_string()], body, outs: vec!["l_v".into()] });
                    nodes.push(s(OpK::Add, &["l_v", u], "post"));
                    out.push(CfProg { top: Block { params: vec![], nodes, outputs: vec!["l_v".into(), "post".into()] }, bool_inputs: vec![], class: "If nested in Loop".into() });
                    // the same parent value is used by the loop body directly AND captured by the
                    // If nested inside it (captured at two nesting levels); not used afterwards
                    let inner2 = N::If {
                        cond: "cond_in".into(),
                        then_b: Block { params: vec![], nodes: vec![s(OpK::Add, &["mid", u], "it")], outputs: vec!["it".into()] },
                        else_b: Block { params: vec![], nodes: vec![s(OpK::Sub, &["mid", u], "ie")], outputs: vec!["ie".into()] },
                        outs: vec!["v_out".into()],
                    };
                    let body2 = Block {
                        params: vec!["iter".into(), "cond_in".into(), "v_in".into()],
                        nodes: vec![s(OpK::Mul, &["v_in", u], "mid"), inner2, N::S(OpK::Identity, vec!["cond_in".into()], "cond_out".into())],
                        outputs: vec!["cond_out".into(), "v_out".into()],
                    };
                    let mut nodes = pre.clone();
                    nodes.push(N::Loop { trip, cond0: true, carried: vec![w.to_string()], body: body2, outs: vec!["l_v".into()] });
                    out.push(CfProg { top: Block { params: vec![], nodes, outputs: vec!["l_v".into()] }, bool_inputs: vec![], class: "If nested in Loop, value captured at two levels".into() });
                    // same with an If as the outer operator
                    for cond in ["ctrue", "cfalse"] {
                        let inner3 = N::If {
                            cond: cond.into(),
                            then_b: Block { params: vec![], nodes: vec![s(OpK::Add, &["mid", u], "it")], outputs: vec!["it".into()] },
                            else_b: Block { params: vec![], nodes: vec![s(OpK::Sub, &["mid", u], "ie")], outputs: vec!["ie".into()] },
                            outs: vec!["t_out".into()],
                        };
                        let mut nodes = pre.clone();
                        nodes.push(N::If {
                            cond: cond.into(),
                            then_b: Block { params: vec![], nodes: vec![s(OpK::Mul, &[w, u], "mid"), inner3.clone()], outputs: vec!["t_out".into()] },
                            else_b: Block { params: vec![], nodes: vec![s(OpK::Mul, &[u, u], "mid"), inner3], outputs: vec!["t_out".into()] },
                            outs: vec!["if_out".into()],
                        });
                        out.push(CfProg { top: Block { params: vec![], nodes, outputs: vec!["if_out".into()] }, bool_inputs: vec![], class: "If nested in If, value captured at two levels".into() });
                    }
                    // If branch contains a Loop
                    let lbody = Block {
                        params: vec!["iter".into(), "cond_in".into(), "v_in".into()],
                        nodes: vec![s(OpK::Add, &["v_in", u], "v_out"), N::S(OpK::Identity, vec!["cond_in".into()], "cond_out".into())],
                        outputs: vec!["cond_out".into(), "v_out".into()],
                    };
                    for cond in ["ctrue", "cfalse"] {
                        let mut nodes = pre.clone();
                        nodes.push(N::If {
                            cond: cond.into(),
                            then_b: Block {
                                params: vec![],
                                nodes: vec![N::Loop { trip, cond0: true, carried: vec![w.to_string()], body: lbody.clone(), outs: vec!["tl".into()] }],
                                outputs: vec!["tl".into()],
                            },
                            else_b: Block { params: vec![], nodes: vec![s(OpK::Relu, &[w], "el")], outputs: vec!["el".into()] },
                            outs: vec!["if_out".into()],
                        });
                        nodes.push(s(OpK::Sub, &["if_out", w], "post"));
                        out.push(CfProg { top: Block { params: vec![], nodes, outputs: vec!["if_out".into(), "post".into()] }, bool_inputs: vec![], class: "Loop nested in If".into() });
                    }
                }
            }
        }
    }
    out
}

#[derive(Default)]
struct St {
    programs: u64,
    runs: u64,
    compared: u64,
    ref_failed: u64,
    by_class: HashMap<String, u64>,
}

fn check(ctx: &Ctx, p: &CfProg, st: &mut St) {
    st.programs += 1;
    // reference
    let mut base: HashMap<String, V> = HashMap::new();
    base.insert("x0".into(), V::F(x0_val()));
    base.insert("c0".into(), V::F(const0()));
    base.insert("b1".into(), V::F(bias1()));
    base.insert("s2".into(), V::F(NArr::new(&[], vec![2.0])));
    base.insert("ctrue".into(), V::B(true));
    base.insert("cfalse".into(), V::B(false));
    for (n, b) in &p.bool_inputs {
        base.insert(n.clone(), V::B(*b));
    }
    let env: Env = vec![&base];
    let mut top_env = HashMap::new();
    if eval_block(&p.top, &env, vec![], Some(&mut top_env)).is_err() && top_env.is_empty() {
        // a block output may be legitimately missing (zero-trip scan); evaluate names individually below
        let mut t2 = HashMap::new();
        let b2 = Block { params: vec![], nodes: p.top.nodes.clone(), outputs: vec![] };
        if eval_block(&b2, &env, vec![], Some(&mut t2)).is_err() {
            st.ref_failed += 1;
            return;
        }
        top_env = t2;
    }
    *st.by_class.entry(p.class.split(';').next().unwrap_or("").split(" trip").next().unwrap_or("").to_string()).or_insert(0) += 1;
    // outputs to request: declared outputs that the reference defines, plus x0, c0, temps (still must hold their pre-op contents)
    let mut want: Vec<(String, NArr)> = Vec::new();
    let mut names: Vec<String> = p.top.outputs.clone();
    for extra in ["a", "b", "x0", "c0"] {
        if !names.iter().any(|n| n == extra) {
            names.push(extra.to_string());
        }
    }
    for n in &names {
        let v = top_env.get(n).cloned().or_else(|| base.get(n).cloned());
        if let Some(V::F(a)) = v {
            want.push((n.clone(), a));
        }
    }
    let bytes = to_onnx(p);
    for optimize in [false, true] {
        let model = match subject::load_bytes(bytes.clone(), LoadCfg { optimize, ..Default::default() }) {
            Ok(m) => m,
            Err(e) if loop_runs_zero_iterations(p) && p.class.contains("scan=true") && !e.contains("PANIC") => {
                // constant folding of a zero-iteration loop with a scan output: same not-asserted case as at run time
                ctx.observe("zero-iteration Loop with scan output: load error when constant-folded (not asserted)");
                let _ = e;
                continue;
            }
            Err(e) => {
                ctx.violation(
                    format!("model with control flow fails to load [{}]: {}", if optimize { "optimized" } else { "unoptimized" }, vp_core::truncate(&e, 50)),
                    json!({"program": format!("{:?}", p.top), "class": p.class}),
                    e,
                );
                continue;
            }
        };
        // Request mode: every parent value as an extra output (they must keep their
        // contents), or only the program's declared outputs - then a value used only
        // inside a subgraph has no other consumer and may be captured by value.
        for (owned, declared_only) in [(false, false), (true, false), (false, true), (true, true)] {
            let x0t = subject::to_tensor(&x0_val());
            let mut inputs: Vec<(NodeId, ValueOrView)> = Vec::new();
            let Some(xid) = model.find_node("x0") else { continue };
            if owned {
                inputs.push((xid, ValueOrView::Value(Value::from(x0t.clone()))));
            } else {
                inputs.push((xid, ValueOrView::from(x0t.view())));
            }
            for (n, b) in &p.bool_inputs {
                if let Some(id) = model.find_node(n) {
                    inputs.push((id, ValueOrView::Value(Value::from(rten_tensor::Tensor::from(*b as i32)))));
                }
            }
            let req: Vec<(String, NArr, NodeId)> = want.iter().filter(|(n, _)| !declared_only || p.top.outputs.contains(n)).filter_map(|(n, a)| model.find_node(n).map(|id| (n.clone(), a.clone(), id))).collect();
            if req.is_empty() {
                continue;
            }
            let ids: Vec<NodeId> = req.iter().map(|r| r.2).collect();
            st.runs += 1;
            let cfgs = format!("{}, {} input{}", if optimize { "optimized" } else { "unoptimized" }, if owned { "owned" } else { "borrowed" }, if declared_only { ", only declared outputs requested" } else { "" });
            let case = || json!({"class": p.class, "program": format!("{:?}", p.top), "bool_inputs": p.bool_inputs.iter().map(|x| json!([x.0, x.1])).collect::<Vec<_>>(), "optimize": optimize, "owned": owned, "declared_only": declared_only, "index": st.programs});
            match vp_core::catch(|| model.run(inputs, &ids, None)) {
                Ok(Ok(vals)) => {
                    for (k, (n, a, _)) in req.iter().enumerate() {
                        st.compared += 1;
                        match subject::value_to_narr(&vals[k]) {
                            Ok(got) if got.same(a) => {}
                            Ok(got) => {
                                let what = if p.top.outputs.contains(n) && !["a", "b"].contains(&n.as_str()) { "control-flow result differs from the inlined evaluation" } else { "a parent value needed after the control-flow op was changed" };
                                ctx.violation(format!("{what} [{}; {cfgs}]", p.class), case(), format!("{n}: got {got:?} want {a:?}; program {:?}", p.top));
                                break;
                            }
                            Err(e) => {
                                ctx.violation(format!("output has unexpected type [{}]", p.class), case(), e);
                                break;
                            }
                        }
                    }
                }
                Ok(Err(e)) => {
                    let es = format!("{e}");
                    // zero-trip loops with scan outputs: rten reports an output-count error; not asserted (DESIGN C24)
                    if p.class.contains("trip=0") && p.class.contains("scan=true") {
                        ctx.observe("zero-trip Loop with scan output: run error (not asserted)");
                    } else if loop_runs_zero_iterations(p) && p.class.contains("scan=true") {
                        ctx.observe("zero-iteration Loop with scan output: run error (not asserted)");
                    } else {
                        ctx.violation(format!("run fails although the inlined evaluation succeeds [{}; {cfgs}]: {}", p.class, vp_core::truncate(&es, 40)), case(), format!("{es}; program {:?}", p.top));
                    }
                }
                Err(m) => ctx.violation(format!("run panics [{}; {cfgs}]: {}", p.class, vp_core::truncate(&m, 40)), case(), m),
            }
        }
    }
}

fn loop_runs_zero_iterations(p: &CfProg) -> bool {
    p.top.nodes.iter().any(|n| matches!(n, N::Loop { trip, cond0, .. } if *trip == 0 || !*cond0))
}

pub fn run(ctx: Ctx) -> ! {
    let progs = programs(ctx.tier.is_thorough());
    if let Some(path) = &ctx.replay {
        let case = vp_core::read_replay_case(path);
        // programs are regenerated deterministically; the artefact stores the index (thorough list is a superset ordering-wise only per tier)
        let idx = case["index"].as_u64().unwrap_or(1) as usize - 1;
        let list = if idx < progs.len() && format!("{:?}", progs[idx].top) == case["program"].as_str().unwrap_or("") { progs } else { programs(true) };
        let mut st = St::default();
        if let Some(p) = list.iter().find(|p| format!("{:?}", p.top) == case["program"].as_str().unwrap_or("") && p.bool_inputs.len() == case["bool_inputs"].as_array().map(|a| a.len()).unwrap_or(0)) {
            check(&ctx, p, &mut st);
        } else {
            ctx.machinery("replay: program not found in the generated box");
        }
        ctx.finish("exploration", json!({"evaluations": st.runs.max(1), "distinct_nontrivial": 2, "rule": "replay", "samples": [case]}), vec![]);
    }
    let total = Mutex::new(St::default());
    let samples = Samples::new(6);
    let ctxr = &ctx;
    let chunk = 64;
    vp_core::par::for_each(progs.len().div_ceil(chunk), |c| {
        let mut st = St::default();
        for (k, p) in progs[c * chunk..((c + 1) * chunk).min(progs.len())].iter().enumerate() {
            st.programs = (c * chunk + k) as u64;
            check(ctxr, p, &mut st);
        }
        if c % 173 == 11 {
            samples.push(|| json!({"class": progs[c * chunk].class, "program": format!("{:?}", progs[c * chunk].top)}));
        }
        let mut t = total.lock().unwrap();
        t.runs += st.runs;
        t.compared += st.compared;
        t.ref_failed += st.ref_failed;
        for (k, v) in st.by_class {
            *t.by_class.entry(k).or_insert(0) += v;
        }
    });
    let t = total.into_inner().unwrap();
    if t.runs < 1000 || t.by_class.len() < 4 {
        ctx.machinery(&format!("C24 vacuous: runs={} classes={:?}", t.runs, t.by_class));
    }
    let cov: Json = json!({
        "evaluations": t.runs,
        "distinct_nontrivial": progs.len() as u64 - t.ref_failed,
        "rule": "template programs with exhaustively filled holes: If (3 parent prefixes x all 1-2 op then-bodies over captured values x else bodies x 4 conditions (2 constant, 2 run-time) x capture-reuse patterns), two Ifs sharing a capture, If/Loop capturing the intermediate value of each of 7 optimizer-fusable parent patterns (Transpose+MatMul, MatMul+Add(bias), Mul(scalar)+MatMul, MatMul+Mul(scalar), Identity+Relu, Transpose x2+MatMul, MatMul+Add+Relu; control-flow node after the pattern or between its operators), Loop (trip 0..3 x 4 condition modes x every carried init x all update bodies x scan none/identity/add x reuse patterns), If-in-Loop, Loop-in-If; each x optimize on/off x owned/borrowed input; non-trivial = programs the reference can evaluate",
        "samples": samples.take(),
        "exhaustive": true,
        "programs": progs.len(),
        "runs": t.runs,
        "values_compared": t.compared,
        "programs_by_class": t.by_class,
        "reference_failed": t.ref_failed,
    });
    ctx.finish("exploration", cov, vec!["scan outputs of loops that run zero iterations are not asserted (the statement defines outputs by evaluating iterations)".into()])
}
