//! C25: model runs are deterministic and leave model and inputs unchanged.
//!
//! History exploration: for every program (<=2 ops, all kinds) every history
//! of <=2 (thorough 3) runs over the action alphabet
//! {input fill} x {borrowed, owned} x {output set} is executed on one freshly
//! loaded model. After every run: outputs equal the naive evaluator (hence
//! equal requests give identical answers wherever they occur in a history),
//! borrowed input buffers are bit-identical to before, and a final probe run
//! requesting every constant returns the original constant bytes.
//!
//! Second sub-box ("supplied intermediates"): the action additionally names an
//! operator-output value that the caller supplies as an input (with contents
//! that differ from what its producer computes). Histories of depth <=2 in
//! which at least one run supplies such a value; the request key of the cached
//! plan then varies in its *input* set as well as in its output set.

use std::collections::HashSet;
use std::sync::Mutex;

use rten_tensor::prelude::*;
use vp_core::{Ctx, Json, Samples, json};

use crate::prog::{self, NArr, OpK, Prog};
use crate::subject::{self, LoadCfg, RunCfg, RunOutcome};

#[derive(Clone, Copy, Debug, PartialEq, Eq, Hash)]
pub struct Act {
    fill: u8,
    owned: bool,
    /// 0 = all computable values (inputs, constants, op outputs), 1 = last op output only, 2 = inputs and constants only
    outs: u8,
    /// 0 = only the graph inputs are supplied; k>0 = the (k-1)-th operator-output value is supplied too
    extra: u8,
}

fn acts() -> Vec<Act> {
    let mut v = Vec::new();
    for outs in 0..3u8 {
        for owned in [false, true] {
            for fill in 0..2u8 {
                v.push(Act { fill, owned, outs, extra: 0 });
            }
        }
    }
    v
}

/// Alphabet of the "supplied intermediates" sub-box for a program with `nv`
/// operator-output values: {no extra, each extra} x {borrowed, owned} x {all, last op output}, fill 0.
fn acts_extra(nv: usize) -> Vec<Act> {
    let mut v = Vec::new();
    for extra in 0..=nv as u8 {
        for outs in 0..2u8 {
            for owned in [false, true] {
                v.push(Act { fill: 0, owned, outs, extra });
            }
        }
    }
    v
}

#[derive(Default)]
struct St {
    histories: u64,
    runs: u64,
    states: HashSet<u64>,
    programs: u64,
}

fn out_set(p: &Prog, reference: &[Option<NArr>], which: u8) -> Vec<usize> {
    let valid: Vec<usize> = (0..p.n_values()).filter(|&v| reference[v].is_some()).collect();
    match which {
        0 => valid,
        1 => valid.iter().copied().filter(|&v| p.producer(v).is_some()).last().into_iter().collect(),
        _ => valid.into_iter().filter(|&v| p.producer(v).is_none()).collect(),
    }
}

/// Execute one history on a fresh model. Returns false if a violation was reported.
fn run_history(ctx: &Ctx, p: &Prog, hist: &[Act], st: &mut St) -> bool {
    let l = match subject::load(p, LoadCfg::default()) {
        Ok(l) => l,
        Err(_) => return false,
    };
    let case = || json!({"program": p.to_json(), "describe": p.describe(), "history": hist.iter().map(|a| json!([a.fill, a.owned, a.outs, a.extra])).collect::<Vec<_>>()});
    let first_op_value = p.n_inputs + p.n_consts;
    for (step, a) in hist.iter().enumerate() {
        let mut inputs: Vec<NArr> = (0..p.n_inputs).map(|i| prog::input_fill(a.fill as usize, i)).collect();
        let mut supplied: Vec<usize> = (0..p.n_inputs).collect();
        let plain = prog::eval(p, &inputs);
        // the supplied intermediate: same shape as what its producer computes, different contents
        let over: Option<(usize, NArr)> = if a.extra == 0 {
            None
        } else {
            let v = first_op_value + a.extra as usize - 1;
            match plain.get(v).and_then(|x| x.as_ref()) {
                Some(r) => Some((v, NArr { shape: r.shape.clone(), data: r.data.iter().map(|x| x + 16.0).collect() })),
                None => continue, // the naive evaluator cannot compute it: no expectation
            }
        };
        let reference = prog::eval_over(p, &inputs, over.as_ref().map(|(v, a)| (*v, a)));
        let outs = out_set(p, &reference, a.outs);
        if outs.is_empty() {
            continue;
        }
        let n_graph_inputs = inputs.len();
        if let Some((v, arr)) = &over {
            // `subject::run` indexes tensors by value index
            while inputs.len() < *v {
                inputs.push(NArr { shape: vec![0], data: vec![] });
            }
            inputs.push(arr.clone());
            supplied.push(*v);
        }
        let tensors: Vec<_> = inputs.iter().map(subject::to_tensor).collect();
        let mask = if a.owned { (1u32 << inputs.len()) - 1 } else { 0 };
        st.runs += 1;
        let r = subject::run(&l, &tensors, &supplied, &outs, &RunCfg { owned_mask: mask, pool: None, order: None, owned_noncontiguous: false });
        let ctxs = format!(
            "run #{} of the history ({} inputs{}, output set {})",
            step + 1,
            if a.owned { "owned" } else { "borrowed" },
            match &over { Some((v, _)) => format!(", {} supplied by the caller", p.vname(*v)), None => String::new() },
            a.outs
        );
        match r {
            RunOutcome::Ok(vals) => {
                for (k, &o) in outs.iter().enumerate() {
                    let want = reference[o].as_ref().unwrap();
                    if !vals[k].same(want) {
                        let cls = if step == 0 { "first run" } else { "later run (earlier runs influenced it or the model changed)" };
                        let sup = if hist[..=step].iter().any(|h| h.extra != 0) { " [a run supplies an intermediate value]" } else { "" };
                        ctx.violation(
                            format!("run result differs from naive evaluation: {cls}; value is {}{sup}", if p.producer(o).is_some() { "an operator output" } else if o < p.n_inputs { "a graph input" } else { "a constant" }),
                            case(),
                            format!("{ctxs}: {} value {} got {:?} want {:?}", p.describe(), p.vname(o), vals[k], want),
                        );
                        return false;
                    }
                }
            }
            RunOutcome::Err(e) => {
                ctx.violation(format!("run fails although naive evaluation succeeds: {}", vp_core::truncate(&e, 50)), case(), format!("{ctxs}: {e}"));
                return false;
            }
            RunOutcome::Panic(m) => {
                ctx.violation(format!("run panics: {}", vp_core::truncate(&m, 50)), case(), ctxs);
                return false;
            }
        }
        // borrowed inputs untouched
        if !a.owned {
            for (i, t) in tensors.iter().enumerate() {
                if i >= n_graph_inputs && !supplied.contains(&i) {
                    continue;
                }
                let now = NArr { shape: t.shape().to_vec(), data: t.to_vec() };
                if !now.same(&inputs[i]) {
                    ctx.violation("a borrowed input view was modified by the run", case(), format!("{ctxs}: input x{i} now {:?}", now));
                    return false;
                }
            }
        }
    }
    // constants unchanged: probe run requesting every constant
    let consts: Vec<usize> = (p.n_inputs..p.n_inputs + p.n_consts).collect();
    let inputs: Vec<NArr> = (0..p.n_inputs).map(|i| prog::input_fill(0, i)).collect();
    let tensors: Vec<_> = inputs.iter().map(subject::to_tensor).collect();
    let supplied: Vec<usize> = (0..p.n_inputs).collect();
    if let RunOutcome::Ok(vals) = subject::run(&l, &tensors, &supplied, &consts, &RunCfg { owned_mask: 0, pool: None, order: None, owned_noncontiguous: false }) {
        for (k, _) in consts.iter().enumerate() {
            if !vals[k].same(&prog::const_value(k)) {
                ctx.violation("a constant (weight) was modified by a run", case(), format!("constant c{k} now {:?}", vals[k]));
                return false;
            }
        }
    }
    true
}

fn dfs(ctx: &Ctx, p: &Prog, alphabet: &[Act], depth: usize, hist: &mut Vec<Act>, st: &mut St) {
    dfs2(ctx, p, alphabet, depth, hist, st, false)
}

/// `only_extra`: execute only histories in which some run supplies an intermediate
/// (the others belong to the first sub-box); prefixes are still extended.
fn dfs2(ctx: &Ctx, p: &Prog, alphabet: &[Act], depth: usize, hist: &mut Vec<Act>, st: &mut St, only_extra: bool) {
    if only_extra && !hist.iter().any(|a| a.extra != 0) {
        if hist.len() < depth {
            for &a in alphabet {
                hist.push(a);
                dfs2(ctx, p, alphabet, depth, hist, st, only_extra);
                hist.pop();
            }
        }
        return;
    }
    st.histories += 1;
    st.states.insert(vp_core::fnv(format!("{:?}{:?}", p.ops, hist).as_bytes()));
    if !run_history(ctx, p, hist, st) {
        return;
    }
    if hist.len() >= depth {
        return;
    }
    for &a in alphabet {
        hist.push(a);
        dfs2(ctx, p, alphabet, depth, hist, st, only_extra);
        hist.pop();
    }
}


// ---------------------------------------------------------------------------
// Third sub-box: a run that panics inside an operator must not affect later runs
// (on the same thread or on another one): no lock may stay poisoned or held.

#[derive(Debug)]
struct PanicIfNegative;

impl rten::verif::operator::Operator for PanicIfNegative {
    fn name(&self) -> &str {
        "PanicIfNegative"
    }
    fn run(&self, ctx: &rten::verif::operator::OpRunContext) -> Result<rten::verif::operator::OutputList, rten::verif::operator::OpError> {
        use rten::verif::operator::IntoOpResult;
        let x: rten_tensor::TensorView<f32> = ctx.inputs().require_as(0)?;
        if x.iter().any(|v| *v < 0.0) {
            panic!("operator panicked on purpose (harness)");
        }
        rten::Value::from(x.map(|v| v + 1.0)).into_op_result()
    }
    fn max_inputs(&self) -> Option<usize> {
        Some(1)
    }
    fn output_types(&self, _ctx: &rten::verif::operator::OutputTypesContext) -> Option<rten::verif::operator::OutputTypeList> {
        None
    }
    fn as_infer_shapes(&self) -> Option<&dyn rten_shape_inference::InferShapes> {
        None
    }
}

/// Histories over {ok run, panicking run} x {same thread, fresh thread} of depth <= 3 on one graph.
fn panic_histories(ctx: &Ctx) -> (u64, u64) {
    use rten::verif::graph::Graph;
    let mut histories = 0u64;
    let mut runs = 0u64;
    // action: (panics, other_thread)
    let acts = [(false, false), (true, false), (false, true), (true, true)];
    let mut all: Vec<Vec<(bool, bool)>> = vec![vec![]];
    for _ in 0..3 {
        let mut next = Vec::new();
        for h in &all {
            for a in acts {
                let mut h2 = h.clone();
                h2.push(a);
                next.push(h2);
            }
        }
        all.extend(next.clone());
        all.sort();
        all.dedup();
    }
    for hist in all.iter().filter(|h| !h.is_empty()) {
        histories += 1;
        let mut g = Graph::new();
        let x = g.add_value(Some("x"), None, None);
        let y = g.add_value(Some("y"), None, None);
        g.add_op(Some("p"), std::sync::Arc::new(PanicIfNegative), &[Some(x)], &[Some(y)]);
        let g = std::sync::Arc::new(g);
        for (step, &(panics, other_thread)) in hist.iter().enumerate() {
            runs += 1;
            let g2 = g.clone();
            let call = move || -> Result<Result<Vec<f32>, String>, String> {
                let t = rten_tensor::Tensor::from_data(&[2], vec![if panics { -1.0f32 } else { 1.0 }, 2.0]);
                vp_core::catch(|| {
                    g2.run(vec![(x, t.view().into())], &[y], None, None).map_err(|e| format!("{e}")).and_then(|mut v| {
                        let t: rten_tensor::Tensor<f32> = v.remove(0).try_into().map_err(|_| "not f32".to_string())?;
                        Ok(t.to_vec())
                    })
                })
            };
            let r = if other_thread { std::thread::spawn(call).join().unwrap_or_else(|_| Err("thread died".into())) } else { call() };
            let case = || json!({"panic_history": hist.iter().map(|a| json!([a.0, a.1])).collect::<Vec<_>>()});
            match (panics, r) {
                (true, Err(_)) => {}
                (true, other) => ctx.observe(&format!("a deliberately panicking operator did not panic: {other:?}")),
                (false, Ok(Ok(v))) if v == vec![2.0, 3.0] => {}
                (false, other) => {
                    if hist[..step].iter().any(|a| a.0) {
                        ctx.violation(
                            "a run fails or panics after an earlier run panicked inside an operator (state left behind by the earlier run)".to_string(),
                            case(),
                            format!("run #{} of history {hist:?} returned {other:?}, expected [2, 3]", step + 1),
                        );
                    } else {
                        ctx.violation("a plain run of the panic-history graph fails".to_string(), case(), format!("{other:?}"));
                    }
                    break;
                }
            }
        }
    }
    (histories, runs)
}


// ---------------------------------------------------------------------------
// Fourth sub-box: rank-polymorphic single-operator models run several times with inputs of
// different rank. An operator must not keep anything it derived from an earlier run's
// inputs: every run of a history must return what a freshly loaded model returns.

fn poly_models() -> Vec<(&'static str, Vec<u8>, usize)> {
    use vp_onnx as onnx;
    let mk = |name: &str, node: onnx::Node, n_in: usize, consts: Vec<onnx::Tensor>| -> (Vec<u8>, usize) {
        let mut g = onnx::Graph::new(name);
        for i in 0..n_in {
            g.inputs.push(onnx::ValueInfo::typed_no_shape(if i == 0 { "A" } else { "B" }, onnx::dtype::FLOAT));
        }
        g.initializers = consts;
        g.nodes.push(node.named("op"));
        g.outputs.push(onnx::ValueInfo::untyped("Y"));
        (onnx::model_bytes(&g), n_in)
    };
    let mut v = Vec::new();
    let mut push = |name: &'static str, x: (Vec<u8>, usize)| v.push((name, x.0, x.1));
    push("Einsum(...ij,...jk->...ik)", mk("e1", onnx::Node::new("Einsum", &["A", "B"], &["Y"]).attr("equation", onnx::Attr::Str("...ij,...jk->...ik".into())), 2, vec![]));
    push("Einsum(...i->...)", mk("e2", onnx::Node::new("Einsum", &["A"], &["Y"]).attr("equation", onnx::Attr::Str("...i->...".into())), 1, vec![]));
    push("MatMul", mk("mm", onnx::Node::new("MatMul", &["A", "B"], &["Y"]), 2, vec![]));
    push("Softmax(axis=-1)", mk("sm", onnx::Node::new("Softmax", &["A"], &["Y"]).attr("axis", onnx::Attr::Int(-1)), 1, vec![]));
    push("ReduceSum(axes=[-1])", mk("rs", onnx::Node::new("ReduceSum", &["A", "axes"], &["Y"]), 1, vec![onnx::Tensor::i64("axes", &[1], &[-1])]));
    push("Transpose", mk("tr", onnx::Node::new("Transpose", &["A"], &["Y"]), 1, vec![]));
    push("Flatten(axis=1)", mk("fl", onnx::Node::new("Flatten", &["A"], &["Y"]).attr("axis", onnx::Attr::Int(1)), 1, vec![]));
    push("Concat(axis=-1)", mk("cc", onnx::Node::new("Concat", &["A", "A"], &["Y"]).attr("axis", onnx::Attr::Int(-1)), 1, vec![]));
    push("LayerNormalization(axis=-1)", mk("ln", onnx::Node::new("LayerNormalization", &["A", "scale"], &["Y"]).attr("axis", onnx::Attr::Int(-1)), 1, vec![onnx::Tensor::f32("scale", &[3], &[1.0, 0.5, 2.0])]));
    push("Add", mk("add", onnx::Node::new("Add", &["A", "A"], &["Y"]), 1, vec![]));
    v
}

fn poly_inputs(variant: usize) -> (rten_tensor::Tensor<f32>, rten_tensor::Tensor<f32>) {
    let (sa, sb): (Vec<usize>, Vec<usize>) = match variant {
        0 => (vec![2, 3], vec![3, 2]),
        1 => (vec![2, 2, 3], vec![2, 3, 2]),
        _ => (vec![1, 2, 2, 3], vec![1, 2, 3, 2]),
    };
    let na: usize = sa.iter().product();
    let nb: usize = sb.iter().product();
    (
        rten_tensor::Tensor::from_data(&sa, (0..na).map(|i| (i as f32) - 3.0).collect::<Vec<_>>()),
        rten_tensor::Tensor::from_data(&sb, (0..nb).map(|i| 2.0 - (i as f32)).collect::<Vec<_>>()),
    )
}

fn poly_run(model: &rten::Model, n_in: usize, variant: usize) -> Result<Result<(Vec<usize>, Vec<u32>), String>, String> {
    let (a, b) = poly_inputs(variant);
    vp_core::catch(|| {
        let mut inputs: Vec<(rten::NodeId, rten::ValueOrView)> = vec![(model.find_node("A").unwrap(), a.view().into())];
        if n_in == 2 {
            inputs.push((model.find_node("B").unwrap(), b.view().into()));
        }
        let y = model.find_node("Y").unwrap();
        model.run(inputs, &[y], None).map_err(|e| format!("{e}")).and_then(|mut v| {
            let t: rten_tensor::Tensor<f32> = v.remove(0).try_into().map_err(|_| "not f32".to_string())?;
            Ok((t.shape().to_vec(), t.iter().map(|x| x.to_bits()).collect()))
        })
    })
}

fn poly_histories(ctx: &Ctx, only: Option<&Json>) -> (u64, u64) {
    let mut fresh_ok = 0u64;
    let mut histories = 0u64;
    let mut runs = 0u64;
    let mut hists: Vec<Vec<usize>> = Vec::new();
    for a in 0..3 {
        hists.push(vec![a]);
        for b in 0..3 {
            hists.push(vec![a, b]);
            for c in 0..3 {
                hists.push(vec![a, b, c]);
            }
        }
    }
    for (name, bytes, n_in) in poly_models() {
        if let Some(o) = only {
            if o["model"].as_str() != Some(name) {
                continue;
            }
        }
        let fresh = |variant: usize| -> Result<Result<(Vec<usize>, Vec<u32>), String>, String> {
            match subject::load_bytes(bytes.clone(), LoadCfg::default()) {
                Ok(m) => poly_run(&m, n_in, variant),
                Err(e) => Ok(Err(e)),
            }
        };
        let expect: Vec<_> = (0..3).map(fresh).collect();
        fresh_ok += expect.iter().filter(|e| matches!(e, Ok(Ok(_)))).count() as u64;
        for hist in &hists {
            let Ok(model) = subject::load_bytes(bytes.clone(), LoadCfg::default()) else { continue };
            histories += 1;
            for (step, &v) in hist.iter().enumerate() {
                runs += 1;
                let got = poly_run(&model, n_in, v);
                if got != expect[v] {
                    ctx.violation(
                        format!("a run returns something else than a freshly loaded model does after earlier runs with inputs of another rank [{name}]"),
                        json!({"poly_history": {"model": name, "ranks": hist.iter().map(|x| x + 2).collect::<Vec<_>>()}}),
                        format!("run #{} (input rank {}) of history {hist:?}: got {:?}, fresh model gives {:?}", step + 1, v + 2, got.as_ref().map(|r| r.as_ref().map(|x| &x.0)), expect[v].as_ref().map(|r| r.as_ref().map(|x| &x.0))),
                    );
                    break;
                }
            }
        }
    }
    if only.is_none() && fresh_ok < 24 {
        ctx.machinery(&format!("C25 rank-varying histories vacuous: only {fresh_ok} of 30 (model, rank) pairs run on a fresh model"));
    }
    ctx.observe_n("rank-varying histories: (model, input rank) pairs that run successfully on a fresh model", fresh_ok);
    (histories, runs)
}


// ---------------------------------------------------------------------------
// Fifth sub-box: the same values at different memory addresses. The input of a
// float single-operator model is a view that starts at every element offset 0..=17
// of a larger buffer (and once an owned tensor); the values have mixed magnitudes, so a
// summation order that depends on the alignment of the data changes low bits. Every run
// must be bit-identical to the first one.

fn alignment_runs(ctx: &Ctx, only: Option<&Json>) -> (u64, u64) {
    use vp_onnx as onnx;
    let mk = |node: onnx::Node, consts: Vec<onnx::Tensor>| -> Vec<u8> {
        let mut g = onnx::Graph::new("align");
        g.inputs.push(onnx::ValueInfo::typed_no_shape("A", onnx::dtype::FLOAT));
        g.initializers = consts;
        g.nodes.push(node.named("op"));
        g.outputs.push(onnx::ValueInfo::untyped("Y"));
        onnx::model_bytes(&g)
    };
    let w: Vec<f32> = (0..37 * 5).map(|i| ((i * 13 % 29) as f32 - 14.0) * 0.37).collect();
    let models: Vec<(&str, Vec<u8>)> = vec![
        ("ReduceSum(axes=[-1])", mk(onnx::Node::new("ReduceSum", &["A", "axes"], &["Y"]), vec![onnx::Tensor::i64("axes", &[1], &[-1])])),
        ("ReduceSum(axes=[0])", mk(onnx::Node::new("ReduceSum", &["A", "axes"], &["Y"]), vec![onnx::Tensor::i64("axes", &[1], &[0])])),
        ("ReduceMean(axes=[-1])", mk(onnx::Node::new("ReduceMean", &["A", "axes"], &["Y"]), vec![onnx::Tensor::i64("axes", &[1], &[-1])])),
        ("ReduceL2(axes=[-1])", mk(onnx::Node::new("ReduceL2", &["A", "axes"], &["Y"]), vec![onnx::Tensor::i64("axes", &[1], &[-1])])),
        ("Softmax(axis=-1)", mk(onnx::Node::new("Softmax", &["A"], &["Y"]).attr("axis", onnx::Attr::Int(-1)), vec![])),
        ("LayerNormalization(axis=-1)", mk(onnx::Node::new("LayerNormalization", &["A", "scale"], &["Y"]).attr("axis", onnx::Attr::Int(-1)), vec![onnx::Tensor::f32("scale", &[37], &[1.5; 37])])),
        ("MatMul(A, W[37,5])", mk(onnx::Node::new("MatMul", &["A", "W"], &["Y"]), vec![onnx::Tensor::f32("W", &[37, 5], &w)])),
        ("Sigmoid", mk(onnx::Node::new("Sigmoid", &["A"], &["Y"]), vec![])),
    ];
    let (rows, cols) = (3usize, 37usize);
    let n = rows * cols;
    let vals: Vec<f32> = (0..n).map(|i| ((i * 37 % 101) as f32 - 50.0) * 1.0e-3 + if i % 7 == 0 { 1.0e4 } else if i % 5 == 0 { -3.3e2 } else { 0.0 }).collect();
    let mut models_run = 0u64;
    let mut runs = 0u64;
    for (name, bytes) in models {
        if let Some(o) = only {
            if o["model"].as_str() != Some(name) {
                continue;
            }
        }
        let Ok(model) = subject::load_bytes(bytes, LoadCfg::default()) else {
            ctx.observe(&format!("alignment sub-box: model {name} failed to load"));
            continue;
        };
        models_run += 1;
        let a_id = model.find_node("A").unwrap();
        let y_id = model.find_node("Y").unwrap();
        let bits = |v: Vec<rten::Value>| -> Option<Vec<u32>> {
            let t: rten_tensor::Tensor<f32> = v.into_iter().next()?.try_into().ok()?;
            Some(t.iter().map(|x| x.to_bits()).collect())
        };
        let mut first: Option<Vec<u32>> = None;
        for offset in 0..=18usize {
            runs += 1;
            let got = if offset == 18 {
                // owned tensor
                let t = rten_tensor::Tensor::from_data(&[rows, cols], vals.clone());
                vp_core::catch(|| model.run(vec![(a_id, rten::ValueOrView::Value(rten::Value::from(t)))], &[y_id], None)).ok().and_then(|r| r.ok()).and_then(&bits)
            } else {
                let mut buf = vec![0.0f32; offset + n];
                buf[offset..].copy_from_slice(&vals);
                let view = rten_tensor::TensorView::from_data(&[rows, cols], &buf[offset..]);
                vp_core::catch(|| model.run(vec![(a_id, view.into())], &[y_id], None)).ok().and_then(|r| r.ok()).and_then(&bits)
            };
            let Some(got) = got else {
                ctx.observe(&format!("alignment sub-box: run of {name} failed"));
                break;
            };
            match &first {
                None => first = Some(got),
                Some(f) if *f != got => {
                    let k = f.iter().zip(&got).position(|(a, b)| a != b).unwrap_or(0);
                    ctx.violation(
                        format!("the same input values at another memory address give different output bits [{name}]"),
                        json!({"alignment": {"model": name, "offset_elements": offset}}),
                        format!("{name}: input view at element offset {offset}{} differs from offset 0 at output element {k}: {:#010x} vs {:#010x}", if offset == 18 { " (owned tensor)" } else { "" }, got[k], f[k]),
                    );
                    break;
                }
                _ => {}
            }
        }
    }
    if only.is_none() && models_run < 6 {
        ctx.machinery(&format!("C25 alignment sub-box vacuous: only {models_run} models ran"));
    }
    (models_run, runs)
}

pub fn run(ctx: Ctx) -> ! {
    let alphabet = acts();
    if let Some(path) = &ctx.replay {
        let case = vp_core::read_replay_case(path);
        if !case["alignment"].is_null() {
            let (h, r) = alignment_runs(&ctx, Some(&case["alignment"]));
            ctx.finish("model_checking", json!({"states": h, "transitions": r, "traces_validated_against_impl": h, "samples": [case]}), vec![]);
        }
        if !case["poly_history"].is_null() {
            let (h, r) = poly_histories(&ctx, Some(&case["poly_history"]));
            ctx.finish("model_checking", json!({"states": h, "transitions": r, "traces_validated_against_impl": h, "samples": [case]}), vec![]);
        }
        if !case["panic_history"].is_null() {
            let (h, r) = panic_histories(&ctx);
            ctx.finish("model_checking", json!({"states": h, "transitions": r, "traces_validated_against_impl": h, "samples": [case]}), vec![]);
        }
        let p = Prog::from_json(&case["program"]);
        let hist: Vec<Act> = case["history"].as_array().unwrap().iter().map(|a| Act { fill: a[0].as_u64().unwrap() as u8, owned: a[1].as_bool().unwrap(), outs: a[2].as_u64().unwrap() as u8, extra: a.get(3).and_then(|x| x.as_u64()).unwrap_or(0) as u8 }).collect();
        let mut st = St::default();
        run_history(&ctx, &p, &hist, &mut st);
        ctx.finish("model_checking", json!({"states": 1, "transitions": 1, "traces_validated_against_impl": 1, "samples": [case]}), vec![]);
    }
    let full = [OpK::Relu, OpK::Identity, OpK::Transpose, OpK::Split, OpK::Add, OpK::Sub, OpK::Mul, OpK::MatMul, OpK::Concat, OpK::IfAdd, OpK::IfSub];
    let mut progs = Vec::new();
    prog::enumerate(2, 1, 1, &full, &mut progs);
    prog::enumerate(2, 1, 2, &full, &mut progs);
    let depth = ctx.tier.pick(2usize, 3usize);
    let total = Mutex::new(St::default());
    let samples = Samples::new(5);
    let ctxr = &ctx;
    let chunk = 16;
    vp_core::par::for_each(progs.len().div_ceil(chunk), |c| {
        let mut st = St::default();
        for p in &progs[c * chunk..((c + 1) * chunk).min(progs.len())] {
            st.programs += 1;
            dfs(ctxr, p, &alphabet, depth, &mut Vec::new(), &mut st);
            let nv = p.n_values() - p.n_inputs - p.n_consts;
            dfs2(ctxr, p, &acts_extra(nv), 2, &mut Vec::new(), &mut st, true);
        }
        if c % 131 == 7 {
            samples.push(|| json!({"program": progs[c * chunk].describe(), "history_alphabet": "fill{0,1} x {borrowed,owned} x output set{all, last op output, inputs+constants}", "depth": depth}));
        }
        let mut t = total.lock().unwrap();
        t.histories += st.histories;
        t.runs += st.runs;
        t.programs += st.programs;
        t.states.extend(st.states);
    });
    let (ph, pr) = panic_histories(&ctx);
    let (qh, qr) = poly_histories(&ctx, None);
    let (ah, ar) = alignment_runs(&ctx, None);
    let mut t = total.into_inner().unwrap();
    t.histories += ph + qh + ah;
    t.runs += pr + qr + ar;
    if t.runs < 10_000 {
        ctx.machinery("C25 vacuous");
    }
    let cov: Json = json!({
        "states": t.states.len(),
        "transitions": t.runs,
        "traces_validated_against_impl": t.histories,
        "samples": samples.take(),
        "exhaustive": true,
        "programs": t.programs,
        "history_depth": depth,
        "alphabet_size": alphabet.len(),
        "same_values_other_addresses": format!("{ah} float single-operator models (reductions, Softmax, LayerNormalization, MatMul, Sigmoid) x {ar} runs: the input is a view starting at every element offset 0..=17 of a larger buffer, and once an owned tensor; values of mixed magnitude; all outputs must be bit-identical"),
        "rank_varying_histories": format!("{qh} histories of depth <=3 over input ranks {{2,3,4}} on 10 rank-polymorphic single-operator models (Einsum with ellipsis, MatMul, Softmax, ReduceSum, Transpose, Flatten, Concat, LayerNormalization, Add): every run must return bit-for-bit what a freshly loaded model returns"),
        "panic_histories": format!("{ph} histories of depth <=3 over {{ok run, run that panics inside an operator}} x {{same thread, fresh thread}} on a graph built through the hook re-exports: a run after a panicking run must succeed with the right value (no poisoned or held lock)"),
        "supplied_intermediates_sub_box": "alphabet {no extra, each operator-output value supplied by the caller with contents = computed + 16} x {borrowed, owned} x {all values, last op output}, fill 0; every history of depth <=2 in which at least one run supplies an intermediate",
        "explanation": "states = distinct (program, history) pairs (the model's only mutable state, the cached plan, is a function of the history); transitions = Model::run calls; every history runs on a freshly loaded real model",
    });
    ctx.finish("model_checking", cov, vec!["determinism is checked through equality with the naive evaluator at every position of every history".into()])
}
