//! C26: invalid run requests are reported as errors, never panics.
//!
//! Four small models (declared metadata of the inputs, of an intermediate value
//! (value_info) and of a graph output: fixed dims / symbolic dims /
//! dtype only / none) x every request over an id alphabet (valid values,
//! constant, intermediate, operator id, unknown ids) with repetition x every
//! supplied-tensor variant (dtype, rank, dims, empty, sequence) x entry points
//! run / run_n / run_one / partial_run.

use std::sync::atomic::{AtomicU64, Ordering};

use rten::{Model, NodeId, Sequence, Value, ValueOrView};
use rten_tensor::prelude::*;
use rten_tensor::Tensor;
use vp_core::{Ctx, Json, Samples, json};
use vp_onnx as onnx;

use crate::subject::{self, LoadCfg};

#[derive(Clone, Copy, Debug, PartialEq, Eq)]
enum Meta {
    Fixed,
    Symbolic,
    DtypeOnly,
    Untyped,
}

const METAS: [Meta; 4] = [Meta::Fixed, Meta::Symbolic, Meta::DtypeOnly, Meta::Untyped];

fn model_bytes(meta: Meta) -> Vec<u8> {
    let mut g = onnx::Graph::new("c26");
    let info = |name: &str| match meta {
        Meta::Fixed => onnx::ValueInfo::fixed(name, onnx::dtype::FLOAT, &[2, 2]),
        Meta::Symbolic => onnx::ValueInfo::new(name, onnx::dtype::FLOAT, &[onnx::Dim::Sym("a".into()), onnx::Dim::Sym("b".into())]),
        Meta::DtypeOnly => onnx::ValueInfo::typed_no_shape(name, onnx::dtype::FLOAT),
        Meta::Untyped => onnx::ValueInfo::untyped(name),
    };
    for name in ["x0", "x1"] {
        g.inputs.push(info(name));
    }
    // The intermediate value v4 (value_info) and the graph output v3 carry the
    // same kind of declared metadata as the inputs, so that requests which
    // supply them are validated against it too.
    if meta != Meta::Untyped {
        g.value_infos.push(info("v4"));
    }
    g.initializers.push(onnx::Tensor::f32("c0", &[2, 2], &[1.0, 2.0, 3.0, 4.0]));
    g.nodes.push(onnx::Node::new("Add", &["x0", "c0"], &["v3"]).named("op_add"));
    g.nodes.push(onnx::Node::new("Relu", &["v3"], &["v4"]).named("op_relu"));
    g.nodes.push(onnx::Node::new("MatMul", &["v4", "x1"], &["v5"]).named("op_matmul"));
    g.outputs.push(onnx::ValueInfo::untyped("v5"));
    g.outputs.push(info("v3"));
    onnx::model_bytes(&g)
}

#[derive(Clone, Copy, Debug, PartialEq, Eq, Hash)]
enum Id {
    X0,
    X1,
    C0,
    V3,
    V4,
    V5,
    Op,
    Unknown,
    Big,
}

#[derive(Clone, Copy, Debug, PartialEq, Eq, Hash)]
enum Tv {
    Ok,
    I32,
    Rank1,
    Rank3,
    Dim23,
    Dim32,
    Empty,
    Seq,
}
const TVS: [Tv; 8] = [Tv::Ok, Tv::I32, Tv::Rank1, Tv::Rank3, Tv::Dim23, Tv::Dim32, Tv::Empty, Tv::Seq];

fn make_value(tv: Tv) -> Value {
    match tv {
        Tv::Ok => Value::from(Tensor::from_data(&[2, 2], vec![1.0f32, -1.0, 2.0, 0.5])),
        Tv::I32 => Value::from(Tensor::from_data(&[2, 2], vec![1i32, 2, 3, 4])),
        Tv::Rank1 => Value::from(Tensor::from_data(&[2], vec![1.0f32, 2.0])),
        Tv::Rank3 => Value::from(Tensor::from_data(&[1, 2, 2], vec![1.0f32, 2.0, 3.0, 4.0])),
        Tv::Dim23 => Value::from(Tensor::from_data(&[2, 3], vec![1.0f32; 6])),
        Tv::Dim32 => Value::from(Tensor::from_data(&[3, 2], vec![1.0f32; 6])),
        Tv::Empty => Value::from(Tensor::from_data(&[0, 2], Vec::<f32>::new())),
        Tv::Seq => Value::from(Sequence::from(vec![Tensor::from_data(&[2, 2], vec![1.0f32; 4])])),
    }
}

struct Ids {
    x0: NodeId,
    x1: NodeId,
    c0: NodeId,
    v3: NodeId,
    v4: NodeId,
    v5: NodeId,
    op: NodeId,
}

fn resolve(ids: &Ids, i: Id) -> NodeId {
    match i {
        Id::X0 => ids.x0,
        Id::X1 => ids.x1,
        Id::C0 => ids.c0,
        Id::V3 => ids.v3,
        Id::V4 => ids.v4,
        Id::V5 => ids.v5,
        Id::Op => ids.op,
        Id::Unknown => NodeId::from_u32(100_000),
        Id::Big => NodeId::from_u32(i32::MAX as u32),
    }
}

/// Does the request contain one of the defects for which the property demands an error?
fn defect(meta: Meta, inputs: &[(Id, Tv)], outputs: &[Id], partial: bool) -> Option<&'static str> {
    let dup = |v: Vec<Id>| (0..v.len()).any(|i| v[i + 1..].contains(&v[i]));
    if dup(outputs.to_vec()) {
        return Some("duplicate output id");
    }
    if dup(inputs.iter().map(|x| x.0).collect()) {
        return Some("duplicate input id");
    }
    if outputs.iter().any(|o| matches!(o, Id::Op | Id::Unknown | Id::Big)) {
        return Some("non-value output id");
    }
    if inputs.iter().any(|(i, _)| matches!(i, Id::Op | Id::Unknown | Id::Big)) {
        return Some("non-value input id");
    }
    for (i, tv) in inputs {
        if matches!(i, Id::X0 | Id::X1 | Id::V3 | Id::V4) {
            let declares_dtype = meta != Meta::Untyped;
            let declares_rank = matches!(meta, Meta::Fixed | Meta::Symbolic);
            if declares_dtype && matches!(tv, Tv::I32 | Tv::Seq) {
                return Some("input dtype contradicts declared metadata");
            }
            if declares_rank && matches!(tv, Tv::Rank1 | Tv::Rank3) {
                return Some("input rank contradicts declared metadata");
            }
            if meta == Meta::Fixed && matches!(tv, Tv::Dim23 | Tv::Dim32 | Tv::Empty) {
                return Some("input dimension contradicts declared metadata");
            }
        }
    }
    if !partial {
        let has = |i: Id| inputs.iter().any(|x| x.0 == i);
        for o in outputs {
            let missing = match o {
                Id::V3 => !has(Id::V3) && !has(Id::X0),
                Id::V4 => !has(Id::V4) && !has(Id::V3) && !has(Id::X0),
                Id::V5 => !has(Id::V5) && (!has(Id::X1) || (!has(Id::V4) && !has(Id::V3) && !has(Id::X0))),
                Id::X0 => !has(Id::X0),
                Id::X1 => !has(Id::X1),
                _ => false,
            };
            if missing {
                return Some("missing required input");
            }
        }
    }
    None
}

#[derive(Debug, PartialEq)]
enum Out {
    Ok,
    Err,
    Panic(String),
}

fn call(model: &Model, ids: &Ids, inputs: &[(Id, Tv)], outputs: &[Id], entry: &str) -> Out {
    let vals: Vec<(NodeId, ValueOrView)> = inputs.iter().map(|(i, tv)| (resolve(ids, *i), ValueOrView::Value(make_value(*tv)))).collect();
    let outs: Vec<NodeId> = outputs.iter().map(|o| resolve(ids, *o)).collect();
    let r = vp_core::catch(|| match entry {
        "run" => model.run(vals, &outs, None).map(|_| ()),
        "partial_run" => model.partial_run(vals, &outs, None).map(|_| ()),
        "run_n" => match outs.len() {
            1 => model.run_n(vals, [outs[0]], None).map(|_| ()),
            2 => model.run_n(vals, [outs[0], outs[1]], None).map(|_| ()),
            _ => model.run_n(vals, [], None).map(|_| ()),
        },
        _ => unreachable!(),
    });
    match r {
        Ok(Ok(())) => Out::Ok,
        Ok(Err(_)) => Out::Err,
        Err(p) => Out::Panic(p),
    }
}

struct Cnt {
    calls: AtomicU64,
    defect_calls: AtomicU64,
    ok_calls: AtomicU64,
}

fn check(ctx: &Ctx, meta: Meta, model: &Model, ids: &Ids, inputs: &[(Id, Tv)], outputs: &[Id], entry: &str, cnt: &Cnt) {
    cnt.calls.fetch_add(1, Ordering::Relaxed);
    let d = defect(meta, inputs, outputs, entry == "partial_run");
    let out = call(model, ids, inputs, outputs, entry);
    let case = || json!({"meta": format!("{meta:?}"), "entry": entry, "inputs": inputs.iter().map(|(i, t)| json!([format!("{i:?}"), format!("{t:?}")])).collect::<Vec<_>>(), "outputs": outputs.iter().map(|o| format!("{o:?}")).collect::<Vec<_>>()});
    if let Out::Panic(m) = &out {
        ctx.violation(
            format!("{entry} panics ({}): {}", d.unwrap_or("request without listed defect"), vp_core::truncate(m, 60)),
            case(),
            format!("inputs {inputs:?} outputs {outputs:?}: {m}"),
        );
        return;
    }
    if let Some(why) = d {
        cnt.defect_calls.fetch_add(1, Ordering::Relaxed);
        if out == Out::Ok {
            ctx.violation(format!("{entry} succeeds for an invalid request: {why}"), case(), format!("inputs {inputs:?} outputs {outputs:?} (model metadata {meta:?})"));
        }
    } else if out == Out::Ok {
        cnt.ok_calls.fetch_add(1, Ordering::Relaxed);
    } else if inputs.iter().all(|(_, t)| *t == Tv::Ok) && !outputs.is_empty() {
        // defect-free request with well-formed tensors must succeed
        if entry != "partial_run" {
            ctx.violation(format!("{entry} reports an error for a valid request"), case(), format!("inputs {inputs:?} outputs {outputs:?}"));
        }
    }
}

fn parse_id(s: &str) -> Id {
    match s {
        "X0" => Id::X0,
        "X1" => Id::X1,
        "C0" => Id::C0,
        "V3" => Id::V3,
        "V4" => Id::V4,
        "V5" => Id::V5,
        "Op" => Id::Op,
        "Unknown" => Id::Unknown,
        _ => Id::Big,
    }
}

fn parse_tv(s: &str) -> Tv {
    *TVS.iter().find(|t| format!("{t:?}") == s).unwrap_or(&Tv::Ok)
}

fn load(meta: Meta) -> (Model, Ids) {
    let model = subject::load_bytes(model_bytes(meta), LoadCfg::default()).unwrap_or_else(|e| vp_core::machinery_error(&e));
    let g = model.verif_graph();
    let f = |n: &str| model.find_node(n).unwrap_or_else(|| vp_core::machinery_error("node missing"));
    let v3 = f("v3");
    let op = g.get_source_node(v3).map(|x| x.0).unwrap_or_else(|| vp_core::machinery_error("no source op"));
    let ids = Ids { x0: f("x0"), x1: f("x1"), c0: f("c0"), v3, v4: f("v4"), v5: f("v5"), op };
    (model, ids)
}

pub fn run(ctx: Ctx) -> ! {
    let cnt = Cnt { calls: AtomicU64::new(0), defect_calls: AtomicU64::new(0), ok_calls: AtomicU64::new(0) };
    if let Some(path) = &ctx.replay {
        let case = vp_core::read_replay_case(path);
        let meta = *METAS.iter().find(|m| format!("{m:?}") == case["meta"].as_str().unwrap_or("")).unwrap_or(&Meta::Fixed);
        let (model, ids) = load(meta);
        let inputs: Vec<(Id, Tv)> = case["inputs"].as_array().unwrap().iter().map(|x| (parse_id(x[0].as_str().unwrap()), parse_tv(x[1].as_str().unwrap()))).collect();
        let outputs: Vec<Id> = case["outputs"].as_array().unwrap().iter().map(|x| parse_id(x.as_str().unwrap())).collect();
        check(&ctx, meta, &model, &ids, &inputs, &outputs, case["entry"].as_str().unwrap_or("run"), &cnt);
        ctx.finish("fault_enumeration", json!({"evaluations": 1, "distinct_nontrivial": 2, "rule": "replay", "samples": [case]}), vec![]);
    }
    let in_ids = [Id::X0, Id::X1, Id::C0, Id::V3, Id::V4, Id::Op, Id::Unknown, Id::Big];
    let out_ids = [Id::V5, Id::V3, Id::X0, Id::C0, Id::Op, Id::Unknown];
    let thorough = ctx.tier.is_thorough();
    // input lists
    let mut in_lists: Vec<Vec<(Id, Tv)>> = vec![vec![]];
    for &a in &in_ids {
        for &ta in &TVS {
            in_lists.push(vec![(a, ta)]);
            for &b in &in_ids {
                for &tb in &TVS {
                    in_lists.push(vec![(a, ta), (b, tb)]);
                }
            }
        }
    }
    if !thorough {
        // three inputs (non-adjacent repeats need a list of three): every triple over
        // {x0, x1, v3} with well-formed tensors
        let v3 = [Id::X0, Id::X1, Id::V3];
        for &a in &v3 {
            for &b in &v3 {
                for &c in &v3 {
                    in_lists.push(vec![(a, Tv::Ok), (b, Tv::Ok), (c, Tv::Ok)]);
                }
            }
        }
    }
    if thorough {
        // three inputs: all valid-id triples with repetition, tensor variants restricted to {Ok, I32, Rank1, Dim23}
        let t4 = [Tv::Ok, Tv::I32, Tv::Rank1, Tv::Dim23];
        let v4 = [Id::X0, Id::X1, Id::V3, Id::Op];
        for &a in &v4 {
            for &b in &v4 {
                for &c in &v4 {
                    for &ta in &t4 {
                        for &tb in &t4 {
                            for &tc in &t4 {
                                in_lists.push(vec![(a, ta), (b, tb), (c, tc)]);
                            }
                        }
                    }
                }
            }
        }
    }
    let mut out_lists: Vec<Vec<Id>> = vec![vec![]];
    for &a in &out_ids {
        out_lists.push(vec![a]);
        for &b in &out_ids {
            out_lists.push(vec![a, b]);
            if thorough {
                for &c in &[Id::V5, Id::V3, Id::Op] {
                    out_lists.push(vec![a, b, c]);
                }
            } else if matches!(a, Id::V5 | Id::V3 | Id::X0) && matches!(b, Id::V5 | Id::V3 | Id::X0) {
                // three outputs (non-adjacent repeats need a list of three)
                for &c in &[Id::V5, Id::V3, Id::X0] {
                    out_lists.push(vec![a, b, c]);
                }
            }
        }
    }
    let samples = Samples::new(5);
    let ctxr = &ctx;
    let cntr = &cnt;
    let jobs: Vec<(Meta, usize)> = METAS.iter().flat_map(|m| (0..in_lists.len().div_ceil(64)).map(move |c| (*m, c))).collect();
    vp_core::par::for_each(jobs.len(), |j| {
        let (meta, c) = jobs[j];
        let (model, ids) = load(meta);
        for inputs in &in_lists[c * 64..((c + 1) * 64).min(in_lists.len())] {
            for outputs in &out_lists {
                check(ctxr, meta, &model, &ids, inputs, outputs, "run", cntr);
                check(ctxr, meta, &model, &ids, inputs, outputs, "partial_run", cntr);
                if outputs.len() <= 2 {
                    check(ctxr, meta, &model, &ids, inputs, outputs, "run_n", cntr);
                }
            }
            // run_one: first input / first output of the model
            if inputs.len() == 1 && inputs[0].0 == Id::X0 {
                let tv = inputs[0].1;
                cntr.calls.fetch_add(1, Ordering::Relaxed);
                if let Err(m) = vp_core::catch(|| model.run_one(ValueOrView::Value(make_value(tv)), None).map(|_| ())) {
                    ctxr.violation(format!("run_one panics: {}", vp_core::truncate(&m, 60)), json!({"meta": format!("{meta:?}"), "entry": "run_one", "tensor": format!("{tv:?}")}), m);
                }
            }
        }
        if j % 53 == 2 {
            samples.push(|| json!({"meta": format!("{meta:?}"), "inputs": format!("{:?}", in_lists[c * 64]), "outputs": "every output list"}));
        }
    });
    let calls = cnt.calls.load(Ordering::Relaxed);
    let defects = cnt.defect_calls.load(Ordering::Relaxed);
    let oks = cnt.ok_calls.load(Ordering::Relaxed);
    if defects < 1000 || oks < 100 {
        ctx.machinery("C26 vacuous");
    }
    let cov: Json = json!({
        "evaluations": calls,
        "distinct_nontrivial": defects,
        "rule": "4 models x every input list (<=2 entries over ids {x0,x1,const,declared graph output v3,declared intermediate v4,operator id,unknown id,i32::MAX} with repetition x 8 tensor variants each, plus every triple over {x0,x1,v3} with well-formed tensors; thorough adds triples with tensor variants) x every output list (<=2 over {final,intermediate,input,const,operator id,unknown}, plus every triple over {final,intermediate,input}; thorough <=3) x {run, run_n, partial_run} + run_one; non-trivial = requests that contain a defect for which the property demands an error",
        "samples": samples.take(),
        "exhaustive": true,
        "calls": calls,
        "requests_with_defect": defects,
        "valid_requests_that_succeeded": oks,
    });
    ctx.finish("fault_enumeration", cov, vec!["supplying a constant's id as an input and requesting constants/inputs as outputs are treated as legal (the planner documents them as such)".into()])
}
