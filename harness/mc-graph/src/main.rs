//! mc-graph: bounded-exhaustive checkers for graph planning and execution
//! (C02, C03, C04, C24, C25, C26).

mod c02;
mod c03;
mod c04;
mod c24;
mod c25;
mod c26;
mod prog;
mod subject;

fn main() {
    let prop = std::env::args().nth(1).unwrap_or_default();
    match prop.as_str() {
        "C02" => c02::run(vp_core::Ctx::from_env("C02")),
        "C03" => c03::run(vp_core::Ctx::from_env("C03")),
        "C04" => c04::run(vp_core::Ctx::from_env("C04")),
        "C24" => c24::run(vp_core::Ctx::from_env("C24")),
        "C25" => c25::run(vp_core::Ctx::from_env("C25")),
        "C26" => c26::run(vp_core::Ctx::from_env("C26")),
        _ => vp_core::machinery_error(&format!("mc-graph: unknown property '{prop}'")),
    }
}
