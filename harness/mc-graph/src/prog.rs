//! Small tensor programs: AST, exhaustive enumeration, ONNX encoding and a
//! naive reference evaluator (fresh copies for every operator input, program
//! order, no pooling, no in-place execution).

use vp_core::{Json, json};
use vp_onnx as onnx;

#[derive(Clone, Debug, PartialEq)]
pub struct NArr {
    pub shape: Vec<usize>,
    pub data: Vec<f32>,
}

impl NArr {
    pub fn new(shape: &[usize], data: Vec<f32>) -> NArr {
        assert_eq!(shape.iter().product::<usize>(), data.len());
        NArr { shape: shape.to_vec(), data }
    }
    pub fn to_json(&self) -> Json {
        json!({"shape": self.shape, "data": self.data})
    }
    /// bitwise comparison (distinguishes -0.0 and NaN payloads are irrelevant here: values are small integers)
    pub fn same(&self, o: &NArr) -> bool {
        self.shape == o.shape && self.data.len() == o.data.len() && self.data.iter().zip(&o.data).all(|(a, b)| a.to_bits() == b.to_bits())
    }
}

#[derive(Clone, Copy, Debug, PartialEq, Eq, Hash)]
pub enum OpK {
    Relu,
    Identity,
    Transpose,
    Add,
    Sub,
    Mul,
    MatMul,
    Concat,
    /// two outputs: the halves along axis 0
    Split,
    /// If(const true) { Add(a,b) } else { Sub(a,b) } with a and b captured from the parent graph
    IfAdd,
    /// If(const false) { Add(a,b) } else { Sub(a,b) }
    IfSub,
    /// If(const true) { MatMul(a, Wt) } else { MatMul(a, We) } where Wt / We are
    /// initializers LOCAL to the branch graphs (prepacked per subgraph)
    IfMMThen,
    /// same with a false condition
    IfMMElse,
    /// RandomUniform-like source with no inputs (only used by C04); shape [2,2]
    Random,
    /// RandomUniformLike: one input (only its shape matters), non-deterministic output (only used by C04)
    RandomLike,
    /// Cast(to int32) followed by Cast(to float): the identity on the small-integer values used
    /// here; same-size casts run in place when the executor owns the input
    CastRT,
}

impl OpK {
    pub fn arity(self) -> usize {
        match self {
            OpK::Relu | OpK::Identity | OpK::Transpose | OpK::Split | OpK::IfMMThen | OpK::IfMMElse | OpK::RandomLike | OpK::CastRT => 1,
            OpK::Random => 0,
            _ => 2,
        }
    }
    pub fn n_out(self) -> usize {
        if self == OpK::Split { 2 } else { 1 }
    }
    pub fn name(self) -> &'static str {
        match self {
            OpK::Relu => "Relu",
            OpK::Identity => "Identity",
            OpK::Transpose => "Transpose",
            OpK::Add => "Add",
            OpK::Sub => "Sub",
            OpK::Mul => "Mul",
            OpK::MatMul => "MatMul",
            OpK::Concat => "Concat",
            OpK::Split => "Split",
            OpK::IfAdd => "IfAdd",
            OpK::IfSub => "IfSub",
            OpK::IfMMThen => "IfMMThen",
            OpK::IfMMElse => "IfMMElse",
            OpK::Random => "RandomUniform",
            OpK::RandomLike => "RandomUniformLike",
            OpK::CastRT => "CastRT",
        }
    }
    pub fn from_name(s: &str) -> OpK {
        for k in [
            OpK::Relu, OpK::Identity, OpK::Transpose, OpK::Add, OpK::Sub, OpK::Mul, OpK::MatMul, OpK::Concat,
            OpK::Split, OpK::IfAdd, OpK::IfSub, OpK::IfMMThen, OpK::IfMMElse, OpK::Random, OpK::RandomLike, OpK::CastRT,
        ] {
            if k.name() == s {
                return k;
            }
        }
        vp_core::machinery_error(&format!("unknown op kind {s}"))
    }
}

#[derive(Clone, Debug, PartialEq, Eq, Hash)]
pub struct Op {
    pub kind: OpK,
    /// indices into the value space
    pub ins: Vec<usize>,
}

/// Value space: `0..n_inputs` graph inputs, then `n_consts` constants, then
/// operator outputs in operator order.
#[derive(Clone, Debug, PartialEq, Eq, Hash)]
pub struct Prog {
    pub n_inputs: usize,
    pub n_consts: usize,
    pub ops: Vec<Op>,
}

impl Prog {
    pub fn n_values(&self) -> usize {
        self.n_inputs + self.n_consts + self.ops.iter().map(|o| o.kind.n_out()).sum::<usize>()
    }
    pub fn first_out(&self, op_idx: usize) -> usize {
        self.n_inputs + self.n_consts + self.ops[..op_idx].iter().map(|o| o.kind.n_out()).sum::<usize>()
    }
    pub fn vname(&self, v: usize) -> String {
        if v < self.n_inputs {
            format!("x{v}")
        } else if v < self.n_inputs + self.n_consts {
            format!("c{}", v - self.n_inputs)
        } else {
            format!("v{v}")
        }
    }
    /// Which op produces value v (None for inputs/constants).
    pub fn producer(&self, v: usize) -> Option<usize> {
        (0..self.ops.len()).find(|&i| {
            let f = self.first_out(i);
            v >= f && v < f + self.ops[i].kind.n_out()
        })
    }
    pub fn to_json(&self) -> Json {
        json!({
            "n_inputs": self.n_inputs,
            "n_consts": self.n_consts,
            "ops": self.ops.iter().map(|o| json!([o.kind.name(), o.ins])).collect::<Vec<_>>(),
        })
    }
    pub fn from_json(v: &Json) -> Prog {
        Prog {
            n_inputs: v["n_inputs"].as_u64().unwrap() as usize,
            n_consts: v["n_consts"].as_u64().unwrap() as usize,
            ops: v["ops"]
                .as_array()
                .unwrap()
                .iter()
                .map(|o| Op {
                    kind: OpK::from_name(o[0].as_str().unwrap()),
                    ins: o[1].as_array().unwrap().iter().map(|x| x.as_u64().unwrap() as usize).collect(),
                })
                .collect(),
        }
    }
    pub fn describe(&self) -> String {
        let mut s = String::new();
        for (i, o) in self.ops.iter().enumerate() {
            let outs: Vec<String> = (0..o.kind.n_out()).map(|k| self.vname(self.first_out(i) + k)).collect();
            let ins: Vec<String> = o.ins.iter().map(|&v| self.vname(v)).collect();
            s.push_str(&format!("{} = {}({}); ", outs.join(","), o.kind.name(), ins.join(",")));
        }
        s
    }
}

/// Constant tensors used by programs ([2,2], small integers).
pub fn const_value(i: usize) -> NArr {
    match i {
        0 => NArr::new(&[2, 2], vec![1.0, -1.0, 2.0, 0.0]),
        _ => NArr::new(&[2, 2], vec![0.0, 3.0, -2.0, 1.0]),
    }
}

/// Branch-local weights of the IfMM operators.
pub fn branch_weight(then_branch: bool) -> NArr {
    if then_branch { NArr::new(&[2, 2], vec![1.0, 2.0, 3.0, 4.0]) } else { NArr::new(&[2, 2], vec![-1.0, 0.0, 2.0, -3.0]) }
}

/// Input fills ([2,2], small integers incl. 0 and negatives).
pub fn input_fill(fill: usize, input: usize) -> NArr {
    let base: [[f32; 4]; 3] = [[1.0, -2.0, 3.0, 0.0], [-1.0, 2.0, 0.0, -3.0], [2.0, 2.0, -1.0, 1.0]];
    let mut d = base[(fill + input) % 3].to_vec();
    if fill >= 1 {
        for x in d.iter_mut() {
            *x = -*x + fill as f32;
        }
    }
    NArr::new(&[2, 2], d)
}

// ---------- naive evaluator ----------

fn broadcast_shapes(a: &[usize], b: &[usize]) -> Option<Vec<usize>> {
    let r = a.len().max(b.len());
    let mut out = vec![0; r];
    for i in 0..r {
        let da = if i + a.len() >= r { a[i + a.len() - r] } else { 1 };
        let db = if i + b.len() >= r { b[i + b.len() - r] } else { 1 };
        out[i] = if da == db {
            da
        } else if da == 1 {
            db
        } else if db == 1 {
            da
        } else {
            return None;
        };
    }
    Some(out)
}

fn bidx(idx: &[usize], shape: &[usize]) -> usize {
    // index into an array of `shape` broadcast to idx.len() dims
    let r = idx.len();
    let mut off = 0;
    let mut stride = 1;
    for d in (0..shape.len()).rev() {
        let i = idx[d + r - shape.len()];
        let i = if shape[d] == 1 { 0 } else { i };
        off += i * stride;
        stride *= shape[d];
    }
    off
}

fn all_indices(shape: &[usize]) -> Vec<Vec<usize>> {
    let n: usize = shape.iter().product();
    let mut out = Vec::with_capacity(n);
    if n == 0 {
        return out;
    }
    let mut cur = vec![0; shape.len()];
    loop {
        out.push(cur.clone());
        let mut d = shape.len();
        loop {
            if d == 0 {
                return out;
            }
            d -= 1;
            cur[d] += 1;
            if cur[d] < shape[d] {
                break;
            }
            cur[d] = 0;
        }
    }
}

fn binary(a: &NArr, b: &NArr, f: impl Fn(f32, f32) -> f32) -> Result<NArr, String> {
    let shape = broadcast_shapes(&a.shape, &b.shape).ok_or("broadcast mismatch")?;
    let data = all_indices(&shape).iter().map(|i| f(a.data[bidx(i, &a.shape)], b.data[bidx(i, &b.shape)])).collect();
    Ok(NArr { shape, data })
}

/// Evaluate one operator on fresh copies of its inputs. `rand` supplies the
/// value of a Random op (the reference cannot know it).
pub fn eval_op(kind: OpK, ins: &[NArr]) -> Result<Vec<NArr>, String> {
    let ins: Vec<NArr> = ins.to_vec(); // fresh copies
    match kind {
        OpK::Relu => Ok(vec![NArr { shape: ins[0].shape.clone(), data: ins[0].data.iter().map(|x| if *x > 0.0 { *x } else { 0.0 }).collect() }]),
        OpK::Identity => Ok(vec![ins[0].clone()]),
        OpK::CastRT => Ok(vec![NArr { shape: ins[0].shape.clone(), data: ins[0].data.iter().map(|x| (*x as i32) as f32).collect() }]),
        OpK::Transpose => {
            let a = &ins[0];
            if a.shape.len() != 2 {
                return Err("transpose rank".into());
            }
            let (r, c) = (a.shape[0], a.shape[1]);
            let mut d = vec![0.0; r * c];
            for i in 0..r {
                for j in 0..c {
                    d[j * r + i] = a.data[i * c + j];
                }
            }
            Ok(vec![NArr { shape: vec![c, r], data: d }])
        }
        OpK::Add | OpK::IfAdd => Ok(vec![binary(&ins[0], &ins[1], |x, y| x + y)?]),
        OpK::Sub | OpK::IfSub => Ok(vec![binary(&ins[0], &ins[1], |x, y| x - y)?]),
        OpK::Mul => Ok(vec![binary(&ins[0], &ins[1], |x, y| x * y)?]),
        OpK::MatMul => {
            let (a, b) = (&ins[0], &ins[1]);
            if a.shape.len() != 2 || b.shape.len() != 2 || a.shape[1] != b.shape[0] {
                return Err("matmul shapes".into());
            }
            let (m, k, n) = (a.shape[0], a.shape[1], b.shape[1]);
            let mut d = vec![0.0f32; m * n];
            for i in 0..m {
                for j in 0..n {
                    let mut acc = 0.0f64;
                    for l in 0..k {
                        acc += a.data[i * k + l] as f64 * b.data[l * n + j] as f64;
                    }
                    d[i * n + j] = acc as f32;
                }
            }
            Ok(vec![NArr { shape: vec![m, n], data: d }])
        }
        OpK::Concat => {
            let (a, b) = (&ins[0], &ins[1]);
            if a.shape.len() != 2 || b.shape.len() != 2 || a.shape[1] != b.shape[1] {
                return Err("concat shapes".into());
            }
            let mut d = a.data.clone();
            d.extend_from_slice(&b.data);
            Ok(vec![NArr { shape: vec![a.shape[0] + b.shape[0], a.shape[1]], data: d }])
        }
        OpK::Split => {
            let a = &ins[0];
            if a.shape.len() != 2 || a.shape[0] % 2 != 0 || a.shape[0] == 0 {
                return Err("split shape".into());
            }
            let h = a.shape[0] / 2;
            let c = a.shape[1];
            Ok(vec![
                NArr { shape: vec![h, c], data: a.data[..h * c].to_vec() },
                NArr { shape: vec![h, c], data: a.data[h * c..].to_vec() },
            ])
        }
        OpK::IfMMThen => eval_op(OpK::MatMul, &[ins[0].clone(), branch_weight(true)]),
        OpK::IfMMElse => eval_op(OpK::MatMul, &[ins[0].clone(), branch_weight(false)]),
        OpK::Random | OpK::RandomLike => Err("random has no reference value".into()),
    }
}

/// Evaluate the whole program; entry v of the result is the value of value-index v
/// (None if it could not be computed because an operator failed).
pub fn eval(p: &Prog, inputs: &[NArr]) -> Vec<Option<NArr>> {
    eval_over(p, inputs, None)
}

/// Like `eval`, but the value `over.0` (an operator output) is supplied by the
/// caller: everything downstream sees `over.1` instead of what its producer computes.
pub fn eval_over(p: &Prog, inputs: &[NArr], over: Option<(usize, &NArr)>) -> Vec<Option<NArr>> {
    let mut vals: Vec<Option<NArr>> = Vec::new();
    for i in 0..p.n_inputs {
        vals.push(Some(inputs[i].clone()));
    }
    for i in 0..p.n_consts {
        vals.push(Some(const_value(i)));
    }
    for op in &p.ops {
        let ins: Option<Vec<NArr>> = op.ins.iter().map(|&v| vals[v].clone()).collect();
        let outs = match ins {
            Some(ins) => eval_op(op.kind, &ins).ok(),
            None => None,
        };
        for k in 0..op.kind.n_out() {
            match over {
                Some((v, a)) if v == vals.len() => vals.push(Some(a.clone())),
                _ => vals.push(outs.as_ref().map(|o| o[k].clone())),
            }
        }
    }
    vals
}

// ---------- ONNX encoding ----------

fn narr_tensor(name: &str, a: &NArr) -> onnx::Tensor {
    let dims: Vec<i64> = a.shape.iter().map(|&d| d as i64).collect();
    onnx::Tensor::f32(name, &dims, &a.data)
}

fn branch_graph(p: &Prog, name: &str, op: &str, a: usize, b: usize, out: &str) -> onnx::Graph {
    let mut g = onnx::Graph::new(name);
    g.nodes.push(onnx::Node::new(op, &[&p.vname(a), &p.vname(b)], &[out]).named(&format!("{name}_{op}")));
    g.outputs.push(onnx::ValueInfo::untyped(out));
    g
}

/// Encode the program. Every operator output is a declared graph output so
/// that nothing is removed at load time; inputs are declared f32 with
/// symbolic dims unless `fixed_shapes`.
pub fn to_onnx(p: &Prog, fixed_shapes: bool) -> Vec<u8> {
    let mut g = onnx::Graph::new("prog");
    for i in 0..p.n_inputs {
        let name = p.vname(i);
        if fixed_shapes {
            g.inputs.push(onnx::ValueInfo::fixed(&name, onnx::dtype::FLOAT, &[2, 2]));
        } else {
            g.inputs.push(onnx::ValueInfo::new(
                &name,
                onnx::dtype::FLOAT,
                &[onnx::Dim::Sym("r".into()), onnx::Dim::Sym("c".into())],
            ));
        }
    }
    for i in 0..p.n_consts {
        g.initializers.push(narr_tensor(&p.vname(p.n_inputs + i), &const_value(i)));
    }
    let mut need_true = false;
    let mut need_false = false;
    for (i, op) in p.ops.iter().enumerate() {
        let first = p.first_out(i);
        let outs: Vec<String> = (0..op.kind.n_out()).map(|k| p.vname(first + k)).collect();
        let outs_ref: Vec<&str> = outs.iter().map(|s| s.as_str()).collect();
        let ins: Vec<String> = op.ins.iter().map(|&v| p.vname(v)).collect();
        let ins_ref: Vec<&str> = ins.iter().map(|s| s.as_str()).collect();
        let nname = format!("op{i}");
        let node = match op.kind {
            OpK::Split => onnx::Node::new("Split", &ins_ref, &outs_ref)
                .attr("axis", onnx::Attr::Int(0))
                .attr("num_outputs", onnx::Attr::Int(2)),
            OpK::Concat => onnx::Node::new("Concat", &ins_ref, &outs_ref).attr("axis", onnx::Attr::Int(0)),
            OpK::IfAdd | OpK::IfSub => {
                let cond = if op.kind == OpK::IfAdd {
                    need_true = true;
                    "cond_true"
                } else {
                    need_false = true;
                    "cond_false"
                };
                let then_g = branch_graph(p, &format!("then{i}"), "Add", op.ins[0], op.ins[1], &format!("then_out{i}"));
                let else_g = branch_graph(p, &format!("else{i}"), "Sub", op.ins[0], op.ins[1], &format!("else_out{i}"));
                onnx::Node::new("If", &[cond], &outs_ref)
                    .attr("then_branch", onnx::Attr::Graph(then_g))
                    .attr("else_branch", onnx::Attr::Graph(else_g))
            }
            OpK::IfMMThen | OpK::IfMMElse => {
                let cond = if op.kind == OpK::IfMMThen {
                    need_true = true;
                    "cond_true"
                } else {
                    need_false = true;
                    "cond_false"
                };
                let mk = |name: &str, then_b: bool, out: &str| {
                    let mut g = onnx::Graph::new(name);
                    g.initializers.push(narr_tensor("w", &branch_weight(then_b)));
                    g.nodes.push(onnx::Node::new("MatMul", &[&p.vname(op.ins[0]), "w"], &[out]).named(&format!("{name}_mm")));
                    g.outputs.push(onnx::ValueInfo::untyped(out));
                    g
                };
                onnx::Node::new("If", &[cond], &outs_ref)
                    .attr("then_branch", onnx::Attr::Graph(mk(&format!("then{i}"), true, &format!("then_out{i}"))))
                    .attr("else_branch", onnx::Attr::Graph(mk(&format!("else{i}"), false, &format!("else_out{i}"))))
            }
            OpK::Random => onnx::Node::new("RandomUniform", &[], &outs_ref)
                .attr("shape", onnx::Attr::Ints(vec![2, 2]))
                .attr("low", onnx::Attr::Float(1.0))
                .attr("high", onnx::Attr::Float(2.0)),
            OpK::CastRT => {
                let mid = format!("{}_i32", outs[0]);
                g.nodes.push(onnx::Node::new("Cast", &ins_ref, &[&mid]).attr("to", onnx::Attr::Int(onnx::dtype::INT32 as i64)).named(&format!("op{i}_a")));
                onnx::Node::new("Cast", &[&mid], &outs_ref).attr("to", onnx::Attr::Int(onnx::dtype::FLOAT as i64))
            }
            OpK::RandomLike => onnx::Node::new("RandomUniformLike", &ins_ref, &outs_ref).attr("low", onnx::Attr::Float(1.0)).attr("high", onnx::Attr::Float(2.0)),
            k => onnx::Node::new(k.name(), &ins_ref, &outs_ref),
        };
        g.nodes.push(node.named(&nname));
        for o in &outs {
            g.outputs.push(onnx::ValueInfo::untyped(o));
        }
    }
    if need_true {
        g.initializers.push(onnx::Tensor::bool("cond_true", &[], &[true]));
    }
    if need_false {
        g.initializers.push(onnx::Tensor::bool("cond_false", &[], &[false]));
    }
    if p.ops.is_empty() {
        // a model needs at least one output
        g.nodes.push(onnx::Node::new("Identity", &["x0"], &["ident_out"]));
        g.outputs.push(onnx::ValueInfo::untyped("ident_out"));
    }
    onnx::model_bytes(&g)
}

// ---------- enumeration ----------

/// Every program with exactly `n_ops` operators over `kinds`, where each
/// operator input ranges over all earlier values *with repetition*.
pub fn enumerate(n_inputs: usize, n_consts: usize, n_ops: usize, kinds: &[OpK], out: &mut Vec<Prog>) {
    fn rec(p: &mut Prog, n_ops: usize, kinds: &[OpK], out: &mut Vec<Prog>) {
        if p.ops.len() == n_ops {
            out.push(p.clone());
            return;
        }
        let nv = p.n_values();
        for &k in kinds {
            match k.arity() {
                0 => {
                    p.ops.push(Op { kind: k, ins: vec![] });
                    rec(p, n_ops, kinds, out);
                    p.ops.pop();
                }
                1 => {
                    for a in 0..nv {
                        p.ops.push(Op { kind: k, ins: vec![a] });
                        rec(p, n_ops, kinds, out);
                        p.ops.pop();
                    }
                }
                _ => {
                    for a in 0..nv {
                        for b in 0..nv {
                            p.ops.push(Op { kind: k, ins: vec![a, b] });
                            rec(p, n_ops, kinds, out);
                            p.ops.pop();
                        }
                    }
                }
            }
        }
    }
    let mut p = Prog { n_inputs, n_consts, ops: vec![] };
    rec(&mut p, n_ops, kinds, out);
}

/// Does every operator's output reach some later operator or is it the last op?
/// (Used to drop programs with dead code when a smaller program covers them.)
pub fn all_ops_used(p: &Prog) -> bool {
    for i in 0..p.ops.len().saturating_sub(1) {
        let f = p.first_out(i);
        let outs = f..f + p.ops[i].kind.n_out();
        if !p.ops[i + 1..].iter().any(|o| o.ins.iter().any(|v| outs.contains(v))) {
            return false;
        }
    }
    true
}
