//! Driving the real rten `Model` with programs from `prog.rs`.

use std::sync::Arc;

use rten::{Model, ModelOptions, NodeId, RunOptions, ThreadPool, Value, ValueOrView};
use rten_tensor::prelude::*;
use rten_tensor::Tensor;

use crate::prog::{NArr, Prog};

pub struct Loaded {
    pub model: Model,
    /// value index -> node id (None if the loader/optimizer removed the value)
    pub ids: Vec<Option<NodeId>>,
}

#[derive(Clone, Copy, Debug, PartialEq, Eq)]
pub struct LoadCfg {
    pub optimize: bool,
    pub prepack: bool,
    pub fixed_shapes: bool,
}

impl Default for LoadCfg {
    fn default() -> Self {
        LoadCfg { optimize: false, prepack: false, fixed_shapes: false }
    }
}

pub fn load_bytes(bytes: Vec<u8>, cfg: LoadCfg) -> Result<Model, String> {
    let mut o = ModelOptions::with_all_ops();
    o.enable_optimization(cfg.optimize);
    o.prepack_weights(cfg.prepack);
    match vp_core::catch(|| o.load(bytes)) {
        Ok(Ok(m)) => Ok(m),
        Ok(Err(e)) => Err(format!("load error: {e}")),
        Err(p) => Err(format!("load PANIC: {p}")),
    }
}

pub fn load(p: &Prog, cfg: LoadCfg) -> Result<Loaded, String> {
    let model = load_bytes(crate::prog::to_onnx(p, cfg.fixed_shapes), cfg)?;
    let ids = (0..p.n_values()).map(|v| model.find_node(&p.vname(v))).collect();
    Ok(Loaded { model, ids })
}

pub fn to_tensor(a: &NArr) -> Tensor<f32> {
    Tensor::from_data(&a.shape, a.data.clone())
}

pub fn value_to_narr(v: &Value) -> Result<NArr, String> {
    match v {
        Value::FloatTensor(t) => Ok(NArr { shape: t.shape().to_vec(), data: t.to_vec() }),
        Value::Int32Tensor(t) => Ok(NArr { shape: t.shape().to_vec(), data: t.iter().map(|x| *x as f32).collect() }),
        other => Err(format!("unexpected value type {:?}", other.dtype())),
    }
}

#[derive(Clone, Debug, PartialEq)]
pub enum RunOutcome {
    Ok(Vec<NArr>),
    Err(String),
    Panic(String),
}

pub struct RunCfg<'a> {
    /// bit i set => input i is passed as an owned value
    pub owned_mask: u32,
    pub pool: Option<&'a Arc<ThreadPool>>,
    /// explicit operator order (through Graph::verif_run_plan) instead of the planner's
    pub order: Option<&'a [NodeId]>,
    /// owned inputs are passed with non-contiguous storage (the transposed data, permuted
    /// back in place), so that in-place execution meets a non-contiguous owned operand
    pub owned_noncontiguous: bool,
}

/// Run requesting the values `outs` (value indices). Inputs whose tensors are
/// borrowed live in `input_tensors` (so that callers can check they are unchanged).
pub fn run(l: &Loaded, input_tensors: &[Tensor<f32>], supplied: &[usize], outs: &[usize], cfg: &RunCfg) -> RunOutcome {
    let mut inputs: Vec<(NodeId, ValueOrView)> = Vec::new();
    for &i in supplied {
        let Some(id) = l.ids[i] else { return RunOutcome::Err("input node missing".into()) };
        if cfg.owned_mask >> i & 1 == 1 {
            let t = &input_tensors[i];
            if cfg.owned_noncontiguous && t.ndim() == 2 {
                let mut tt = t.transposed().to_tensor();
                tt.permute(&[1, 0]);
                debug_assert_eq!(tt.shape(), t.shape());
                inputs.push((id, ValueOrView::Value(Value::from(tt))));
                continue;
            }
            inputs.push((id, ValueOrView::Value(Value::from(input_tensors[i].clone()))));
        } else {
            inputs.push((id, ValueOrView::from(input_tensors[i].view())));
        }
    }
    let mut out_ids = Vec::new();
    for &o in outs {
        match l.ids[o] {
            Some(id) => out_ids.push(id),
            None => return RunOutcome::Err("output node missing".into()),
        }
    }
    let opts = cfg.pool.map(|p| RunOptions::default().with_thread_pool(Some(p.clone())));
    let res = vp_core::catch(|| match cfg.order {
        None => l.model.run(inputs, &out_ids, opts),
        Some(order) => l.model.verif_graph().verif_run_plan(
            inputs,
            order,
            &out_ids,
            Some(l.model.verif_weight_cache()),
            opts,
        ),
    });
    match res {
        Ok(Ok(vals)) => {
            let mut v = Vec::new();
            for x in &vals {
                match value_to_narr(x) {
                    Ok(a) => v.push(a),
                    Err(e) => return RunOutcome::Err(e),
                }
            }
            RunOutcome::Ok(v)
        }
        Ok(Err(e)) => RunOutcome::Err(format!("{e}")),
        Err(p) => RunOutcome::Panic(p),
    }
}
