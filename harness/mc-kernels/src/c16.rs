pub fn run(ctx: vp_core::Ctx) -> ! {
    ctx.machinery("engine not built yet")
}
