//! C16 — Matrix multiplication is correct for every kernel and shape.
//!
//! Operands are small integers and alpha/beta dyadic, so alpha*A*B + beta*C +
//! bias is exactly representable for every summation order: the oracle is
//! equality with an integer reference. Outputs are pre-filled with NaN (also
//! behind MaybeUninit) so that an unwritten element or leaked prior content
//! shows up as NaN.

use std::mem::MaybeUninit;

use rten_gemm::{BiasVector, ColOffsets, GemmExecutor, GemmInputA, GemmInputB, GemmOptions, GemmUninitOptions, Im2Col, RowOffsets};
use rten_tensor::NdTensorView;
use vp_core::{Ctx, Json, Samples, json};

type Exec = GemmExecutor<f32, f32, f32>;

fn a_val(i: usize, j: usize) -> i32 {
    ((i * i * 3 + j * 7 + i * j + 1) % 11) as i32 - 5
}
fn b_val(i: usize, j: usize) -> i32 {
    ((i * 5 + j * j * 3 + 2 * i * j + 2) % 9) as i32 - 4
}
fn c_val(i: usize, j: usize) -> i32 {
    ((i * 3 + j * 5 + 1) % 17) as i32 - 8
}
fn bias_val(i: usize) -> i32 {
    ((i * 5 + 2) % 13) as i32 - 6
}

#[derive(Clone, Copy, Debug, PartialEq, Eq)]
enum Lay {
    Row,
    Col,
    PadRow,
    PadCol,
}
const LAYS: [Lay; 4] = [Lay::Row, Lay::Col, Lay::PadRow, Lay::PadCol];

impl Lay {
    fn name(self) -> &'static str {
        match self {
            Lay::Row => "row-major",
            Lay::Col => "column-major",
            Lay::PadRow => "padded-row-stride",
            Lay::PadCol => "padded-col-stride",
        }
    }
    fn from_name(s: &str) -> Lay {
        LAYS.iter().copied().find(|l| l.name() == s).unwrap_or(Lay::Row)
    }
    fn strides(self, rows: usize, cols: usize) -> [usize; 2] {
        match self {
            Lay::Row => [cols.max(1), 1],
            Lay::Col => [1, rows.max(1)],
            Lay::PadRow => [cols + 3, 1],
            Lay::PadCol => [2 * cols + 1, 2],
        }
    }
}

/// Storage for a strided matrix; slots not addressed by the layout hold NaN.
struct Mat {
    data: Vec<f32>,
    rows: usize,
    cols: usize,
    strides: [usize; 2],
}

impl Mat {
    fn new(rows: usize, cols: usize, lay: Lay, f: impl Fn(usize, usize) -> i32) -> Mat {
        let strides = lay.strides(rows, cols);
        let len = if rows == 0 || cols == 0 { 0 } else { (rows - 1) * strides[0] + (cols - 1) * strides[1] + 1 };
        let mut data = vec![f32::NAN; len];
        for i in 0..rows {
            for j in 0..cols {
                data[i * strides[0] + j * strides[1]] = f(i, j) as f32;
            }
        }
        Mat { data, rows, cols, strides }
    }
    fn view(&self) -> NdTensorView<'_, f32, 2> {
        NdTensorView::from_slice_with_strides([self.rows, self.cols], &self.data, self.strides)
            .unwrap_or_else(|e| vp_core::machinery_error(&format!("cannot build matrix view {}x{} strides {:?}: {e:?}", self.rows, self.cols, self.strides)))
    }
}

/// Integer reference product S = A*B for the value patterns above.
fn ref_product(m: usize, k: usize, n: usize) -> Vec<i32> {
    let a: Vec<i32> = (0..m * k).map(|x| a_val(x / k.max(1), x % k.max(1))).collect();
    let b: Vec<i32> = (0..k * n).map(|x| b_val(x / n.max(1), x % n.max(1))).collect();
    let mut s = vec![0i32; m * n];
    for i in 0..m {
        let row = &mut s[i * n..(i + 1) * n];
        for kk in 0..k {
            let av = a[i * k + kk];
            let brow = &b[kk * n..(kk + 1) * n];
            for j in 0..n {
                row[j] += av * brow[j];
            }
        }
    }
    s
}

#[derive(Clone, Copy, Debug, PartialEq)]
enum Bias {
    None,
    Row,
    Column,
}

fn expected(s: &[i32], m: usize, n: usize, alpha: f32, beta: f32, bias: Bias) -> Vec<f64> {
    let mut e = vec![0f64; m * n];
    for i in 0..m {
        for j in 0..n {
            let mut v = alpha as f64 * s[i * n + j] as f64;
            if beta != 0.0 {
                v += beta as f64 * c_val(i, j) as f64;
            }
            v += match bias {
                Bias::None => 0.0,
                Bias::Row => bias_val(j) as f64,
                Bias::Column => bias_val(i) as f64,
            };
            e[i * n + j] = v;
        }
    }
    e
}

/// First mismatch: (index, got, expected).
fn compare(out: &[f32], exp: &[f64]) -> Option<(usize, f32, f64)> {
    if out.len() != exp.len() {
        return Some((usize::MAX, out.len() as f32, exp.len() as f64));
    }
    for i in 0..out.len() {
        if !(out[i] as f64 == exp[i]) {
            return Some((i, out[i], exp[i]));
        }
    }
    None
}

#[derive(Clone, Debug)]
struct Case {
    kernel: String,
    threads: usize,
    entry: &'static str, // gemm | gemm_uninit | batched(N)
    m: usize,
    k: usize,
    n: usize,
    a_lay: Lay,
    b_lay: Lay,
    a_packed: bool,
    b_form: &'static str, // unpacked | prepacked
    alpha: f32,
    beta: f32,
    bias: Bias,
}

impl Case {
    fn json(&self) -> Json {
        json!({"kind": "gemm", "kernel": self.kernel, "threads": self.threads, "entry": self.entry, "m": self.m, "k": self.k, "n": self.n,
            "a_layout": self.a_lay.name(), "b_layout": self.b_lay.name(), "a_prepacked": self.a_packed, "b_form": self.b_form,
            "alpha": self.alpha, "beta": self.beta, "bias": format!("{:?}", self.bias)})
    }
    fn from_json(j: &Json) -> Case {
        Case {
            kernel: j["kernel"].as_str().unwrap_or("").into(),
            threads: j["threads"].as_u64().unwrap_or(1) as usize,
            entry: match j["entry"].as_str().unwrap_or("gemm") {
                "gemm_uninit" => "gemm_uninit",
                _ => "gemm",
            },
            m: j["m"].as_u64().unwrap_or(0) as usize,
            k: j["k"].as_u64().unwrap_or(0) as usize,
            n: j["n"].as_u64().unwrap_or(0) as usize,
            a_lay: Lay::from_name(j["a_layout"].as_str().unwrap_or("")),
            b_lay: Lay::from_name(j["b_layout"].as_str().unwrap_or("")),
            a_packed: j["a_prepacked"].as_bool().unwrap_or(false),
            b_form: if j["b_form"].as_str() == Some("prepacked") { "prepacked" } else { "unpacked" },
            alpha: j["alpha"].as_f64().unwrap_or(1.0) as f32,
            beta: j["beta"].as_f64().unwrap_or(0.0) as f32,
            bias: match j["bias"].as_str().unwrap_or("None") {
                "Row" => Bias::Row,
                "Column" => Bias::Column,
                _ => Bias::None,
            },
        }
    }
    fn path(&self) -> &'static str {
        if self.m == 0 || self.n == 0 {
            "empty-output"
        } else if self.k == 0 {
            "zero-depth"
        } else if self.m == 1 && !self.a_packed && self.b_form == "unpacked" {
            "gemv"
        } else {
            "tiled"
        }
    }
    fn signature(&self, what: &str) -> String {
        let opts = format!(
            "{}{}{}",
            if self.alpha != 1.0 { "alpha " } else { "" },
            if self.beta != 0.0 { "beta " } else { "" },
            if self.bias != Bias::None { "bias " } else { "" }
        );
        format!(
            "gemm f32 kernel={} entry={} path={} a={} b={}{}: {}",
            self.kernel,
            self.entry,
            self.path(),
            if self.a_packed { "prepacked" } else { "unpacked" },
            self.b_form,
            if opts.is_empty() { String::new() } else { format!(" opts={}", opts.trim()) },
            what
        )
    }
}

enum Outcome {
    Ok,
    Bad(String, String), // (what, detail)
    PanicAt(String, String),
}

/// Execute one case on the given executor (inside the caller's thread pool).
fn run_case(exec: &Exec, c: &Case, s: &[i32]) -> Outcome {
    let a = Mat::new(c.m, c.k, c.a_lay, a_val);
    let b = Mat::new(c.k, c.n, c.b_lay, b_val);
    let bias_vec: Vec<f32> = match c.bias {
        Bias::None => vec![],
        Bias::Row => (0..c.n).map(|j| bias_val(j) as f32).collect(),
        Bias::Column => (0..c.m).map(|i| bias_val(i) as f32).collect(),
    };
    let bias = match c.bias {
        Bias::None => None,
        Bias::Row => Some(BiasVector::Row(&bias_vec[..])),
        Bias::Column => Some(BiasVector::Column(&bias_vec[..])),
    };
    let packed_a = if c.a_packed {
        match vp_core::catch(|| exec.prepack_a(a.view())) {
            Ok(p) => Some(p),
            Err(p) => return Outcome::PanicAt("prepack_a".into(), p),
        }
    } else {
        None
    };
    let packed_b = if c.b_form == "prepacked" {
        match vp_core::catch(|| exec.prepack_b(b.view())) {
            Ok(p) => Some(p),
            Err(p) => return Outcome::PanicAt("prepack_b".into(), p),
        }
    } else {
        None
    };
    let ain = match &packed_a {
        Some(p) => GemmInputA::Packed(p),
        None => GemmInputA::Unpacked(a.view()),
    };
    let bin = match &packed_b {
        Some(p) => GemmInputB::Packed(p),
        None => GemmInputB::Unpacked(b.view()),
    };
    let mut out: Vec<f32> = if c.beta != 0.0 {
        (0..c.m * c.n).map(|x| c_val(x / c.n.max(1), x % c.n.max(1)) as f32).collect()
    } else {
        vec![f32::NAN; c.m * c.n]
    };
    let res = vp_core::catch(|| match c.entry {
        "gemm" => exec
            .gemm(&mut out, ain, bin, GemmOptions { alpha: c.alpha, beta: c.beta, bias, a_quant: None, b_quant: None })
            .map_err(|e| format!("{e:?}")),
        _ => {
            let un: &mut [MaybeUninit<f32>] = unsafe { std::mem::transmute::<&mut [f32], &mut [MaybeUninit<f32>]>(&mut out[..]) };
            exec.gemm_uninit(un, ain, bin, GemmUninitOptions { alpha: c.alpha, bias, a_quant: None, b_quant: None })
                .map(|_| ())
                .map_err(|e| format!("{e:?}"))
        }
    });
    match res {
        Err(p) => Outcome::PanicAt(c.entry.into(), p),
        Ok(Err(e)) => Outcome::Bad("returns an error for valid inputs".into(), format!("error {e}")),
        Ok(Ok(())) => {
            let exp = expected(s, c.m, c.n, c.alpha, c.beta, c.bias);
            match compare(&out, &exp) {
                None => Outcome::Ok,
                Some((i, got, e)) => {
                    let what = if got.is_nan() {
                        "output element is NaN (not written, or prior NaN content leaked)"
                    } else {
                        "wrong value"
                    };
                    Outcome::Bad(what.into(), format!("out[{},{}] = {} expected {} (exact)", i / c.n.max(1), i % c.n.max(1), got, e))
                }
            }
        }
    }
}

fn report(ctx: &Ctx, c: &Case, o: Outcome) -> bool {
    match o {
        Outcome::Ok => true,
        Outcome::Bad(what, detail) => {
            ctx.violation(c.signature(&what), c.json(), format!("{:?}: {detail}", c.json().to_string()));
            false
        }
        Outcome::PanicAt(site, p) => {
            let class = if c.k == 0 { " (K = 0)" } else if c.m == 0 || c.n == 0 { " (empty operand)" } else { "" };
            // prepack_a / prepack_b share their blocking arithmetic and do not depend on the kernel for K = 0
            let sig = if site.starts_with("prepack") && c.k == 0 {
                "gemm f32: prepack_a / prepack_b panic for a matrix with K = 0".to_string()
            } else {
                format!("gemm f32 kernel={}: {site} panics for valid inputs{class}", c.kernel)
            };
            ctx.violation(
                sig,
                c.json(),
                format!("{site} panicked: {p}; case {}", c.json()),
            );
            false
        }
    }
}

fn executors() -> Vec<Exec> {
    rten_gemm::verif::f32_executors()
}

// ---------------------------------------------------------------------------
// im2col
// ---------------------------------------------------------------------------

struct ConvGeom {
    chans: usize,
    h: usize,
    w: usize,
    kh: usize,
    kw: usize,
    pad: [usize; 4], // top, left, bottom, right
    stride: [usize; 2],
    dil: [usize; 2],
}

fn img_val(c: usize, y: usize, x: usize) -> i32 {
    ((c * 7 + y * 3 + x * 5 + y * x) % 9) as i32 - 4
}

/// Same construction as rten's src/ops/conv/im2col.rs::build_im2col.
fn build_im2col<'a>(image: NdTensorView<'a, f32, 3>, g: &ConvGeom, col_step: usize, row_step: usize) -> (Im2Col<'a, f32>, usize, usize) {
    let [sc, sh, sw] = [g.h * g.w, g.w, 1].map(|v| v as i32);
    let oh = (g.h + g.pad[0] + g.pad[2] - g.dil[0] * (g.kh - 1) - 1) / g.stride[0] + 1;
    let ow = (g.w + g.pad[1] + g.pad[3] - g.dil[1] * (g.kw - 1) - 1) / g.stride[1] + 1;
    let n_rows = g.chans * g.kh * g.kw;
    let n_rows_p = n_rows.next_multiple_of(row_step);
    let (mut rc, mut ry, mut rx) = (Vec::new(), Vec::new(), Vec::new());
    for c in 0..g.chans {
        for ky in 0..g.kh {
            for kx in 0..g.kw {
                rc.push(c as i32 * sc);
                ry.push(sh * (ky * g.dil[0]) as i32);
                rx.push(sw * (kx * g.dil[1]) as i32);
            }
        }
    }
    let max_y = ((g.h - 1) as i32) * sh;
    let max_x = ((g.w - 1) as i32) * sw;
    for _ in n_rows..n_rows_p {
        rc.push(0);
        rx.push(max_x + 1);
        ry.push(max_y + 1);
    }
    let n_cols = oh * ow;
    let n_cols_p = n_cols.next_multiple_of(col_step);
    let (mut cy, mut cx) = (Vec::new(), Vec::new());
    for col in 0..n_cols_p {
        let py = (col / ow) as i32;
        let px = (col % ow) as i32;
        cy.push((py * g.stride[0] as i32 - g.pad[0] as i32) * sh);
        cx.push((px * g.stride[1] as i32 - g.pad[1] as i32) * sw);
    }
    (
        Im2Col { image, row_offsets: RowOffsets { chan: rc, y: ry, x: rx }, col_offsets: ColOffsets { y: cy, x: cx }, n_cols, n_rows, max_y_offset: max_y, max_x_offset: max_x },
        oh,
        ow,
    )
}

fn im2col_cases(ctx: &Ctx, execs: &[Exec], counts: &mut Counts) {
    let geoms = [
        ConvGeom { chans: 2, h: 5, w: 5, kh: 3, kw: 3, pad: [1, 1, 1, 1], stride: [1, 1], dil: [1, 1] },
        ConvGeom { chans: 3, h: 7, w: 6, kh: 2, kw: 3, pad: [0, 1, 1, 0], stride: [2, 2], dil: [1, 1] },
        ConvGeom { chans: 1, h: 9, w: 9, kh: 3, kw: 3, pad: [0, 0, 0, 0], stride: [1, 1], dil: [2, 2] },
        ConvGeom { chans: 5, h: 12, w: 11, kh: 3, kw: 3, pad: [1, 1, 1, 1], stride: [1, 2], dil: [1, 1] },
    ];
    for (gi, g) in geoms.iter().enumerate() {
        let img: Vec<f32> = (0..g.chans * g.h * g.w).map(|i| img_val(i / (g.h * g.w), (i / g.w) % g.h, i % g.w) as f32).collect();
        let image = NdTensorView::from_data([g.chans, g.h, g.w], &img[..]);
        for exec in execs {
            let (im, oh, ow) = build_im2col(image.clone(), g, exec.im2col_col_count_step(), exec.im2col_row_count_step());
            let (k, n) = (im.rows(), im.cols());
            // explicit matrix
            let mut bm = vec![0i32; k * n];
            for r in 0..k {
                let (c, ky, kx) = (r / (g.kh * g.kw), (r / g.kw) % g.kh, r % g.kw);
                for col in 0..n {
                    let y = (col / ow) as i64 * g.stride[0] as i64 - g.pad[0] as i64 + (ky * g.dil[0]) as i64;
                    let x = (col % ow) as i64 * g.stride[1] as i64 - g.pad[1] as i64 + (kx * g.dil[1]) as i64;
                    bm[r * n + col] = if y >= 0 && x >= 0 && (y as usize) < g.h && (x as usize) < g.w { img_val(c, y as usize, x as usize) } else { 0 };
                }
            }
            let _ = oh;
            for m in [1usize, 3, 8, 17] {
                for (alpha, beta, bias) in [(1.0f32, 0.0f32, Bias::None), (0.5, 0.0, Bias::Column), (1.0, 1.0, Bias::None), (-1.0, 0.0, Bias::Row)] {
                    let a = Mat::new(m, k, Lay::Row, a_val);
                    let mut s = vec![0i32; m * n];
                    for i in 0..m {
                        for kk in 0..k {
                            for j in 0..n {
                                s[i * n + j] += a_val(i, kk) * bm[kk * n + j];
                            }
                        }
                    }
                    let exp = expected(&s, m, n, alpha, beta, bias);
                    let bias_vec: Vec<f32> = match bias {
                        Bias::None => vec![],
                        Bias::Row => (0..n).map(|j| bias_val(j) as f32).collect(),
                        Bias::Column => (0..m).map(|i| bias_val(i) as f32).collect(),
                    };
                    let bv = match bias {
                        Bias::None => None,
                        Bias::Row => Some(BiasVector::Row(&bias_vec[..])),
                        Bias::Column => Some(BiasVector::Column(&bias_vec[..])),
                    };
                    let mut out: Vec<f32> = if beta != 0.0 { (0..m * n).map(|x| c_val(x / n, x % n) as f32).collect() } else { vec![f32::NAN; m * n] };
                    counts.cases += 1;
                    let case = json!({"kind": "im2col", "kernel": exec.kernel_name(), "geometry": gi, "m": m, "k": k, "n": n, "alpha": alpha, "beta": beta, "bias": format!("{bias:?}")});
                    let r = vp_core::catch(|| exec.gemm(&mut out, GemmInputA::Unpacked(a.view()), GemmInputB::Im2Col(&im), GemmOptions { alpha, beta, bias: bv, a_quant: None, b_quant: None }));
                    match r {
                        Err(p) => ctx.violation(format!("gemm f32 kernel={} b=im2col: panics for valid inputs", exec.kernel_name()), case, p),
                        Ok(Err(e)) => ctx.violation(format!("gemm f32 kernel={} b=im2col: returns an error for valid inputs", exec.kernel_name()), case, format!("{e:?}")),
                        Ok(Ok(())) => match compare(&out, &exp) {
                            None => counts.ok += 1,
                            Some((i, got, e)) => ctx.violation(
                                format!("gemm f32 kernel={} entry=gemm b=im2col: {}", exec.kernel_name(), if got.is_nan() { "output element is NaN" } else { "wrong value" }),
                                case,
                                format!("geometry {gi} (C={},H={},W={},k={}x{},pad={:?},stride={:?},dil={:?}) m={m}: out[{},{}] = {got} expected {e}", g.chans, g.h, g.w, g.kh, g.kw, g.pad, g.stride, g.dil, i / n, i % n),
                            ),
                        },
                    }
                }
            }
        }
    }
}

// ---------------------------------------------------------------------------
// batched
// ---------------------------------------------------------------------------

fn batched_cases(ctx: &Ctx, execs: &[Exec], counts: &mut Counts) {
    for exec in execs {
        for (m, k, n) in [(1usize, 4usize, 5usize), (3, 9, 17), (8, 33, 16), (2, 0, 3)] {
            let s = ref_product(m, k, n);
            for batch in [0usize, 1, 3] {
                for bias in [Bias::None, Bias::Row] {
                    let a = Mat::new(m, k, Lay::Row, a_val);
                    let b = Mat::new(k, n, Lay::Col, b_val);
                    let avs: Vec<GemmInputA<f32>> = (0..batch).map(|_| GemmInputA::Unpacked(a.view())).collect();
                    let bvs: Vec<GemmInputB<f32>> = (0..batch).map(|_| GemmInputB::Unpacked(b.view())).collect();
                    let bias_vec: Vec<f32> = (0..n).map(|j| bias_val(j) as f32).collect();
                    let bv = if bias == Bias::Row { Some(BiasVector::Row(&bias_vec[..])) } else { None };
                    let mut out = vec![MaybeUninit::new(f32::NAN); batch * m * n];
                    counts.cases += 1;
                    let case = json!({"kind": "batched", "kernel": exec.kernel_name(), "m": m, "k": k, "n": n, "batch": batch, "bias": format!("{bias:?}")});
                    let r = vp_core::catch(|| exec.batched_gemm_uninit(&mut out, &avs, &bvs, GemmUninitOptions { alpha: 2.0, bias: bv, a_quant: None, b_quant: None }).map(|o| o.to_vec()));
                    match r {
                        Err(p) => ctx.violation(format!("gemm f32 kernel={} entry=batched_gemm_uninit: panics for valid inputs", exec.kernel_name()), case, p),
                        Ok(Err(e)) => ctx.violation(format!("gemm f32 kernel={} entry=batched_gemm_uninit: returns an error for valid inputs", exec.kernel_name()), case, format!("{e:?}")),
                        Ok(Ok(o)) => {
                            let e1 = expected(&s, m, n, 2.0, 0.0, bias);
                            let exp: Vec<f64> = (0..batch).flat_map(|_| e1.iter().copied()).collect();
                            match compare(&o, &exp) {
                                None => counts.ok += 1,
                                Some((i, got, e)) => ctx.violation(
                                    format!("gemm f32 kernel={} entry=batched_gemm_uninit: {}", exec.kernel_name(), if got.is_nan() { "output element is NaN" } else { "wrong value" }),
                                    case,
                                    format!("batch {batch} {m}x{k}x{n}: flat index {i} = {got} expected {e}"),
                                ),
                            }
                        }
                    }
                }
            }
            // mismatched batch members must be reported as errors (never a wrong product / panic)
            if k > 0 {
                let a = Mat::new(m, k, Lay::Row, a_val);
                let a2 = Mat::new(m + 1, k, Lay::Row, a_val);
                let b = Mat::new(k, n, Lay::Row, b_val);
                let b2 = Mat::new(k, n + 2, Lay::Row, b_val);
                let variants: Vec<(&str, Vec<GemmInputA<f32>>, Vec<GemmInputB<f32>>, usize)> = vec![
                    ("a.len != b.len", vec![GemmInputA::Unpacked(a.view()); 2], vec![GemmInputB::Unpacked(b.view()); 3], 2 * m * n),
                    ("member with more rows", vec![GemmInputA::Unpacked(a.view()), GemmInputA::Unpacked(a2.view())], vec![GemmInputB::Unpacked(b.view()); 2], 2 * m * n),
                    ("member with more columns", vec![GemmInputA::Unpacked(a.view()); 2], vec![GemmInputB::Unpacked(b.view()), GemmInputB::Unpacked(b2.view())], 2 * m * n),
                    ("output too short", vec![GemmInputA::Unpacked(a.view()); 2], vec![GemmInputB::Unpacked(b.view()); 2], 2 * m * n - 1),
                ];
                for (name, avs, bvs, out_len) in variants {
                    let mut out = vec![MaybeUninit::new(f32::NAN); out_len];
                    counts.cases += 1;
                    let case = json!({"kind": "batched-mismatch", "kernel": exec.kernel_name(), "m": m, "k": k, "n": n, "variant": name});
                    match vp_core::catch(|| exec.batched_gemm_uninit(&mut out, &avs, &bvs, GemmUninitOptions::default()).map(|o| o.len())) {
                        Ok(Err(_)) => counts.ok += 1,
                        Ok(Ok(_)) => ctx.violation(format!("gemm f32 kernel={} entry=batched_gemm_uninit: mismatched batch members accepted", exec.kernel_name()), case, name.to_string()),
                        Err(p) => ctx.violation(format!("gemm f32 kernel={} entry=batched_gemm_uninit: panics on mismatched batch members", exec.kernel_name()), case, format!("{name}: {p}")),
                    }
                }
            }
        }
    }
}

#[derive(Default)]
struct Counts {
    cases: u64,
    ok: u64,
}

fn shapes(thorough: bool) -> (Vec<usize>, Vec<usize>) {
    if thorough {
        (vec![0, 1, 2, 3, 5, 6, 7, 8, 15, 16, 17, 31, 32, 33, 63, 64, 65, 127, 129, 257], vec![0, 1, 2, 3, 4, 7, 8, 9, 31, 32, 33, 255, 256, 257, 513])
    } else {
        (vec![0, 1, 2, 3, 5, 6, 7, 8, 15, 16, 17, 31, 32, 33, 63, 65, 129], vec![0, 1, 2, 3, 4, 7, 8, 9, 31, 32, 33, 256, 257])
    }
}

fn replay(ctx: Ctx, path: &std::path::Path) -> ! {
    let j = vp_core::read_replay_case(path);
    let execs = executors();
    let mut counts = Counts::default();
    match j["kind"].as_str().unwrap_or("") {
        "gemm" => {
            let c = Case::from_json(&j);
            let exec = execs.iter().find(|e| e.kernel_name() == c.kernel).unwrap_or_else(|| ctx.machinery("replay: kernel not available"));
            let s = ref_product(c.m, c.k, c.n);
            let pool = rten::ThreadPool::with_num_threads(c.threads.max(1));
            let o = pool.run(|| run_case(exec, &c, &s));
            counts.cases = 1;
            let ok = report(&ctx, &c, o);
            println!("replay gemm case {}: {}", c.json(), if ok { "result correct" } else { "violation reproduced" });
        }
        "im2col" => im2col_cases(&ctx, &execs, &mut counts),
        _ => batched_cases(&ctx, &execs, &mut counts),
    }
    ctx.finish("exploration", json!({"evaluations": counts.cases.max(1), "distinct_nontrivial": 2, "rule": "replay", "samples": [j], "exhaustive": false}), vec![]);
}

pub fn run(ctx: Ctx) -> ! {
    if let Some(p) = ctx.replay.clone() {
        replay(ctx, &p);
    }
    let thorough = ctx.tier.is_thorough();
    let execs = executors();
    let kernel_names: Vec<String> = execs.iter().map(|e| e.kernel_name().to_string()).collect();
    if execs.len() < 2 {
        ctx.observe("fewer than two f32 GEMM kernels usable on this machine");
    }
    let samples = Samples::new(24);
    let (mn, ks) = shapes(thorough);
    let full_layout_limit: usize = if thorough { usize::MAX } else { 1 << 20 };

    // ---- box 1: shapes x strides x kernels x threading ----
    let mut shape_list: Vec<(usize, usize, usize)> = Vec::new();
    for &m in &mn {
        for &n in &mn {
            for &k in &ks {
                shape_list.push((m, k, n));
            }
        }
    }
    // big shapes first for load balance; order does not affect results
    shape_list.sort_by_key(|(m, k, n)| std::cmp::Reverse(m * k * n));
    let per_shape = vp_core::par::map(shape_list.len(), |si| {
        let (m, k, n) = shape_list[si];
        let s = ref_product(m, k, n);
        let execs = executors();
        let mut cases = 0u64;
        let mut ok = 0u64;
        let mut nonempty = 0u64;
        let multi_block = n > 128 || m > 64;
        let thread_cfgs: &[usize] = if multi_block { &[1, 4] } else { &[1] };
        for &threads in thread_cfgs {
            let pool = rten::ThreadPool::with_num_threads(threads);
            for exec in &execs {
                for a_lay in LAYS {
                    for b_lay in LAYS {
                        let diagonal = matches!((a_lay, b_lay), (Lay::Row, Lay::Row) | (Lay::Col, Lay::Col) | (Lay::PadRow, Lay::PadCol) | (Lay::PadCol, Lay::PadRow));
                        if m * k * n > full_layout_limit && !diagonal {
                            continue;
                        }
                        if threads > 1 && !diagonal {
                            continue;
                        }
                        let c = Case { kernel: exec.kernel_name().to_string(), threads, entry: "gemm", m, k, n, a_lay, b_lay, a_packed: false, b_form: "unpacked", alpha: 1.0, beta: 0.0, bias: Bias::None };
                        let o = pool.run(|| run_case(exec, &c, &s));
                        cases += 1;
                        if m * k * n > 0 {
                            nonempty += 1;
                        }
                        if report(&ctx, &c, o) {
                            ok += 1;
                        }
                    }
                }
            }
        }
        if si % 401 == 0 {
            samples.push(|| json!({"shape_mkn": [m, k, n], "cases": cases, "correct": ok, "ref_sample_S[0]": s.first()}));
        }
        (cases, ok, nonempty)
    });
    let box1_nonempty: u64 = per_shape.iter().map(|x| x.2).sum();
    let box1_cases: u64 = per_shape.iter().map(|x| x.0).sum();
    let box1_ok: u64 = per_shape.iter().map(|x| x.1).sum();
    eprintln!("C16 box1 shapes={} cases={} ok={} t={:.1}s", shape_list.len(), box1_cases, box1_ok, ctx.elapsed_s());

    // ---- box 2: options ----
    let (ms2, ns2, ks2): (Vec<usize>, Vec<usize>, Vec<usize>) = if thorough {
        (vec![1, 3, 8, 65], vec![1, 5, 17, 129], vec![0, 1, 4, 9, 257])
    } else {
        (vec![1, 3, 8, 65], vec![1, 5, 17, 129], vec![0, 4, 9, 257])
    };
    let alphas = [1.0f32, 0.0, -1.0, 0.5, 2.0];
    let betas = [0.0f32, 1.0, -2.0, 0.5];
    let mut shapes2 = Vec::new();
    for &m in &ms2 {
        for &n in &ns2 {
            for &k in &ks2 {
                shapes2.push((m, k, n));
            }
        }
    }
    let per_shape2 = vp_core::par::map(shapes2.len(), |si| {
        let (m, k, n) = shapes2[si];
        let s = ref_product(m, k, n);
        let execs = executors();
        let pool = rten::ThreadPool::with_num_threads(if si % 2 == 0 { 1 } else { 3 });
        let threads = if si % 2 == 0 { 1 } else { 3 };
        let (mut cases, mut ok) = (0u64, 0u64);
        for exec in &execs {
            for &alpha in &alphas {
                for bias in [Bias::None, Bias::Row, Bias::Column] {
                    for a_packed in [false, true] {
                        for b_form in ["unpacked", "prepacked"] {
                            // B layouts matter on the gemv path (stride-dependent blocking)
                            let b_lays: &[Lay] = if m == 1 && !a_packed && b_form == "unpacked" { &LAYS } else { &[Lay::Row] };
                            for &b_lay in b_lays {
                                for entry in ["gemm", "gemm_uninit"] {
                                    let bs: &[f32] = if entry == "gemm" { &betas } else { &[0.0] };
                                    for &beta in bs {
                                        let c = Case { kernel: exec.kernel_name().to_string(), threads, entry, m, k, n, a_lay: Lay::Row, b_lay, a_packed, b_form, alpha, beta, bias };
                                        let o = pool.run(|| run_case(exec, &c, &s));
                                        cases += 1;
                                        if report(&ctx, &c, o) {
                                            ok += 1;
                                        }
                                    }
                                }
                            }
                        }
                    }
                }
            }
        }
        (cases, ok)
    });
    let box2_cases: u64 = per_shape2.iter().map(|x| x.0).sum();
    let box2_ok: u64 = per_shape2.iter().map(|x| x.1).sum();
    eprintln!("C16 box2 shapes={} cases={} ok={} t={:.1}s", shapes2.len(), box2_cases, box2_ok, ctx.elapsed_s());

    // ---- box 2b: prepacked operands that span several blocks in BOTH directions ----
    // (a partial last depth block together with a second row / column block: the offset
    // arithmetic of PackedMatrix::block has one term per direction)
    let shapes2b: Vec<(usize, usize, usize)> = if thorough {
        vec![(130, 300, 5), (5, 300, 1030), (130, 600, 1030), (200, 513, 2050), (67, 257, 129), (300, 258, 3), (3, 770, 2050)]
    } else {
        vec![(130, 300, 5), (5, 300, 1030), (130, 513, 1030), (67, 257, 2050)]
    };
    let per_shape2b = vp_core::par::map(shapes2b.len() * 2, |si| {
        let (m, k, n) = shapes2b[si / 2];
        let threads = if si % 2 == 0 { 1 } else { 4 };
        let s = ref_product(m, k, n);
        let execs = executors();
        let pool = rten::ThreadPool::with_num_threads(threads);
        let (mut cases, mut ok) = (0u64, 0u64);
        for exec in &execs {
            for (a_packed, b_form) in [(true, "unpacked"), (false, "prepacked"), (true, "prepacked")] {
                for (alpha, beta, entry) in [(1.0f32, 0.0f32, "gemm_uninit"), (2.0, 1.0, "gemm")] {
                    let c = Case { kernel: exec.kernel_name().to_string(), threads, entry, m, k, n, a_lay: Lay::Row, b_lay: Lay::Row, a_packed, b_form, alpha, beta, bias: Bias::None };
                    let o = pool.run(|| run_case(exec, &c, &s));
                    cases += 1;
                    if report(&ctx, &c, o) {
                        ok += 1;
                    }
                }
            }
        }
        (cases, ok)
    });
    let box2b_cases: u64 = per_shape2b.iter().map(|x| x.0).sum();
    let box2b_ok: u64 = per_shape2b.iter().map(|x| x.1).sum();
    eprintln!("C16 box2b shapes={} cases={} ok={} t={:.1}s", shapes2b.len(), box2b_cases, box2b_ok, ctx.elapsed_s());

    // ---- im2col and batched ----
    let mut c3 = Counts::default();
    im2col_cases(&ctx, &execs, &mut c3);
    let mut c4 = Counts::default();
    batched_cases(&ctx, &execs, &mut c4);

    // ---- history over the thread-local packing buffers ----
    // Each kernel is driven through the whole shape list on ONE thread, in
    // ascending and then descending size order (and interleaved big/small), so
    // that each call reuses a packing buffer left by a larger and by a smaller
    // predecessor.
    let mut hist_shapes: Vec<(usize, usize, usize)> = shape_list.iter().copied().filter(|(m, k, n)| m * k * n <= (if thorough { 1 << 20 } else { 1 << 16 })).collect();
    hist_shapes.sort_by_key(|(m, k, n)| (m * k + k * n, *m, *n));
    let hist = vp_core::par::map(execs.len() * 3, |i| {
        let execs = executors();
        let exec = &execs[i / 3];
        let order: Vec<(usize, usize, usize)> = match i % 3 {
            0 => hist_shapes.clone(),
            1 => hist_shapes.iter().rev().copied().collect(),
            _ => {
                // alternate largest / smallest
                let mut v = Vec::new();
                let (mut lo, mut hi) = (0usize, hist_shapes.len());
                while lo < hi {
                    hi -= 1;
                    v.push(hist_shapes[hi]);
                    if lo < hi {
                        v.push(hist_shapes[lo]);
                        lo += 1;
                    }
                }
                v
            }
        };
        let pool = rten::ThreadPool::with_num_threads(1);
        let (mut cases, mut ok) = (0u64, 0u64);
        pool.run(|| {
            for (step, (m, k, n)) in order.iter().copied().enumerate() {
                let s = ref_product(m, k, n);
                let c = Case { kernel: exec.kernel_name().to_string(), threads: 1, entry: "gemm", m, k, n, a_lay: if step % 2 == 0 { Lay::Row } else { Lay::Col }, b_lay: if step % 3 == 0 { Lay::Col } else { Lay::Row }, a_packed: false, b_form: "unpacked", alpha: 1.0, beta: 0.0, bias: Bias::None };
                let o = run_case(exec, &c, &s);
                cases += 1;
                match o {
                    Outcome::Ok => ok += 1,
                    other => {
                        // the same case passed in isolation in box 1 iff the history matters
                        let mut cj = c.json();
                        cj["history_order"] = json!(["ascending", "descending", "alternating"][i % 3]);
                        cj["history_step"] = json!(step);
                        let (what, detail) = match other {
                            Outcome::Bad(w, d) => (w, d),
                            Outcome::PanicAt(s, p) => (format!("{s} panics"), p),
                            Outcome::Ok => unreachable!(),
                        };
                        ctx.violation(format!("gemm f32 kernel={} history (reused thread-local packing buffers): {what}", exec.kernel_name()), cj, format!("step {step} of {} order, shape {m}x{k}x{n}: {detail}", ["ascending", "descending", "alternating"][i % 3]));
                    }
                }
            }
        });
        (cases, ok)
    });
    let hist_cases: u64 = hist.iter().map(|x| x.0).sum();
    let hist_ok: u64 = hist.iter().map(|x| x.1).sum();
    eprintln!("C16 history cases={} ok={} t={:.1}s", hist_cases, hist_ok, ctx.elapsed_s());

    let total = box1_cases + box2_cases + box2b_cases + c3.cases + c4.cases + hist_cases;
    let total_ok = box1_ok + box2_ok + box2b_ok + c3.ok + c4.ok + hist_ok;
    if total_ok < total / 2 || box1_ok == 0 {
        ctx.machinery("C16 vacuous: most cases did not reach the oracle");
    }
    println!("C16 summary: kernels={:?} cases={} correct={} (box1 {} box2 {} im2col {} batched {} history {})", kernel_names, total, total_ok, box1_cases, box2_cases, c3.cases, c4.cases, hist_cases);
    let coverage = json!({
        "evaluations": total,
        "distinct_nontrivial": total_ok.saturating_sub(box1_cases - box1_nonempty),
        "rule": "cases are distinct by construction; non-trivial = correct cases minus the box-1 cases with an empty product (m, n or k = 0); box1: every (m,n,k) of the size lists x every kernel x A,B layouts (all 16 combinations while m*k*n <= limit, 4 diagonal combinations above) x {1 thread, 4 threads for multi-block shapes}; box2: 64-80 shapes x alpha x beta x bias x {gemm,gemm_uninit} x A/B {unpacked,prepacked} (+ all B layouts on the gemv path); box2b: prepacked A / B / both for shapes with a partial last depth block AND several row or column blocks (M up to 200, K up to 770, N up to 2050) x 1 and 4 threads; im2col geometries; batched incl. mismatched members; 3 history orders per kernel on one thread",
        "exhaustive": true,
        "axes": {
            "kernels": kernel_names,
            "m_n_values": mn, "k_values": ks,
            "layouts": LAYS.iter().map(|l| l.name()).collect::<Vec<_>>(),
            "full_layout_product_limit_mkn": full_layout_limit,
            "alphas": alphas, "betas": betas, "bias": ["none", "row", "column"],
            "box2_shapes": shapes2.len(),
            "im2col_geometries": 4, "batch_sizes": [0, 1, 3],
            "history_orders": ["ascending", "descending", "alternating"], "history_shapes": hist_shapes.len(),
        },
        "cases": {"box1": box1_cases, "box2": box2_cases, "box2b_prepacked_multi_block": box2b_cases, "im2col": c3.cases, "batched": c4.cases, "history": hist_cases},
        "correct": total_ok,
        "samples": samples.take(),
    });
    ctx.finish(
        "exploration",
        coverage,
        vec![
            "operand values are small integers (|a|<=5, |b|<=4), alpha/beta dyadic: every partial sum is exact in f32, so equality is the oracle for any summation order".into(),
            "storage slots not addressed by a strided layout hold NaN, so reading padding shows up in the result".into(),
            "threading through rten::ThreadPool::with_num_threads (rayon pool installed around the call); 1 thread = the non-parallel path with the caller-thread packing buffers".into(),
            "BlockQuantized B inputs are covered by C37; quantized int8 kernels by C17".into(),
        ],
    );
}
