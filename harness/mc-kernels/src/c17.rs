//! C17 — Quantized integer kernels are exact.
//!
//! Part 1: every int8 GEMM kernel usable on the machine, u8 x i8 -> i32 with
//! per-row / per-column zero points, against an exact i64 reference. Kernels
//! with `may_saturate()` are required to be exact only on the documented
//! reduced range (u8 in [0,127], i8 in [-64,63]); the full range is measured
//! for them and reported as an observation.
//! Part 2: MatMulInteger, ConvInteger and DynamicQuantizeLinear->DequantizeLinear
//! through single-operator ONNX models and `rten::Model::run`.

use std::mem::MaybeUninit;

use rten_gemm::{GemmExecutor, GemmInputA, GemmInputB, GemmOptions, GemmUninitOptions, QuantParams};
use rten_tensor::prelude::*;
use rten_tensor::{NdTensorView, Tensor};
use vp_core::{Ctx, Json, Samples, json};
use vp_onnx::{Graph, Node, Tensor as OTensor, ValueInfo, dtype};

use crate::util;

type Exec = GemmExecutor<u8, i8, i32>;

#[derive(Clone, Copy, Debug, PartialEq)]
enum Fill {
    Const(i32),
    Checker(i32, i32),
}

impl Fill {
    fn at(self, i: usize, j: usize) -> i32 {
        match self {
            Fill::Const(v) => v,
            Fill::Checker(a, b) => if (i + j) % 2 == 0 { a } else { b },
        }
    }
    fn json(self) -> Json {
        match self {
            Fill::Const(v) => json!({"const": v}),
            Fill::Checker(a, b) => json!({"checker": [a, b]}),
        }
    }
    fn from_json(j: &Json) -> Fill {
        if let Some(v) = j.get("const") {
            Fill::Const(v.as_i64().unwrap_or(0) as i32)
        } else {
            Fill::Checker(j["checker"][0].as_i64().unwrap_or(0) as i32, j["checker"][1].as_i64().unwrap_or(0) as i32)
        }
    }
}

#[derive(Clone, Copy, Debug, PartialEq)]
enum Zp {
    None,
    Uniform(i32),
    Alt(i32, i32),
    /// non-periodic: (i*37+11) mod 256 + offset (offset 0 for u8, -128 for i8)
    Ramp(i32),
}

impl Zp {
    fn vec(self, n: usize) -> Option<Vec<i32>> {
        match self {
            Zp::None => None,
            Zp::Uniform(v) => Some(vec![v; n]),
            Zp::Alt(a, b) => Some((0..n).map(|i| if i % 2 == 0 { a } else { b }).collect()),
            Zp::Ramp(off) => Some((0..n).map(|i| ((i * 37 + 11) % 256) as i32 + off).collect()),
        }
    }
    fn json(self) -> Json {
        match self {
            Zp::Ramp(off) => json!({"ramp": off}),
            Zp::None => json!("none"),
            Zp::Uniform(v) => json!({"uniform": v}),
            Zp::Alt(a, b) => json!({"alternating": [a, b]}),
        }
    }
    fn from_json(j: &Json) -> Zp {
        if let Some(v) = j.get("ramp") {
            return Zp::Ramp(v.as_i64().unwrap_or(0) as i32);
        }
        if let Some(v) = j.get("uniform") {
            Zp::Uniform(v.as_i64().unwrap_or(0) as i32)
        } else if let Some(v) = j.get("alternating") {
            Zp::Alt(v[0].as_i64().unwrap_or(0) as i32, v[1].as_i64().unwrap_or(0) as i32)
        } else {
            Zp::None
        }
    }
}

fn fills(alphabet: &[i32]) -> Vec<Fill> {
    let mut v: Vec<Fill> = alphabet.iter().map(|a| Fill::Const(*a)).collect();
    for a in alphabet {
        for b in alphabet {
            if a != b {
                v.push(Fill::Checker(*a, *b));
            }
        }
    }
    v
}

fn zps(alphabet: &[i32]) -> Vec<Zp> {
    let mut v = vec![Zp::None];
    v.extend(alphabet.iter().map(|a| Zp::Uniform(*a)));
    for a in alphabet {
        for b in alphabet {
            if a != b {
                v.push(Zp::Alt(*a, *b));
            }
        }
    }
    v
}

#[derive(Clone, Debug)]
struct Case {
    kernel: String,
    m: usize,
    k: usize,
    n: usize,
    a: Fill,
    b: Fill,
    az: Zp,
    bz: Zp,
    b_col_major: bool,
    a_packed: bool,
    b_packed: bool,
    entry: &'static str, // gemm | gemm_uninit | gemm_beta1
}

impl Case {
    fn json(&self) -> Json {
        json!({"kind": "int8-gemm", "kernel": self.kernel, "m": self.m, "k": self.k, "n": self.n, "a_fill": self.a.json(), "b_fill": self.b.json(),
            "a_zero_point": self.az.json(), "b_zero_point": self.bz.json(), "b_col_major": self.b_col_major, "a_prepacked": self.a_packed, "b_prepacked": self.b_packed, "entry": self.entry})
    }
    fn from_json(j: &Json) -> Case {
        Case {
            kernel: j["kernel"].as_str().unwrap_or("").into(),
            m: j["m"].as_u64().unwrap_or(1) as usize,
            k: j["k"].as_u64().unwrap_or(1) as usize,
            n: j["n"].as_u64().unwrap_or(1) as usize,
            a: Fill::from_json(&j["a_fill"]),
            b: Fill::from_json(&j["b_fill"]),
            az: Zp::from_json(&j["a_zero_point"]),
            bz: Zp::from_json(&j["b_zero_point"]),
            b_col_major: j["b_col_major"].as_bool().unwrap_or(false),
            a_packed: j["a_prepacked"].as_bool().unwrap_or(false),
            b_packed: j["b_prepacked"].as_bool().unwrap_or(false),
            entry: match j["entry"].as_str().unwrap_or("gemm") {
                "gemm_uninit" => "gemm_uninit",
                "gemm_beta1" => "gemm_beta1",
                _ => "gemm",
            },
        }
    }
    fn signature(&self, what: &str, range: &str) -> String {
        format!(
            "int8 gemm kernel={} path={} a={} b={} zero_points={}{} ({range}): {what}",
            self.kernel,
            if self.m == 1 && !self.a_packed && !self.b_packed { "gemv" } else { "tiled" },
            if self.a_packed { "prepacked" } else { "unpacked" },
            if self.b_packed { "prepacked" } else { "unpacked" },
            match (self.az, self.bz) {
                (Zp::None, Zp::None) => "none",
                (_, Zp::None) => "a-only",
                (Zp::None, _) => "b-only",
                _ => "both",
            },
            if self.entry == "gemm_beta1" { " beta=1" } else { "" },
        )
    }
}

const SENTINEL: i32 = 0x7bad_beef;

/// Exact product for the case with the given effective zero points.
fn reference_with(c: &Case, az_eff: &dyn Fn(usize) -> i64, bz_eff: &dyn Fn(usize) -> i64) -> Vec<i64> {
    let (m, k, n) = (c.m, c.k, c.n);
    let prev = |i: usize| -> i32 { ((i * 37) % 1001) as i32 - 500 };
    let mut r = vec![0i64; m * n];
    for i in 0..m {
        let azv = az_eff(i);
        for j in 0..n {
            let bzv = bz_eff(j);
            let mut acc: i64 = 0;
            for kk in 0..k {
                acc += (c.a.at(i, kk) as u8 as i64 - azv) * (c.b.at(kk, j) as i8 as i64 - bzv);
            }
            if c.entry == "gemm_beta1" {
                acc += prev(i * n + j) as i64;
            }
            r[i * n + j] = acc;
        }
    }
    r
}

/// Exact reference for the case; `ignore_packed_zp`: zero points of prepacked operands taken as 0.
fn reference(c: &Case, ignore_packed_zp: bool) -> Vec<i64> {
    let az = c.az.vec(c.m);
    let bz = c.bz.vec(c.n);
    let a_off = ignore_packed_zp && c.a_packed;
    let b_off = ignore_packed_zp && c.b_packed;
    reference_with(
        c,
        &|i| if a_off { 0 } else { az.as_ref().map(|z| z[i] as u8 as i64).unwrap_or(0) },
        &|j| if b_off { 0 } else { bz.as_ref().map(|z| z[j] as i8 as i64).unwrap_or(0) },
    )
}

static PANEL_CACHE: std::sync::Mutex<Vec<(String, usize, usize)>> = std::sync::Mutex::new(Vec::new());

/// Index used under the "first panel" hypothesis: inside each cache block of
/// `blk` rows/columns, every full panel of `pr` lanes takes the zero points of
/// the block's first panel; the tail panel is indexed correctly.
fn first_panel_index(i: usize, total: usize, blk: usize, pr: usize) -> usize {
    let bs = (i / blk) * blk;
    let len = (bs + blk).min(total) - bs;
    let local = i - bs;
    let full = (len / pr) * pr;
    if local < full { bs + local % pr } else { i }
}

/// Hypothesis: pack_a / pack_b index `zero_point` by lane only in full panels.
/// Zero points of prepacked operands are additionally taken as 0 (see the
/// other hypothesis). Returns the (MR, NR) that explains the output.
fn first_panel_hypothesis(c: &Case, out: &[i32]) -> Option<(usize, usize)> {
    let az = c.az.vec(c.m);
    let bz = c.bz.vec(c.n);
    let try_pair = |mr: usize, nr: usize| -> bool {
        let mc = 64usize.min(c.m).next_multiple_of(mr);
        let nc = 128usize.min(c.n).next_multiple_of(nr);
        let r = reference_with(
            c,
            &|i| if c.a_packed { 0 } else { az.as_ref().map(|z| z[first_panel_index(i, c.m, mc, mr)] as u8 as i64).unwrap_or(0) },
            &|j| if c.b_packed { 0 } else { bz.as_ref().map(|z| z[first_panel_index(j, c.n, nc, nr)] as i8 as i64).unwrap_or(0) },
        );
        (0..r.len()).all(|i| out[i] as i64 == r[i])
    };
    let cached = PANEL_CACHE.lock().unwrap().iter().find(|e| e.0 == c.kernel).map(|e| (e.1, e.2));
    if let Some((mr, nr)) = cached {
        return if try_pair(mr, nr) { Some((mr, nr)) } else { None };
    }
    // probe only on cases where both panel sizes matter
    for mr in [4usize, 6, 8, 12, 14, 16] {
        for nr in [4usize, 8, 16, 32, 64] {
            if try_pair(mr, nr) {
                if c.m > 2 * mr && c.n > 2 * nr && c.az != Zp::None && c.bz != Zp::None && !c.a_packed && !c.b_packed {
                    PANEL_CACHE.lock().unwrap().push((c.kernel.clone(), mr, nr));
                }
                return Some((mr, nr));
            }
        }
    }
    None
}

/// Returns None if correct, else (index, got, expected, explained_by_ignored_zero_point).
fn run_case(exec: &Exec, c: &Case) -> Result<Option<(usize, i32, i64, &'static str)>, String> {
    let (m, k, n) = (c.m, c.k, c.n);
    let a: Vec<u8> = (0..m * k).map(|x| c.a.at(x / k, x % k) as u8).collect();
    // B storage: row-major [k,n] or column-major
    let b: Vec<i8> = if c.b_col_major {
        (0..k * n).map(|x| c.b.at(x % k, x / k) as i8).collect()
    } else {
        (0..k * n).map(|x| c.b.at(x / n, x % n) as i8).collect()
    };
    let az: Option<Vec<u8>> = c.az.vec(m).map(|v| v.iter().map(|x| *x as u8).collect());
    let bz: Option<Vec<i8>> = c.bz.vec(n).map(|v| v.iter().map(|x| *x as i8).collect());
    let av = NdTensorView::from_data([m, k], &a[..]);
    let bv = if c.b_col_major {
        NdTensorView::from_slice_with_strides([k, n], &b[..], [1, k]).map_err(|e| format!("{e:?}"))?
    } else {
        NdTensorView::from_data([k, n], &b[..])
    };
    let pa = if c.a_packed { Some(exec.prepack_a(av.clone())) } else { None };
    let pb = if c.b_packed { Some(exec.prepack_b(bv.clone())) } else { None };
    let ain = match &pa {
        Some(p) => GemmInputA::Packed(p),
        None => GemmInputA::Unpacked(av.clone()),
    };
    let bin = match &pb {
        Some(p) => GemmInputB::Packed(p),
        None => GemmInputB::Unpacked(bv.clone()),
    };
    let aq = az.as_ref().map(|z| QuantParams { zero_point: &z[..] });
    let bq = bz.as_ref().map(|z| QuantParams { zero_point: &z[..] });
    let prev = |i: usize| -> i32 { ((i * 37) % 1001) as i32 - 500 };
    let mut out: Vec<i32> = if c.entry == "gemm_beta1" { (0..m * n).map(prev).collect() } else { vec![SENTINEL; m * n] };
    match c.entry {
        "gemm_uninit" => {
            let un: &mut [MaybeUninit<i32>] = unsafe { std::mem::transmute::<&mut [i32], &mut [MaybeUninit<i32>]>(&mut out[..]) };
            exec.gemm_uninit(un, ain, bin, GemmUninitOptions { alpha: 1.0, bias: None, a_quant: aq, b_quant: bq }).map(|_| ()).map_err(|e| format!("{e:?}"))?;
        }
        e => {
            exec.gemm(&mut out, ain, bin, GemmOptions { alpha: 1.0, beta: if e == "gemm_beta1" { 1 } else { 0 }, bias: None, a_quant: aq, b_quant: bq }).map_err(|e| format!("{e:?}"))?;
        }
    }
    let exp = reference(c, false);
    if let Some(i) = (0..m * n).find(|&i| out[i] as i64 != exp[i]) {
        let alt = reference(c, true);
        let explained = if (c.a_packed || c.b_packed) && (0..m * n).all(|i| out[i] as i64 == alt[i]) {
            "prepacked-zp-ignored"
        } else if first_panel_hypothesis(c, &out).is_some() {
            "first-panel-zp"
        } else {
            ""
        };
        return Ok(Some((i, out[i], exp[i], explained)));
    }
    Ok(None)
}

struct Tally {
    cases: u64,
    ok: u64,
    observed_saturation: u64,
}

fn check(ctx: &Ctx, exec: &Exec, c: &Case, verdict: bool, range: &str, t: &mut Tally) {
    t.cases += 1;
    match vp_core::catch(|| run_case(exec, c)) {
        Ok(Ok(None)) => t.ok += 1,
        Ok(Ok(Some((idx, got, exp, explained)))) => {
            if verdict {
                let what = if got == SENTINEL { "output element not written" } else { "wrong value" };
                let sig = match explained {
                    // one root cause for every kernel that keeps zero points in the packed panels
                    "prepacked-zp-ignored" => "int8 gemm: zero points passed to gemm() are ignored for operands packed with prepack_a / prepack_b (result equals the product with those zero points = 0)".to_string(),
                    "first-panel-zp" => "int8 gemm: per-row / per-column zero points of the second and later full MR/NR panels are taken from the first panel (result equals the product with zero_point[i mod MR], zero_point[j mod NR])".to_string(),
                    _ => c.signature(what, range),
                };
                ctx.violation(sig, c.json(), format!("kernel {}: out[{},{}] = {got}, exact value {exp}; case {}", c.kernel, idx / c.n, idx % c.n, c.json()));
            } else {
                t.observed_saturation += 1;
            }
        }
        Ok(Err(e)) => {
            if verdict {
                ctx.violation(c.signature("returns an error for valid inputs", range), c.json(), e);
            }
        }
        Err(p) => {
            if verdict {
                ctx.violation(c.signature("panics", range), c.json(), p);
            }
        }
    }
}

const U_FULL: [i32; 7] = [0, 1, 2, 127, 128, 254, 255];
const I_FULL: [i32; 7] = [-128, -127, -1, 0, 1, 126, 127];
const U_RED: [i32; 7] = [0, 1, 2, 63, 64, 126, 127];
const I_RED: [i32; 7] = [-64, -63, -1, 0, 1, 62, 63];
const AZ: [i32; 4] = [0, 1, 128, 255];
const MS_C: [usize; 7] = [1, 5, 17, 34, 65, 130, 257];
const BZ: [i32; 4] = [-128, -1, 0, 127];

fn kernel_part(ctx: &Ctx, thorough: bool, samples: &Samples) -> (u64, u64, Json) {
    let names: Vec<(String, bool)> = rten_gemm::verif::int8_executors().iter().map(|e| (e.kernel_name().to_string(), e.may_saturate())).collect();
    let ms: Vec<usize> = vec![1, 2, 5, 16, 17];
    let ks: Vec<usize> = vec![1, 2, 3, 4, 5, 8, 9, 31, 32, 33, 64];
    let ms_a: Vec<usize> = if thorough { vec![1, 2, 5, 17] } else { vec![1, 5, 17] };
    let ks_a: Vec<usize> = if thorough { vec![1, 2, 3, 4, 5, 8, 9, 33, 64] } else { vec![1, 3, 4, 5, 8, 33] };
    // work items: (kernel index, sub-box, index)
    let az_all = zps(&AZ);
    let bz_all = zps(&BZ);
    let mut items: Vec<(usize, u8, usize)> = Vec::new();
    for ki in 0..names.len() {
        for &m in &ms_a {
            items.push((ki, b'A', m));
        }
        for zi in 0..az_all.len() {
            items.push((ki, b'B', zi));
        }
        for mi in 0..MS_C.len() {
            items.push((ki, b'C', mi));
        }
    }
    // determine each kernel's panel sizes once (used only to classify failures)
    for exec in rten_gemm::verif::int8_executors() {
        let probe = Case { kernel: exec.kernel_name().to_string(), m: 130, k: 1, n: 130, a: Fill::Const(100), b: Fill::Const(-50), az: Zp::Ramp(0), bz: Zp::Ramp(-128), b_col_major: false, a_packed: false, b_packed: false, entry: "gemm" };
        match vp_core::catch(|| run_case(&exec, &probe)) {
            Ok(Ok(Some(_))) => {}
            _ => PANEL_CACHE.lock().unwrap().push((probe.kernel.clone(), 1, 1)),
        }
    }
    let results = vp_core::par::map(items.len(), |ii| {
        let (ki, sub, idx) = items[ii];
        let execs = rten_gemm::verif::int8_executors();
        let exec = &execs[ki];
        let sat = exec.may_saturate();
        let mut t = Tally { cases: 0, ok: 0, observed_saturation: 0 };
        let kernel = exec.kernel_name().to_string();
        // value ranges: verdict range and (for saturating kernels) the observed-only full range
        let ranges: Vec<(&[i32; 7], &[i32; 7], bool, &str)> = if sat {
            vec![(&U_RED, &I_RED, true, "reduced range u8<=127, i8 in [-64,63]"), (&U_FULL, &I_FULL, false, "full range")]
        } else {
            vec![(&U_FULL, &I_FULL, true, "full range")]
        };
        for (ua, ia, verdict, rname) in ranges {
            if sub == b'A' {
                // box A: every fill pair x 2 zero-point combinations x shapes (this item: one m)
                let m = idx;
                let (fa, fb) = (fills(&ua[..]), fills(&ia[..]));
                for &n in &ms_a {
                    for &k in &ks_a {
                        for a in &fa {
                            for b in &fb {
                                for (az, bz, entry, col) in [
                                    (Zp::None, Zp::None, "gemm", false),
                                    (Zp::Alt(1, 255), Zp::Alt(-128, 127), "gemm_uninit", false),
                                    (Zp::Uniform(128), Zp::Alt(127, -1), "gemm_beta1", true),
                                ] {
                                    let c = Case { kernel: kernel.clone(), m, k, n, a: *a, b: *b, az, bz, b_col_major: col, a_packed: false, b_packed: false, entry };
                                    check(ctx, exec, &c, verdict, rname, &mut t);
                                }
                            }
                        }
                    }
                }
            } else if sub == b'C' {
                // box C: larger M/N (several tiles and row blocks) x non-periodic zero points
                let m = MS_C[idx];
                let (lo_u, hi_u, lo_i, hi_i) = (ua[0], ua[6], ia[0], ia[6]);
                for &n in &MS_C {
                    for &k in &[1usize, 4, 33] {
                        for (az, bz) in [(Zp::Ramp(0), Zp::None), (Zp::None, Zp::Ramp(-128)), (Zp::Ramp(0), Zp::Ramp(-128))] {
                            for (a, b) in [(Fill::Const(hi_u), Fill::Const(lo_i)), (Fill::Checker(lo_u, hi_u), Fill::Checker(hi_i, lo_i)), (Fill::Const(ua[3]), Fill::Checker(-1, ia[5]))] {
                                for variant in 0..4 {
                                    let c = Case {
                                        kernel: kernel.clone(), m, k, n, a, b, az, bz,
                                        b_col_major: variant == 1,
                                        a_packed: variant == 2,
                                        b_packed: variant == 2 || variant == 3,
                                        entry: if variant % 2 == 0 { "gemm" } else { "gemm_uninit" },
                                    };
                                    check(ctx, exec, &c, verdict, rname, &mut t);
                                }
                            }
                        }
                    }
                }
                // deep products: more than one depth block (1024 for 8-bit operands), so every
                // output tile is visited again with beta = 1 and the zero-point correction of
                // each depth block must be added separately
                if m == 5 || m == 65 {
                    for &n in &[3usize, 130] {
                        for &k in &[1025usize, 2050] {
                            for (az, bz) in [(Zp::Ramp(0), Zp::None), (Zp::None, Zp::Ramp(-128)), (Zp::Ramp(0), Zp::Ramp(-128)), (Zp::None, Zp::None)] {
                                for (a, b) in [(Fill::Const(hi_u), Fill::Const(lo_i)), (Fill::Checker(lo_u, hi_u), Fill::Checker(hi_i, lo_i))] {
                                    for variant in 0..4 {
                                        let c = Case {
                                            kernel: kernel.clone(), m, k, n, a, b, az, bz,
                                            b_col_major: variant == 1,
                                            a_packed: variant == 2,
                                            b_packed: variant == 2 || variant == 3,
                                            entry: if variant % 2 == 0 { "gemm" } else { "gemm_uninit" },
                                        };
                                        check(ctx, exec, &c, verdict, rname, &mut t);
                                    }
                                }
                            }
                        }
                    }
                }
            } else {
                // box B: every zero-point combination x extreme fills x every shape x layouts/prepacking
                let az = az_all[idx];
                let (lo_u, hi_u, lo_i, hi_i) = (ua[0], ua[6], ia[0], ia[6]);
                let fill_pairs = [
                    (Fill::Const(hi_u), Fill::Const(lo_i)),
                    (Fill::Const(hi_u), Fill::Const(hi_i)),
                    (Fill::Checker(lo_u, hi_u), Fill::Checker(lo_i, hi_i)),
                    (Fill::Checker(ua[5], ua[1]), Fill::Checker(hi_i, ia[1])),
                    (Fill::Const(ua[4]), Fill::Const(-1)),
                    (Fill::Const(0), Fill::Checker(hi_i, lo_i)),
                ];
                for bz in &bz_all {
                    for &m in &ms {
                        for &n in &ms {
                            for &k in &ks {
                                for (fi, (a, b)) in fill_pairs.iter().enumerate() {
                                    // layout / prepacking variant chosen by a fixed rotation so that
                                    // every (shape, variant) pair occurs for some fill
                                    let variant = (fi + m + n + k) % 4;
                                    let c = Case {
                                        kernel: kernel.clone(), m, k, n, a: *a, b: *b, az, bz: *bz,
                                        b_col_major: variant == 1,
                                        a_packed: variant == 2,
                                        b_packed: variant == 2 || variant == 3,
                                        entry: if (m + k) % 2 == 0 { "gemm" } else { "gemm_uninit" },
                                    };
                                    check(ctx, exec, &c, verdict, rname, &mut t);
                                }
                            }
                        }
                    }
                }
            }
        }
        if ii % 37 == 0 {
            samples.push(|| json!({"kernel": kernel, "sub_box": (sub as char).to_string(), "index": idx, "cases": t.cases, "exact": t.ok, "full_range_mismatches_observed": t.observed_saturation}));
        }
        (t.cases, t.ok, t.observed_saturation, ki)
    });
    let cases: u64 = results.iter().map(|r| r.0).sum();
    let ok: u64 = results.iter().map(|r| r.1).sum();
    let mut sat_by_kernel = vec![0u64; names.len()];
    for r in &results {
        sat_by_kernel[r.3] += r.2;
    }
    for (i, (name, sat)) in names.iter().enumerate() {
        if *sat {
            ctx.observe_n(&format!("kernel {name} reports may_saturate(): full-range cases that differ from the exact product (allowed by the property; reduced range is the verdict)"), sat_by_kernel[i]);
        }
    }
    let info = json!({
        "kernels": names.iter().map(|(n, s)| json!({"name": n, "may_saturate": s})).collect::<Vec<_>>(),
        "box_A": {"fills_per_operand": fills(&U_FULL).len(), "zero_point_combos": 3, "m_n": ms_a, "k": ks_a},
        "box_B": {"a_zero_points": az_all.len(), "b_zero_points": bz_all.len(), "fill_pairs": 6, "m_n": ms, "k": ks, "variants": ["B row-major", "B column-major", "A+B prepacked", "B prepacked"]},
        "box_C": {"m_n": MS_C, "k": [1, 4, 33], "zero_points": "non-periodic ramp on a, on b, on both", "fill_pairs": 3, "variants": 4},
        "u8_alphabet": U_FULL, "i8_alphabet": I_FULL, "reduced_u8": U_RED, "reduced_i8": I_RED,
        "saturating_kernel_full_range_mismatches": sat_by_kernel,
    });
    (cases, ok, info)
}

// ---------------------------------------------------------------------------
// operators
// ---------------------------------------------------------------------------

fn load(g: &Graph) -> Result<rten::Model, String> {
    rten::Model::load(vp_onnx::model_bytes(g)).map_err(|e| format!("{e}"))
}

fn int_tensor(name: &str, dims: &[i64], vals: &[i32], unsigned: bool) -> OTensor {
    if unsigned {
        OTensor::u8(name, dims, &vals.iter().map(|v| *v as u8).collect::<Vec<_>>())
    } else {
        OTensor::i8(name, dims, &vals.iter().map(|v| *v as i8).collect::<Vec<_>>())
    }
}

fn value_of(vals: &[i32], shape: &[usize], unsigned: bool) -> rten::Value {
    if unsigned {
        Tensor::from_data(shape, vals.iter().map(|v| *v as u8).collect::<Vec<_>>()).into()
    } else {
        Tensor::from_data(shape, vals.iter().map(|v| *v as i8).collect::<Vec<_>>()).into()
    }
}

fn matmul_integer_part(ctx: &Ctx, thorough: bool, samples: &Samples) -> (u64, u64) {
    let (mut cases, mut ok) = (0u64, 0u64);
    let shapes: Vec<(usize, usize, usize)> = if thorough {
        vec![(1, 1, 1), (1, 4, 5), (2, 3, 2), (5, 9, 17), (16, 33, 16), (17, 64, 5), (1, 64, 33)]
    } else {
        vec![(1, 4, 5), (2, 3, 2), (5, 9, 17), (17, 33, 5)]
    };
    // (name, B is an initializer, load with prepack_weights, A batch dims, B batch dims)
    let forms: [(&str, bool, bool, usize, usize); 5] = [
        ("b=input", false, false, 0, 0),
        ("b=initializer", true, false, 0, 0),
        ("b=initializer+prepack_weights", true, true, 0, 0),
        ("a=[2,M,K] b=[K,N]", false, false, 2, 0),
        ("a=[M,K] b=[2,K,N]", false, false, 0, 2),
    ];
    for a_unsigned in [true, false] {
        for b_unsigned in [false, true] {
            let ua: &[i32] = if a_unsigned { &[0, 1, 128, 255] } else { &[-128, -1, 1, 127] };
            let ub: &[i32] = if b_unsigned { &[0, 2, 127, 255] } else { &[-128, -127, 1, 127] };
            for &(m, k, n) in &shapes {
                for zp_form in ["none", "scalar", "vector"] {
                    for (form, b_const, prepack, a_batch, b_batch) in forms {
                        for (fa, fb) in [
                            (Fill::Const(ua[3]), Fill::Const(ub[0])),
                            (Fill::Checker(ua[0], ua[3]), Fill::Checker(ub[0], ub[3])),
                            (Fill::Checker(ua[2], ua[1]), Fill::Checker(ub[3], ub[1])),
                            (Fill::Const(ua[3]), Fill::Const(ub[3])),
                        ] {
                            let a: Vec<i32> = (0..m * k).map(|x| fa.at(x / k, x % k)).collect();
                            let b: Vec<i32> = (0..k * n).map(|x| fb.at(x / n, x % n)).collect();
                            let az: Vec<i32> = match zp_form {
                                "none" => vec![],
                                "scalar" => vec![ua[2]],
                                _ => (0..m).map(|i| ua[i % 4]).collect(),
                            };
                            let bz: Vec<i32> = match zp_form {
                                "none" => vec![],
                                "scalar" => vec![ub[1]],
                                _ => (0..n).map(|i| ub[(i + 1) % 4]).collect(),
                            };
                            let (ta, tb) = (if a_unsigned { dtype::UINT8 } else { dtype::INT8 }, if b_unsigned { dtype::UINT8 } else { dtype::INT8 });
                            let a_dims: Vec<usize> = if a_batch > 0 { vec![a_batch, m, k] } else { vec![m, k] };
                            let b_dims: Vec<usize> = if b_batch > 0 { vec![b_batch, k, n] } else { vec![k, n] };
                            let a_full: Vec<i32> = (0..a_batch.max(1)).flat_map(|_| a.iter().copied()).collect();
                            let b_full: Vec<i32> = (0..b_batch.max(1)).flat_map(|_| b.iter().copied()).collect();
                            let to_i64 = |d: &[usize]| d.iter().map(|x| *x as i64).collect::<Vec<i64>>();
                            let mut g = Graph::new("mmi");
                            g.inputs.push(ValueInfo::fixed("A", ta, &to_i64(&a_dims)));
                            if b_const {
                                g.initializers.push(int_tensor("B", &to_i64(&b_dims), &b_full, b_unsigned));
                            } else {
                                g.inputs.push(ValueInfo::fixed("B", tb, &to_i64(&b_dims)));
                            }
                            let mut ins = vec!["A", "B"];
                            if zp_form != "none" {
                                let dims_a: Vec<i64> = if zp_form == "scalar" { vec![] } else { vec![m as i64] };
                                let dims_b: Vec<i64> = if zp_form == "scalar" { vec![] } else { vec![n as i64] };
                                g.initializers.push(int_tensor("az", &dims_a, &az, a_unsigned));
                                g.initializers.push(int_tensor("bz", &dims_b, &bz, b_unsigned));
                                ins.push("az");
                                ins.push("bz");
                            }
                            g.nodes.push(Node::new("MatMulInteger", &ins, &["Y"]));
                            let batch = a_batch.max(b_batch);
                            let out_dims: Vec<usize> = if batch > 0 { vec![batch, m, n] } else { vec![m, n] };
                            g.outputs.push(ValueInfo::fixed("Y", dtype::INT32, &to_i64(&out_dims)));
                            cases += 1;
                            let case = json!({"kind": "MatMulInteger", "a_unsigned": a_unsigned, "b_unsigned": b_unsigned, "m": m, "k": k, "n": n, "zero_points": zp_form, "form": form, "a_fill": fa.json(), "b_fill": fb.json()});
                            let sig_base = format!("MatMulInteger({}x{}) zero_points={zp_form} {form}", if a_unsigned { "u8" } else { "i8" }, if b_unsigned { "u8" } else { "i8" });
                            let bytes = vp_onnx::model_bytes(&g);
                            let loaded = if prepack {
                                let mut o = rten::ModelOptions::with_all_ops();
                                o.prepack_weights(true);
                                o.load(bytes).map_err(|e| format!("{e}"))
                            } else {
                                rten::Model::load(bytes).map_err(|e| format!("{e}"))
                            };
                            let model = match loaded {
                                Ok(mo) => mo,
                                Err(e) => {
                                    ctx.violation(format!("{sig_base}: model does not load"), case, e);
                                    continue;
                                }
                            };
                            let mut inputs = vec![(model.node_id("A").unwrap(), value_of(&a_full, &a_dims, a_unsigned).into())];
                            if !b_const {
                                inputs.push((model.node_id("B").unwrap(), value_of(&b_full, &b_dims, b_unsigned).into()));
                            }
                            let out_id = model.node_id("Y").unwrap();
                            let r = vp_core::catch(|| model.run(inputs, &[out_id], None));
                            let y: Tensor<i32> = match r {
                                Ok(Ok(mut v)) => match v.remove(0).into_tensor::<i32>() {
                                    Some(t) => t,
                                    None => {
                                        ctx.violation(format!("{sig_base}: output is not an i32 tensor"), case, "");
                                        continue;
                                    }
                                },
                                Ok(Err(e)) => {
                                    ctx.violation(format!("{sig_base}: run fails for valid inputs"), case, format!("{e}"));
                                    continue;
                                }
                                Err(p) => {
                                    ctx.violation(format!("{sig_base}: panics"), case, p);
                                    continue;
                                }
                            };
                            let yd = y.to_vec();
                            let mut bad = None;
                            let mut why = "output shape";
                            if y.shape() != &out_dims[..] {
                                bad = Some(format!("output shape {:?} expected {:?}", y.shape(), out_dims));
                            } else {
                                'outer: for bi in 0..batch.max(1) {
                                    for i in 0..m {
                                        for j in 0..n {
                                            let azv = if az.is_empty() { 0 } else { az[i % az.len()] } as i64;
                                            let bzv = if bz.is_empty() { 0 } else { bz[j % bz.len()] } as i64;
                                            let mut acc = 0i64;
                                            for kk in 0..k {
                                                acc += (a[i * k + kk] as i64 - azv) * (b[kk * n + j] as i64 - bzv);
                                            }
                                            let got = yd[(bi * m + i) * n + j] as i64;
                                            if got != acc {
                                                // would ignoring a zero point (as the packed-operand path does) explain it?
                                                let a_shift: i64 = if a_unsigned { 0 } else { 128 };
                                                let b_shift: i64 = if b_unsigned { -128 } else { 0 };
                                                let mut acc_a0 = 0i64;
                                                let mut acc_b0 = 0i64;
                                                for kk in 0..k {
                                                    acc_a0 += (a[i * k + kk] as i64 + a_shift) * (b[kk * n + j] as i64 - bzv);
                                                    acc_b0 += (a[i * k + kk] as i64 - azv) * (b[kk * n + j] as i64 + b_shift);
                                                }
                                                why = if got == acc_a0 { "zero point of the (internally prepacked) A operand ignored" } else if got == acc_b0 { "zero point of the prepacked B operand ignored" } else if zp_form == "vector" { "per-row zero points misapplied beyond the first panel" } else { "unexplained" };
                                                bad = Some(format!("Y[{bi},{i},{j}] = {got} exact {acc}"));
                                                break 'outer;
                                            }
                                        }
                                    }
                                }
                            }
                            match bad {
                                None => ok += 1,
                                Some(d) => ctx.violation(format!("MatMulInteger {form}: wrong value ({why})"), case, format!("{sig_base}: {d}")),
                            }
                        }
                    }
                }
            }
        }
    }
    samples.push(|| json!({"operator": "MatMulInteger", "cases": cases, "exact": ok}));
    (cases, ok)
}

fn conv_integer_part(ctx: &Ctx, thorough: bool, samples: &Samples) -> (u64, u64) {
    let (mut cases, mut ok) = (0u64, 0u64);
    let mut loaded = 0u64;
    // (C, H, W, M, kh, kw, pad, stride)
    let geoms: Vec<(usize, usize, usize, usize, usize, usize, usize, usize)> = if thorough {
        vec![(1, 3, 3, 1, 1, 1, 0, 1), (2, 5, 5, 3, 3, 3, 1, 1), (2, 5, 5, 3, 3, 3, 0, 1), (3, 7, 6, 4, 2, 3, 0, 2), (4, 8, 8, 17, 3, 3, 1, 1), (4, 6, 6, 2, 3, 3, 1, 2), (5, 6, 9, 2, 1, 1, 0, 1), (4, 9, 9, 5, 3, 3, 2, 1), (8, 4, 4, 3, 2, 2, 1, 1)]
    } else {
        vec![(1, 3, 3, 1, 1, 1, 0, 1), (2, 5, 5, 3, 3, 3, 1, 1), (2, 5, 5, 3, 3, 3, 0, 1), (3, 7, 6, 4, 2, 3, 0, 2), (4, 8, 8, 17, 3, 3, 1, 1), (4, 6, 6, 2, 3, 3, 1, 2)]
    };
    for w_unsigned in [false, true] {
        for &(c, h, w, m, kh, kw, pad, stride) in &geoms {
            for zp_form in ["none", "scalar", "scalar-x3", "per-channel", "per-channel-x255"] {
                for fill in 0..3 {
                    let xv: [i32; 4] = [0, 1, 128, 255];
                    let wv: [i32; 4] = if w_unsigned { [0, 2, 127, 255] } else { [-128, -127, 1, 127] };
                    let x: Vec<i32> = (0..c * h * w).map(|i| match fill { 0 => 255, 1 => xv[(i * 7 + i / w) % 4], _ => if (i + i / w) % 2 == 0 { 255 } else { 0 } }).collect();
                    let wt: Vec<i32> = (0..m * c * kh * kw).map(|i| match fill { 0 => wv[0], 1 => wv[(i * 5 + 1) % 4], _ => if i % 2 == 0 { wv[3] } else { wv[0] } }).collect();
                    let xz: i32 = match zp_form {
                        "none" => 0,
                        "scalar-x3" => 3,
                        "per-channel-x255" => 255,
                        _ => 128,
                    };
                    let wz: Vec<i32> = match zp_form {
                        "none" => vec![0],
                        "scalar" | "scalar-x3" => vec![wv[2]],
                        _ => (0..m).map(|i| wv[(i + 1) % 4]).collect(),
                    };
                    let mut g = Graph::new("ci");
                    g.inputs.push(ValueInfo::fixed("X", dtype::UINT8, &[1, c as i64, h as i64, w as i64]));
                    g.initializers.push(int_tensor("W", &[m as i64, c as i64, kh as i64, kw as i64], &wt, w_unsigned));
                    let mut ins = vec!["X", "W"];
                    if zp_form != "none" {
                        g.initializers.push(int_tensor("xz", &[], &[xz], true));
                        let dims: Vec<i64> = if zp_form.starts_with("scalar") { vec![] } else { vec![m as i64] };
                        g.initializers.push(int_tensor("wz", &dims, &wz, w_unsigned));
                        ins.push("xz");
                        ins.push("wz");
                    }
                    let oh = (h + 2 * pad - kh) / stride + 1;
                    let ow = (w + 2 * pad - kw) / stride + 1;
                    g.nodes.push(
                        Node::new("ConvInteger", &ins, &["Y"])
                            .attr("pads", vp_onnx::Attr::Ints(vec![pad as i64; 4]))
                            .attr("strides", vp_onnx::Attr::Ints(vec![stride as i64; 2]))
                            .attr("kernel_shape", vp_onnx::Attr::Ints(vec![kh as i64, kw as i64])),
                    );
                    g.outputs.push(ValueInfo::fixed("Y", dtype::INT32, &[1, m as i64, oh as i64, ow as i64]));
                    cases += 1;
                    let case = json!({"kind": "ConvInteger", "w_unsigned": w_unsigned, "geometry": [c, h, w, m, kh, kw, pad, stride], "zero_points": zp_form, "fill": fill});
                    let sig_base = format!("ConvInteger(u8 x {}) zero_points={zp_form}", if w_unsigned { "u8" } else { "i8" });
                    let model = match load(&g) {
                        Ok(mo) => mo,
                        Err(e) => {
                            ctx.observe(&format!("{sig_base}: model does not load: {e}"));
                            continue;
                        }
                    };
                    loaded += 1;
                    let inputs = vec![(model.node_id("X").unwrap(), value_of(&x, &[1, c, h, w], true).into())];
                    let out_id = model.node_id("Y").unwrap();
                    let y: Tensor<i32> = match vp_core::catch(|| model.run(inputs, &[out_id], None)) {
                        Ok(Ok(mut v)) => match v.remove(0).into_tensor::<i32>() {
                            Some(t) => t,
                            None => {
                                ctx.violation(format!("{sig_base}: output is not an i32 tensor"), case, "");
                                continue;
                            }
                        },
                        Ok(Err(e)) => {
                            // an error is not a wrong result; record which forms are rejected
                            ctx.observe(&format!("{sig_base}: run returns an error: {e}"));
                            continue;
                        }
                        Err(p) => {
                            ctx.violation(format!("{sig_base}: panics"), case, p);
                            continue;
                        }
                    };
                    let yd = y.to_vec();
                    let mut bad = None;
                    let mut class = "wrong value";
                    // reference; `pad_raw`: raw input value assumed in the padding region (None = the zero point)
                    let conv_ref = |pad_raw: Option<i64>| -> Vec<i64> {
                        let mut r = vec![0i64; m * oh * ow];
                        for mi in 0..m {
                            let wzv = wz[mi % wz.len()] as i64;
                            for oy in 0..oh {
                                for ox in 0..ow {
                                    let mut acc = 0i64;
                                    for ci in 0..c {
                                        for ky in 0..kh {
                                            for kx in 0..kw {
                                                let iy = (oy * stride + ky) as i64 - pad as i64;
                                                let ix = (ox * stride + kx) as i64 - pad as i64;
                                                let raw = if iy < 0 || ix < 0 || iy >= h as i64 || ix >= w as i64 {
                                                    match pad_raw {
                                                        None => continue,
                                                        Some(p) => p,
                                                    }
                                                } else {
                                                    x[ci * h * w + iy as usize * w + ix as usize] as i64
                                                };
                                                let wvv = wt[((mi * c + ci) * kh + ky) * kw + kx] as i64 - wzv;
                                                acc += (raw - xz as i64) * wvv;
                                            }
                                        }
                                    }
                                    r[(mi * oh + oy) * ow + ox] = acc;
                                }
                            }
                        }
                        r
                    };
                    if y.shape() != [1, m, oh, ow] {
                        bad = Some(format!("output shape {:?} expected {:?}", y.shape(), [1, m, oh, ow]));
                    } else {
                        let exp = conv_ref(None);
                        if let Some(i) = (0..exp.len()).find(|&i| yd[i] as i64 != exp[i]) {
                            bad = Some(format!("Y[0,{},{},{}] = {} exact {} (pads {pad}, x_zero_point {xz})", i / (oh * ow), (i / ow) % oh, i % ow, yd[i], exp[i]));
                            if pad > 0 {
                                // hypothesis: the padding region holds the byte 0x00 of the internal i8 image (= raw u8 128) instead of the zero point
                                let alt = conv_ref(Some(128));
                                class = if (0..alt.len()).all(|i| yd[i] as i64 == alt[i]) {
                                    "wrong border values with pads > 0: padding contributes as if the padded input were 128 instead of x_zero_point"
                                } else {
                                    "wrong values with pads > 0 (not explained by the padding-value hypothesis)"
                                };
                            }
                        }
                    }
                    if std::env::var("C17_CONV_DEBUG").is_ok() && bad.is_some() {
                        eprintln!("case {case}: x[..8]={:?} w[..8]={:?} xz={xz} wz={wz:?}\n  got {:?}", &x[..8.min(x.len())], &wt[..8.min(wt.len())], &yd[..yd.len().min(30)]);
                    }
                    match bad {
                        None => ok += 1,
                        Some(d) => ctx.violation(format!("ConvInteger: {class}"), case, format!("{sig_base}: {d}")),
                    }
                }
            }
        }
    }
    if loaded == 0 {
        ctx.machinery("C17 vacuous: no ConvInteger model could be loaded");
    }
    samples.push(|| json!({"operator": "ConvInteger", "cases": cases, "models_loaded": loaded, "exact": ok}));
    (cases, ok)
}

const DQ_ALPHABET: [f32; 11] = [-100.0, -1.5, -1.0, -0.001, 0.0, 0.001, 0.5, 1.0, 2.5, 100.0, 255.0];

fn dynamic_quantize_part(ctx: &Ctx, thorough: bool, samples: &Samples) -> (u64, u64) {
    // DynamicQuantizeLinear(x) -> (y, scale, zp); DequantizeLinear(y, scale, zp) -> xr
    let mut g = Graph::new("dql");
    g.inputs.push(ValueInfo::new("X", dtype::FLOAT, &[vp_onnx::Dim::Sym("n".into())]));
    g.nodes.push(Node::new("DynamicQuantizeLinear", &["X"], &["Y", "S", "Z"]));
    g.nodes.push(Node::new("DequantizeLinear", &["Y", "S", "Z"], &["XR"]));
    for (n, t) in [("XR", dtype::FLOAT), ("S", dtype::FLOAT), ("Y", dtype::UINT8), ("Z", dtype::UINT8)] {
        g.outputs.push(ValueInfo::typed_no_shape(n, t));
    }
    let model = match load(&g) {
        Ok(m) => m,
        Err(e) => {
            ctx.violation("DynamicQuantizeLinear->DequantizeLinear: model does not load", json!({"kind": "dql"}), e);
            return (0, 0);
        }
    };
    let (mut cases, mut ok) = (0u64, 0u64);
    let lens: Vec<usize> = if thorough { vec![1, 2, 3, 4, 15, 16, 17, 63, 64, 65, 130, 257] } else { vec![1, 2, 3, 17, 64, 65, 130] };
    let isas = util::available_isas();
    let na = DQ_ALPHABET.len();
    for isa in &isas {
        util::force(isa);
        let verdict = isa.name != "generic";
        let mut generic_panics = 0u64;
        for t in 0..na * na * na {
            let tuple = [DQ_ALPHABET[t / (na * na)], DQ_ALPHABET[(t / na) % na], DQ_ALPHABET[t % na]];
            for &len in &lens {
                // canonical: skip duplicates of shorter periods for len < 3
                if len == 1 && t % (na * na) != 0 {
                    continue;
                }
                if len == 2 && t % na != 0 {
                    continue;
                }
                let x: Vec<f32> = (0..len).map(|i| tuple[i % 3]).collect();
                cases += 1;
                let case = json!({"kind": "dql", "isa": isa.name, "len": len, "tuple": tuple});
                let inputs = vec![(model.node_id("X").unwrap(), Tensor::from_data(&[len], x.clone()).into())];
                let outs = [model.node_id("XR").unwrap(), model.node_id("S").unwrap()];
                match vp_core::catch(|| model.run(inputs, &outs, None)) {
                    Ok(Ok(mut v)) => {
                        let s: Tensor<f32> = v.remove(1).into_tensor().unwrap();
                        let xr: Tensor<f32> = v.remove(0).into_tensor().unwrap();
                        let step = s.to_vec()[0];
                        let xr = xr.to_vec();
                        let worst = x.iter().zip(&xr).map(|(a, b)| (a - b).abs()).fold(0f32, f32::max);
                        // one quantization step, plus the float rounding of the step itself
                        let tol = step * (1.0 + 4.0 * f32::EPSILON);
                        if xr.len() == len && worst <= tol && step.is_finite() {
                            ok += 1;
                        } else if verdict {
                            let i = x.iter().zip(&xr).position(|(a, b)| !((a - b).abs() <= tol)).unwrap_or(0);
                            ctx.violation(
                                "DynamicQuantizeLinear->DequantizeLinear: round trip differs from the input by more than one quantization step",
                                case,
                                format!("isa {}: x[{i}] = {} -> {} with scale {step} (input {:?}...)", isa.name, x[i], xr.get(i).copied().unwrap_or(f32::NAN), &x[..len.min(6)]),
                            );
                        }
                    }
                    Ok(Err(e)) => {
                        if verdict {
                            ctx.violation("DynamicQuantizeLinear->DequantizeLinear: run fails for valid input", case, format!("{e}"));
                        }
                    }
                    Err(p) => {
                        if verdict {
                            ctx.violation("DynamicQuantizeLinear->DequantizeLinear: panics", case, p);
                        } else {
                            generic_panics += 1;
                        }
                    }
                }
            }
        }
        if generic_panics > 0 {
            ctx.observe_n("DynamicQuantizeLinear panics when dispatch is forced to the generic ISA (root cause: generic NarrowSaturate, reported under C18)", generic_panics);
        }
    }
    util::unforce();
    samples.push(|| json!({"operator": "DynamicQuantizeLinear->DequantizeLinear", "cases": cases, "within_one_step": ok, "alphabet": DQ_ALPHABET, "lengths": lens}));
    (cases, ok)
}

fn replay(ctx: Ctx, path: &std::path::Path) -> ! {
    let j = vp_core::read_replay_case(path);
    let samples = Samples::new(4);
    let mut n = 1u64;
    match j["kind"].as_str().unwrap_or("") {
        "int8-gemm" => {
            let c = Case::from_json(&j);
            let execs = rten_gemm::verif::int8_executors();
            let exec = execs.iter().find(|e| e.kernel_name() == c.kernel).unwrap_or_else(|| ctx.machinery("replay: kernel not available"));
            let mut t = Tally { cases: 0, ok: 0, observed_saturation: 0 };
            let reduced = (0..c.m.max(2)).all(|i| (0..c.k.max(2)).all(|k| (0..=127).contains(&c.a.at(i, k)))) && (0..c.k.max(2)).all(|k| (0..c.n.max(2)).all(|jn| (-64..=63).contains(&c.b.at(k, jn))));
            let range = if exec.may_saturate() { if reduced { "reduced range u8<=127, i8 in [-64,63]" } else { "full range" } } else { "full range" };
            check(&ctx, exec, &c, !exec.may_saturate() || reduced, range, &mut t);
            println!("replay int8 gemm {}: exact={}", c.json(), t.ok == 1);
        }
        "MatMulInteger" => n = matmul_integer_part(&ctx, true, &samples).0,
        "ConvInteger" => n = conv_integer_part(&ctx, true, &samples).0,
        _ => n = dynamic_quantize_part(&ctx, true, &samples).0,
    }
    ctx.finish("exploration", json!({"evaluations": n.max(1), "distinct_nontrivial": 2, "rule": "replay (operator cases re-run their whole small box)", "samples": [j], "exhaustive": false}), vec![]);
}

pub fn run(ctx: Ctx) -> ! {
    if let Some(p) = ctx.replay.clone() {
        replay(ctx, &p);
    }
    let thorough = ctx.tier.is_thorough();
    let samples = Samples::new(32);
    let (kc, kok, kinfo) = kernel_part(&ctx, thorough, &samples);
    eprintln!("C17 kernels cases={kc} exact={kok} t={:.1}s", ctx.elapsed_s());
    let (mc, mok) = matmul_integer_part(&ctx, thorough, &samples);
    let (cc, cok) = conv_integer_part(&ctx, thorough, &samples);
    eprintln!("C17 MatMulInteger cases={mc} exact={mok}; ConvInteger cases={cc} exact={cok} t={:.1}s", ctx.elapsed_s());
    let (dc, dok) = dynamic_quantize_part(&ctx, thorough, &samples);
    eprintln!("C17 DynamicQuantizeLinear cases={dc} ok={dok} t={:.1}s", ctx.elapsed_s());
    if kok == 0 || mok == 0 || dok == 0 {
        ctx.machinery("C17 vacuous: a sub-box never reached its oracle");
    }
    if cok == 0 {
        ctx.observe("ConvInteger: no case reached the oracle (all forms rejected?)");
    }
    println!("C17 summary: kernel_cases={kc} exact={kok} MatMulInteger={mc}/{mok} ConvInteger={cc}/{cok} DynamicQuantize={dc}/{dok}");
    let coverage = json!({
        "evaluations": kc + mc + cc + dc,
        "distinct_nontrivial": kok + mok + cok + dok,
        "rule": "box A: every constant / two-value checkerboard fill of A x of B over the 7-value alphabets x 3 zero-point+entry combos x shapes; box B: every a_zero_point x b_zero_point choice (none, uniform, alternating over 4 values each) x 6 extreme fill pairs x every (m,n,k) x {B row/col-major, prepacked}; operators: MatMulInteger 4 type combos x zero-point forms x B initializer/input; ConvInteger geometries; DynamicQuantizeLinear: every 3-periodic vector over an 11-value alphabet x lengths x ISA",
        "exhaustive": true,
        "kernel_part": kinfo,
        "operator_cases": {"MatMulInteger": mc, "ConvInteger": cc, "DynamicQuantizeLinear": dc},
        "samples": samples.take(),
    });
    ctx.finish(
        "exploration",
        coverage,
        vec![
            "kernels with may_saturate()==true are required to be exact only for u8 in [0,127] and i8 in [-64,63] (ReducedRangeRng); their full-range mismatches are counted as observations".into(),
            "operators run with the kernel GemmExecutor::default() picks on this machine (no hook selects the kernel inside operators)".into(),
            "DynamicQuantizeLinear tolerance: one quantization step (the returned scale) x (1+4 eps); the generic ISA is observation-only there because its failure is the C18 NarrowSaturate defect".into(),
            "alpha is 1 for integer kernels (the i32 path scales by float alpha; not part of the exactness claim)".into(),
        ],
    );
}
