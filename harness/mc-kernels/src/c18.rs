//! C18 — SIMD instruction sets agree and stay within slice bounds.
//!
//! Part A (c18_prims): every method of BitOps/NumOps/FloatOps/IntOps/
//! SignedIntOps/Extend/Interleave/Concat/ToFloat/NarrowSaturate/MaskOps for every
//! element type, on every ISA, against scalar definitions; results the
//! definitions leave open are compared across ISAs.
//! Part B (c18_tails): slice routines of rten-simd and every rten-vecmath
//! routine for every length 0..=k*width+1 on guard-page buffers, in worker
//! processes.
//! Part C: whole vecmath routines must give identical results on every ISA
//! where their arithmetic is exactly defined.

use std::collections::BTreeMap;
use std::mem::MaybeUninit;
use std::sync::Mutex;
use std::time::Duration;

use rten_simd::{SimdOp, SimdUnaryOp};
use vp_core::isolate::{Outcome, Worker};
use vp_core::{Ctx, Json, Samples, json};

use crate::c18_common::{Rec, f32_alphabet};
use crate::c18_prims::{PrimTask, Task};
use crate::c18_tails;
use crate::util::{self, IsaSel};

fn prim_tasks(thorough: bool) -> Vec<Task> {
    let mut t = vec![Task::Small, Task::Bytes];
    let partners = if thorough { 8192 } else { 256 };
    let step = if thorough { 256 } else { 2048 };
    let mut a = 0u32;
    while a < 65536 {
        t.push(Task::Words { a_lo: a, a_hi: a + step, partners });
        a += step;
    }
    // f32 unary ops + f32->f16 over a bit-pattern lattice
    let (stride, chunks) = if thorough { (32u32, 256u32) } else { (1024u32, 16u32) };
    let total = (1u64 << 32) / stride as u64;
    let per = (total / chunks as u64) as u32;
    for c in 0..chunks {
        t.push(Task::F32Unary { start: c.wrapping_mul(per).wrapping_mul(stride), count: per, stride });
    }
    t
}

fn run_prims(isa: &IsaSel, tasks: &[Task]) -> Rec {
    util::force(isa);
    let parts = vp_core::par::map(tasks.len(), |i| {
        let task = PrimTask { task: tasks[i], isa_name: isa.name, byte_width: isa.f32_lanes * 4 };
        match vp_core::catch(|| task.dispatch()) {
            Ok(r) => r,
            Err(p) => {
                let mut r = Rec::new(isa.name);
                r.panics.insert(format!("{:?}", tasks[i]), p);
                r
            }
        }
    });
    let mut total = Rec::new(isa.name);
    for p in parts {
        total.merge(p);
    }
    total
}

fn agreement_family(key: &str) -> String {
    // key looks like "f32::min(a, b)"
    let op = key.split('(').next().unwrap_or(key);
    if op.ends_with("::min") || op.ends_with("::max") || op.ends_with("::clamp") {
        "rten-simd f32::{min,max,clamp}: ISAs give different results when an operand is NaN or the operands are zeros of opposite sign".into()
    } else if op.contains("to_int_") {
        "rten-simd f32::to_int_{trunc,round}: ISAs give different results for NaN / out-of-i32-range lanes".into()
    } else {
        format!("rten-simd {op}: ISAs give different results where the scalar definition is open")
    }
}

// ---------------------------------------------------------------------------
// Part B driver
// ---------------------------------------------------------------------------

struct TailStats {
    cases: u64,
    lens_run: u64,
    faults: u64,
    restarts: u64,
}

fn tail_case_list(isas: &[IsaSel], thorough: bool) -> Vec<Json> {
    let mut cases = Vec::new();
    for isa in isas {
        for routine in c18_tails::routines() {
            let w = c18_tails::width_of(&routine, isa.f32_lanes);
            // 3*width+1 everywhere; routines with 2x/4x unrolled main loops get 9*width+1
            let unrolled = routine.contains("unroll") || routine.contains("vecmath::") || routine.contains("simd_apply");
            let k = if unrolled { 9 } else { 3 };
            let max_len = if thorough { 9 * w + 1 } else { k * w + 1 };
            for placement in ["end-guard", "start-guard"] {
                cases.push(json!({"kind": "tail", "isa": isa.name, "routine": routine, "placement": placement, "start_len": 0, "max_len": max_len}));
            }
        }
    }
    cases
}

fn tail_signature(routine: &str, what: &str) -> String {
    format!("{}: {what}", routine_label(routine))
}

fn routine_label(routine: &str) -> String {
    if routine.starts_with("vecmath::") { format!("rten-{routine}") } else { format!("rten-simd {routine}") }
}

fn run_tails(ctx: &Ctx, cases: &[Json], samples: &Samples) -> TailStats {
    let next = std::sync::atomic::AtomicUsize::new(0);
    let stats = Mutex::new(TailStats { cases: 0, lens_run: 0, faults: 0, restarts: 0 });
    let nworkers = vp_core::par::threads().min(16);
    std::thread::scope(|s| {
        for _ in 0..nworkers {
            s.spawn(|| {
                let mut w = Worker::new("c18-tails", Duration::from_secs(60), 0);
                loop {
                    let i = next.fetch_add(1, std::sync::atomic::Ordering::Relaxed);
                    if i >= cases.len() {
                        break;
                    }
                    let mut case = cases[i].clone();
                    let max_len = case["max_len"].as_u64().unwrap_or(0);
                    let routine = case["routine"].as_str().unwrap_or("").to_string();
                    let isa = case["isa"].as_str().unwrap_or("").to_string();
                    let placement = case["placement"].as_str().unwrap_or("").to_string();
                    let mut lens = 0u64;
                    let mut faults = 0u64;
                    loop {
                        let start = case["start_len"].as_u64().unwrap_or(0);
                        if start > max_len {
                            break;
                        }
                        match w.run(&case) {
                            Outcome::Answer(Json::String(line)) if line.starts_with("GUARD-PAGE-FAULT") => {
                                // the worker died in the guard page; the line names the length
                                let desc: Json = vp_core::serde_json::from_str(line.trim_start_matches("GUARD-PAGE-FAULT case=")).unwrap_or(Json::Null);
                                let len = desc["len"].as_u64().unwrap_or(start);
                                faults += 1;
                                let side = if placement == "end-guard" { "past the end" } else { "before the start" };
                                ctx.violation(
                                    tail_signature(&routine, &format!("accesses memory {side} of the given slice (guard page fault)")),
                                    json!({"kind": "tail", "isa": isa, "routine": routine, "placement": placement, "start_len": len, "max_len": len}),
                                    format!("isa {isa}: {routine} on a slice of length {len} placed with its {} at a PROT_NONE page faulted (SIGSEGV)", if placement == "end-guard" { "end" } else { "start" }),
                                );
                                lens += len.saturating_sub(start) + 1;
                                case["start_len"] = json!(len + 1);
                                // the worker has exited: start a fresh one
                                stats.lock().unwrap().restarts += 1;
                                w = Worker::new("c18-tails", Duration::from_secs(60), 0);
                            }
                            Outcome::Answer(ans) => {
                                lens += ans["done"].as_u64().unwrap_or(0);
                                for f in ans["failures"].as_array().cloned().unwrap_or_default() {
                                    let len = f["len"].as_u64().unwrap_or(0);
                                    let d = f["detail"].as_str().unwrap_or("");
                                    let what = if d.starts_with("CANARY") {
                                        "writes outside the given slice (canary bytes modified)"
                                    } else {
                                        "result for a slice length that is not a whole number of vectors differs from the element-wise definition"
                                    };
                                    let total = ans["n_fail"].as_u64().unwrap_or(1);
                                    ctx.violation(
                                        tail_signature(&routine, what),
                                        json!({"kind": "tail", "isa": isa, "routine": routine, "placement": placement, "start_len": len, "max_len": len}),
                                        format!("isa {isa}, {placement}: {d} ({total} failing length(s) in 0..={max_len})"),
                                    );
                                }
                                for f in ans["panics"].as_array().cloned().unwrap_or_default() {
                                    let len = f["len"].as_u64().unwrap_or(0);
                                    let total = ans["n_panic"].as_u64().unwrap_or(1);
                                    ctx.violation(
                                        tail_signature(&routine, "panics for a valid slice on one ISA"),
                                        json!({"kind": "tail", "isa": isa, "routine": routine, "placement": placement, "start_len": len, "max_len": len}),
                                        format!("isa {isa}, {placement}, len {len}: panic: {} ({total} panicking length(s) in 0..={max_len})", f["panic"].as_str().unwrap_or("")),
                                    );
                                }
                                if ans.get("error").is_some() {
                                    ctx.observe(&format!("tails worker error: {ans}"));
                                }
                                break;
                            }
                            Outcome::Died(st) => {
                                // died without the handler line (abort?): attribute to the case start
                                faults += 1;
                                ctx.violation(
                                    tail_signature(&routine, "worker process died (no guard-page report)"),
                                    case.clone(),
                                    format!("isa {isa}: worker exit status {st}"),
                                );
                                break;
                            }
                            Outcome::Timeout => {
                                ctx.observe(&format!("tails worker timeout on {routine} ({isa})"));
                                break;
                            }
                        }
                    }
                    if i % 97 == 0 {
                        samples.push(|| json!({"tail_case": cases[i], "lengths_run": lens, "guard_faults": faults}));
                    }
                    let mut g = stats.lock().unwrap();
                    g.cases += 1;
                    g.lens_run += lens;
                    g.faults += faults;
                }
                stats.lock().unwrap().restarts += w.restarts;
            });
        }
    });
    stats.into_inner().unwrap()
}

// ---------------------------------------------------------------------------
// Part C: whole routines across ISAs
// ---------------------------------------------------------------------------

/// Scalar definition of rten_vecmath::Quantize<u8> (doc comment of the struct):
/// y = saturate(round(x * inv_scale) + zero_point), round = nearest i32 with
/// ties to even, saturate = i32 -> u8 with saturation. None = not defined (NaN).
fn quantize_def(x: f32, inv_scale: f32, zp: u8) -> Option<u8> {
    let p = x * inv_scale;
    if p.is_nan() {
        return None;
    }
    let r = p.round_ties_even();
    let nearest_i32: i64 = if r >= 2147483648.0 { i32::MAX as i64 } else if r < -2147483648.0 { i32::MIN as i64 } else { r as i64 };
    Some((nearest_i32 + zp as i64).clamp(0, 255) as u8)
}

fn routine_outputs(isa: &IsaSel) -> BTreeMap<String, (Vec<f32>, Vec<u32>)> {
    use rten_vecmath as vm;
    util::force(isa);
    let mut out: BTreeMap<String, (Vec<f32>, Vec<u32>)> = BTreeMap::new();
    let mut xs: Vec<f32> = f32_alphabet();
    xs.extend((0..1500).map(|i| i as f32 * 0.013 - 9.75));
    // keep below the sin/cos whole-vector fallback threshold for those two ops
    let moderate: Vec<f32> = xs.iter().copied().filter(|x| !(x.abs() >= 40000.0)).collect();
    macro_rules! unary {
        ($name:expr, $op:expr, $input:expr) => {{
            let mut b: Vec<f32> = $input.clone();
            $op.map_mut(&mut b);
            out.insert($name.to_string(), ($input.clone(), b.iter().map(|v| v.to_bits()).collect()));
        }};
    }
    unary!("Exp", vm::Exp {}, xs);
    unary!("Sigmoid", vm::Sigmoid {}, xs);
    unary!("Tanh", vm::Tanh {}, xs);
    unary!("Erf", vm::Erf {}, xs);
    unary!("Sin", vm::Sin::new(), moderate);
    unary!("Cos", vm::Cos::new(), moderate);
    unary!("Gelu", vm::Gelu {}, xs);
    unary!("ApproxGelu", vm::ApproxGelu {}, xs);
    unary!("Silu", vm::Silu {}, xs);
    unary!("Swish", vm::Swish { alpha: 1.7 }, xs);
    unary!("Elu", vm::Elu { alpha: 0.5 }, xs);
    unary!("LeakyRelu", vm::LeakyRelu { alpha: 0.25 }, xs);
    out
}

fn part_c(ctx: &Ctx, isas: &[IsaSel], samples: &Samples) -> (u64, u64) {
    use rten_vecmath as vm;
    let mut evals = 0u64;
    let mut reached = 0u64;
    // unary routines: the x86 ISAs use the same IEEE/FMA lane arithmetic and must agree bit for bit
    let outs: Vec<(IsaSel, BTreeMap<String, (Vec<f32>, Vec<u32>)>)> = isas.iter().map(|i| (*i, routine_outputs(i))).collect();
    let x86: Vec<&(IsaSel, BTreeMap<String, (Vec<f32>, Vec<u32>)>)> = outs.iter().filter(|(i, _)| i.name != "generic").collect();
    let generic = outs.iter().find(|(i, _)| i.name == "generic");
    if x86.len() == 2 {
        for (name, (input, a)) in &x86[0].1 {
            let b = &x86[1].1[name].1;
            evals += a.len() as u64;
            reached += a.len() as u64;
            let diff: Vec<usize> = (0..a.len()).filter(|&i| a[i] != b[i] && !(f32::from_bits(a[i]).is_nan() && f32::from_bits(b[i]).is_nan())).collect();
            if let Some(&i) = diff.first() {
                for _ in 0..diff.len() {
                    ctx.violation(
                        format!("rten-vecmath::{name}: {} and {} give different results for the same input", x86[0].0.name, x86[1].0.name),
                        json!({"kind": "vecmath-agree", "routine": name, "input_bits": input[i].to_bits()}),
                        format!("{name}({:e}): {} = {:e} (0x{:08x}), {} = {:e} (0x{:08x}); {} differing inputs", input[i], x86[0].0.name, f32::from_bits(a[i]), a[i], x86[1].0.name, f32::from_bits(b[i]), b[i], diff.len()),
                    );
                }
            }
            if let Some((_, g)) = generic {
                // documented latitude of mul_add (one or two roundings): bits may differ; classes may not
                let gb = &g[name].1;
                let mut max_ulp = 0u32;
                for i in 0..a.len() {
                    let (x, y) = (f32::from_bits(a[i]), f32::from_bits(gb[i]));
                    if x.is_nan() != y.is_nan() || x.is_infinite() != y.is_infinite() {
                        ctx.violation(
                            format!("rten-vecmath::{name}: generic and x86 ISAs disagree on NaN/infinity of the result"),
                            json!({"kind": "vecmath-agree", "routine": name, "input_bits": input[i].to_bits()}),
                            format!("{name}({:e}): {} = {:e}, generic = {:e}", input[i], x86[0].0.name, x, y),
                        );
                    } else if x.is_finite() {
                        let d = (a[i] as i64 - gb[i] as i64).unsigned_abs() as u32;
                        if (x < 0.0) == (y < 0.0) {
                            max_ulp = max_ulp.max(d);
                        }
                    }
                }
                samples.push(|| json!({"routine": name, "generic_vs_x86_max_bit_distance": max_ulp}));
            }
        }
    }

    // routines with exactly defined arithmetic: all ISAs and the scalar definition must agree
    let q_inputs: Vec<f32> = {
        let mut v: Vec<f32> = (0..700).map(|i| i as f32 * 0.25 - 40.0).collect();
        v.extend([1e10f32, -1e10, 3e9, -3e9, 2147483648.0, 2147483520.0, -2147483648.0, -2147483904.0, f32::INFINITY, f32::NEG_INFINITY, f32::MAX, f32::MIN, 1e5, -1e5, 300.0, -300.0]);
        // spread the special values so that some fall in vector bodies and some in tails
        let n = v.len();
        let mut w = Vec::with_capacity(n * 2);
        for i in 0..n {
            w.push(v[i]);
            w.push(v[(i * 7 + 703) % n]);
        }
        w.push(f32::NAN);
        w
    };
    for (inv_scale, zp) in [(1.0f32, 0u8), (2.0, 3), (0.5, 128), (1.0, 255)] {
        let mut per_isa: Vec<(String, Vec<u8>)> = Vec::new();
        for isa in isas {
            util::force(isa);
            let mut dst = vec![MaybeUninit::<u8>::uninit(); q_inputs.len()];
            match vp_core::catch(|| vm::Quantize::new(&q_inputs, &mut dst, inv_scale, zp).dispatch().to_vec()) {
                Ok(o) => per_isa.push((isa.name.to_string(), o)),
                Err(p) => {
                    ctx.violation(
                        "rten-vecmath::Quantize<u8>: panics for a valid slice on one ISA",
                        json!({"kind": "quantize", "isa": isa.name, "inv_scale": inv_scale, "zero_point": zp}),
                        format!("isa {}: Quantize::new(len {}, inv_scale {inv_scale}, zp {zp}).dispatch() panicked: {p}", isa.name, q_inputs.len()),
                    );
                }
            }
        }
        for (isa, o) in &per_isa {
            evals += o.len() as u64;
            for i in 0..o.len() {
                let x = q_inputs[i];
                match quantize_def(x, inv_scale, zp) {
                    Some(e) => {
                        reached += 1;
                        if o[i] != e {
                            let class = if (x * inv_scale).abs() >= 2147483648.0 || (x * inv_scale).round_ties_even() as i64 + zp as i64 > i32::MAX as i64 {
                                "value whose scaled magnitude exceeds the i32 range (saturation expected)"
                            } else {
                                "in-range value"
                            };
                            ctx.violation(
                                format!("rten-vecmath::Quantize<u8>: result differs from saturate(round(x*inv_scale)+zero_point) for {class}"),
                                json!({"kind": "quantize", "isa": isa, "inv_scale": inv_scale, "zero_point": zp, "index": i, "input_bits": x.to_bits()}),
                                format!("isa {isa}: Quantize(x = {x:e} at index {i} of {}, inv_scale {inv_scale}, zero_point {zp}) = {}, definition gives {e}", o.len(), o[i]),
                            );
                        }
                    }
                    None => {
                        // NaN: not defined; all ISAs and positions must at least agree
                        if let Some((isa0, o0)) = per_isa.first() {
                            if o0[i] != o[i] {
                                ctx.violation(
                                    "rten-vecmath::Quantize<u8>: ISAs give different results for a NaN input",
                                    json!({"kind": "quantize", "isa": isa, "inv_scale": inv_scale, "zero_point": zp, "index": i, "input_bits": x.to_bits()}),
                                    format!("NaN at index {i}: {isa0} = {}, {isa} = {}", o0[i], o[i]),
                                );
                            }
                        }
                    }
                }
            }
        }
    }
    util::unforce();
    (evals, reached)
}

// ---------------------------------------------------------------------------

fn report_prims(ctx: &Ctx, recs: &[Rec]) {
    for r in recs {
        for (sig, (case, detail, n)) in &r.fails {
            let mut case = case.clone();
            case["signature"] = json!(sig);
            for _ in 0..(*n).min(10_000) {
                ctx.violation(sig.clone(), case.clone(), format!("{detail} [{n} failing lane(s)/check(s) on this ISA]"));
            }
        }
        for (task, p) in &r.panics {
            ctx.violation(
                format!("rten-simd: primitive check task panicked on one ISA ({task})"),
                json!({"kind": "primitive-task", "isa": r.isa, "task": task}),
                format!("isa {}: {p}", r.isa),
            );
        }
    }
    // cross-ISA agreement where the scalar definition is open
    let mut keys: BTreeMap<&String, Vec<(&str, &(u64, bool, String))>> = BTreeMap::new();
    for r in recs {
        for (k, v) in &r.agree {
            keys.entry(k).or_default().push((&r.isa, v));
        }
    }
    for (k, vals) in keys {
        if vals.len() < 2 {
            continue;
        }
        let first = vals[0].1;
        if let Some(other) = vals.iter().find(|(_, v)| !(v.0 == first.0 || (v.1 && first.1))) {
            let listing: Vec<String> = vals.iter().map(|(isa, v)| format!("{isa} = {}", v.2)).collect();
            // partition of the ISAs by result, so that a new split is a new signature
            let mut groups: Vec<(u64, bool, Vec<&str>)> = Vec::new();
            for (isa, v) in &vals {
                match groups.iter_mut().find(|g| g.0 == v.0 || (g.1 && v.1)) {
                    Some(g) => g.2.push(isa),
                    None => groups.push((v.0, v.1, vec![isa])),
                }
            }
            let mut parts: Vec<String> = groups.iter().map(|g| { let mut m = g.2.clone(); m.sort(); m.join("=") }).collect();
            parts.sort();
            let sig = format!("{} [{}]", agreement_family(k), parts.join(" vs "));
            ctx.violation(
                sig.clone(),
                json!({"kind": "agreement", "call": k, "signature": sig}),
                format!("{k}: {} (first disagreement with {})", listing.join(", "), other.0),
            );
        }
    }
}

fn replay(ctx: Ctx, path: &std::path::Path) -> ! {
    let case = vp_core::read_replay_case(path);
    let isas = util::available_isas();
    let samples = Samples::new(8);
    let kind = case["kind"].as_str().unwrap_or("").to_string();
    let mut evals = 1u64;
    match kind.as_str() {
        "tail" => {
            let st = run_tails(&ctx, &[case.clone()], &samples);
            evals = st.lens_run.max(1);
            println!("replay tail: lengths run {} guard faults {}", st.lens_run, st.faults);
        }
        "vecmath-agree" | "quantize" => {
            let (e, _) = part_c(&ctx, &isas, &samples);
            evals = e;
        }
        _ => {
            // primitive / agreement: re-run the small-alphabet task (and the byte/word sweeps) on every ISA
            let tasks = prim_tasks(false);
            let recs: Vec<Rec> = isas.iter().map(|i| run_prims(i, &tasks)).collect();
            evals = recs.iter().map(|r| r.lanes).sum();
            let want = case["signature"].as_str().unwrap_or("").to_string();
            // report only the replayed signature
            let filtered: Vec<Rec> = recs
                .into_iter()
                .map(|mut r| {
                    if kind != "agreement" {
                        r.fails.retain(|k, _| *k == want);
                        r.agree.clear();
                        r.panics.clear();
                    } else {
                        r.fails.clear();
                        let call = case["call"].as_str().unwrap_or("").to_string();
                        r.agree.retain(|k, _| *k == call);
                        r.panics.clear();
                    }
                    r
                })
                .collect();
            report_prims(&ctx, &filtered);
        }
    }
    util::unforce();
    ctx.finish("exploration", json!({"evaluations": evals, "distinct_nontrivial": 2, "rule": "replay of one recorded case", "samples": [case], "exhaustive": false}), vec![]);
}

pub fn run(ctx: Ctx) -> ! {
    if let Some(p) = ctx.replay.clone() {
        replay(ctx, &p);
    }
    let thorough = ctx.tier.is_thorough();
    let isas = util::available_isas();
    let samples = Samples::new(48);

    // Part A
    let tasks = prim_tasks(thorough);
    let mut recs = Vec::new();
    for isa in &isas {
        let r = run_prims(isa, &tasks);
        eprintln!("C18 prims isa={} lanes={} ops={} fails={} open={} t={:.1}s", isa.name, r.lanes, r.per_op.len(), r.fails.len(), r.agree.len(), ctx.elapsed_s());
        recs.push(r);
    }
    util::unforce();
    report_prims(&ctx, &recs);
    let prim_lanes: u64 = recs.iter().map(|r| r.lanes).sum();
    let ops_covered: Vec<String> = recs.first().map(|r| r.per_op.keys().cloned().collect()).unwrap_or_default();
    if ops_covered.len() < 150 {
        ctx.machinery(&format!("C18 vacuous: only {} (type, method) pairs were exercised", ops_covered.len()));
    }
    for r in &recs {
        samples.push(|| json!({"isa": r.isa, "lanes_compared": r.lanes, "vector_calls": r.calls, "open_results_recorded": r.agree.len(),
            "example_counts": r.per_op.iter().filter(|(k, _)| k.ends_with("::mul") || k.ends_with("::narrow_saturate") || k.ends_with("::load_pad")).collect::<BTreeMap<_, _>>()}));
    }

    // Part B: first prove that the observers work in this environment
    {
        let probe = Samples::new(1);
        let mut w = Worker::new("c18-tails", Duration::from_secs(30), 0);
        for placement in ["end-guard", "start-guard"] {
            let c = json!({"kind": "tail", "isa": isas[0].name, "routine": "selftest::stray_read", "placement": placement, "start_len": 5, "max_len": 5});
            match w.run(&c) {
                Outcome::Answer(Json::String(l)) if l.starts_with("GUARD-PAGE-FAULT") => {}
                other => ctx.machinery(&format!("guard-page self-test failed ({placement}): a stray read was not reported: {other:?}")),
            }
            w = Worker::new("c18-tails", Duration::from_secs(30), 0);
            let c = json!({"kind": "tail", "isa": isas[0].name, "routine": "selftest::stray_write", "placement": placement, "start_len": 5, "max_len": 5});
            match w.run(&c) {
                Outcome::Answer(a) if a["n_fail"].as_u64() == Some(1) => {}
                other => ctx.machinery(&format!("canary self-test failed ({placement}): a stray write was not reported: {other:?}")),
            }
        }
        drop(probe);
    }
    let cases = tail_case_list(&isas, thorough);
    let st = run_tails(&ctx, &cases, &samples);
    eprintln!("C18 tails cases={} lengths={} faults={} t={:.1}s", st.cases, st.lens_run, st.faults, ctx.elapsed_s());
    if st.lens_run < cases.len() as u64 {
        ctx.machinery("C18 vacuous: tails workers did not run");
    }

    // Part C
    let (c_evals, c_reached) = part_c(&ctx, &isas, &samples);
    eprintln!("C18 routines evals={} t={:.1}s", c_evals, ctx.elapsed_s());

    let coverage = json!({
        "evaluations": prim_lanes + st.lens_run + c_evals,
        "distinct_nontrivial": prim_lanes + st.lens_run + c_reached,
        "rule": "every (element type, method) of the rten-simd op traits x every ISA: 8-bit all 2^16 operand pairs; 16-bit all 2^16 values x P partners in both operand orders; 32-bit/f32 alphabet squared (ternaries: sub-alphabet cubed); f32 unary ops and f32->f16 over a bit-pattern lattice; all 2^16 f16/i16 values for widening/narrowing; every slice routine x every length 0..=k*width+1 x {end,start}-guard placement in worker processes",
        "exhaustive": true,
        "axes": {
            "isas": isas.iter().map(|i| i.name).collect::<Vec<_>>(),
            "type_method_pairs": ops_covered.len(),
            "partners_16bit": if thorough { 8192 } else { 256 },
            "f32_alphabet": f32_alphabet().len(),
            "i32_alphabet": crate::c18_common::i32_alphabet().len(),
            "f32_unary_lattice_stride": if thorough { 32 } else { 1024 },
            "tail_routines": c18_tails::routines().len(),
            "tail_cases(isa x routine x placement)": cases.len(),
            "tail_lengths_run": st.lens_run,
            "guard_page_faults": st.faults,
            "worker_restarts": st.restarts,
        },
        "design_box_note": "DESIGN asks for all 2^32 16-bit pairs in the thorough tier; that does not fit 15 min with a scalar oracle, so the last axis (partners) is shrunk to 8192 (quick: 256)",
        "primitive_lanes_compared": prim_lanes,
        "methods": ops_covered,
        "samples": samples.take(),
    });
    println!("C18 summary: primitive_lanes={} (type,method)={} tail_lengths={} guard_faults={} routine_evals={}", prim_lanes, ops_covered.len(), st.lens_run, st.faults, c_evals);
    ctx.finish(
        "exploration",
        coverage,
        vec![
            "f32 mul_add / mul_sub_from may be fused or unfused (documented: 'one or two roundings'); both accepted, no cross-ISA agreement demanded".into(),
            "results the method docs leave open (min/max with NaN or +-0, float->int out of range) are required only to be the same on every ISA".into(),
            "transcendental vecmath routines: avx2 and avx512 must agree bit for bit; generic may differ in low bits (unfused mul_add) - accuracy per ISA is C19".into(),
            "out-of-bounds detection: PROT_NONE page directly after (end-guard) or before (start-guard) the slice, canary bytes on the other side; reads on the canary side are not observable".into(),
            "Narrow (pub(crate)) is only reachable through i8/u8 mul and shifts, which are covered".into(),
        ],
    );
}

pub fn worker_entry() -> ! {
    c18_tails::worker_main()
}
