//! C18 shared pieces: lane trait, expectation type, recorder, value alphabets.

use std::collections::BTreeMap;

use rten_simd::f16;
use vp_core::{Json, json};

/// Element of a SIMD vector, viewed as raw bits for exact comparison.
pub trait Lane: Copy + std::fmt::Debug + 'static {
    const NAME: &'static str;
    fn bits(self) -> u64;
    /// a value that identifies lane/index `i` (distinct for i < 200)
    fn from_index(i: usize) -> Self;
    fn is_nan_lane(self) -> bool {
        false
    }
    fn show(self) -> String {
        format!("{:?}", self)
    }
}

macro_rules! lane_int {
    ($t:ty, $u:ty, $n:expr) => {
        impl Lane for $t {
            const NAME: &'static str = $n;
            fn bits(self) -> u64 {
                (self as $u) as u64
            }
            fn from_index(i: usize) -> Self {
                (i as $u) as $t
            }
        }
    };
}
lane_int!(i8, u8, "i8");
lane_int!(u8, u8, "u8");
lane_int!(i16, u16, "i16");
lane_int!(u16, u16, "u16");
lane_int!(i32, u32, "i32");
lane_int!(u32, u32, "u32");

impl Lane for f32 {
    const NAME: &'static str = "f32";
    fn bits(self) -> u64 {
        self.to_bits() as u64
    }
    fn from_index(i: usize) -> Self {
        i as f32 + 0.5
    }
    fn is_nan_lane(self) -> bool {
        self.is_nan()
    }
    fn show(self) -> String {
        format!("{:e}[0x{:08x}]", self, self.to_bits())
    }
}

impl Lane for f16 {
    const NAME: &'static str = "f16";
    fn bits(self) -> u64 {
        self.to_bits() as u64
    }
    fn from_index(i: usize) -> Self {
        f16::from_bits(0x3c00 + i as u16)
    }
    fn is_nan_lane(self) -> bool {
        (self.to_bits() & 0x7c00) == 0x7c00 && (self.to_bits() & 0x03ff) != 0
    }
    fn show(self) -> String {
        format!("f16[0x{:04x}]", self.to_bits())
    }
}

impl Lane for bool {
    const NAME: &'static str = "mask";
    fn bits(self) -> u64 {
        self as u64
    }
    fn from_index(i: usize) -> Self {
        i % 2 == 1
    }
}

/// What the scalar definition allows for one lane.
#[derive(Clone, Copy, Debug)]
pub enum Exp<T> {
    /// exactly this value (bitwise)
    Is(T),
    /// either of two values (documented latitude, e.g. fused or unfused multiply-add)
    Either(T, T),
    /// any NaN
    Nan,
    /// the definition does not pin the value: every ISA must give the same
    /// answer (recorded and compared across ISAs); optional candidates listed
    /// for the report
    Unspecified,
    /// one of two values, and all ISAs must agree on which
    AgreeOn(T, T),
}

impl<T: Lane> Exp<T> {
    pub fn admits(&self, got: T) -> bool {
        match self {
            Exp::Is(v) => same(*v, got),
            Exp::Either(a, b) | Exp::AgreeOn(a, b) => same(*a, got) || same(*b, got),
            Exp::Nan => got.is_nan_lane(),
            Exp::Unspecified => true,
        }
    }
    pub fn needs_agreement(&self) -> bool {
        matches!(self, Exp::Unspecified | Exp::AgreeOn(..))
    }
    pub fn show(&self) -> String {
        match self {
            Exp::Is(v) => v.show(),
            Exp::Either(a, b) => format!("{} or {}", a.show(), b.show()),
            Exp::AgreeOn(a, b) => format!("{} or {} (same on every ISA)", a.show(), b.show()),
            Exp::Nan => "NaN".into(),
            Exp::Unspecified => "unspecified (same on every ISA)".into(),
        }
    }
}

fn same<T: Lane>(a: T, b: T) -> bool {
    a.bits() == b.bits() || (a.is_nan_lane() && b.is_nan_lane())
}

/// IEEE result of an f32 computation: exact bits, or "any NaN".
pub fn ieee(v: f32) -> Exp<f32> {
    if v.is_nan() { Exp::Nan } else { Exp::Is(v) }
}

#[derive(Default)]
pub struct Rec {
    pub isa: String,
    /// lane comparisons performed
    pub lanes: u64,
    /// vector-level calls
    pub calls: u64,
    /// per-method lane counts
    pub per_op: BTreeMap<String, u64>,
    /// first failure per signature + count
    pub fails: BTreeMap<String, (Json, String, u64)>,
    /// results that must agree across ISAs: key -> (bits, is_nan)
    pub agree: BTreeMap<String, (u64, bool, String)>,
    pub panics: BTreeMap<String, String>,
    /// when true, results the definition leaves open are not recorded for
    /// cross-ISA comparison (used by the large lattice sweeps; the alphabet
    /// task records the same input classes)
    pub skip_open: bool,
}

impl Rec {
    pub fn new(isa: &str) -> Rec {
        Rec { isa: isa.to_string(), ..Default::default() }
    }

    pub fn count(&mut self, op: &str, lanes: u64) {
        self.lanes += lanes;
        self.calls += 1;
        *self.per_op.entry(op.to_string()).or_insert(0) += lanes;
    }

    pub fn fail(&mut self, sig: String, case: Json, detail: String) {
        match self.fails.get_mut(&sig) {
            Some(e) => e.2 += 1,
            None => {
                self.fails.insert(sig, (case, detail, 1));
            }
        }
    }

    /// Compare one lane with its expectation.
    pub fn lane<T: Lane, U: Lane>(&mut self, op: &str, ty: &str, class: &str, inputs: &[T], lane_idx: usize, got: U, exp: Exp<U>) {
        if !exp.admits(got) {
            let ins: Vec<String> = inputs.iter().map(|v| v.show()).collect();
            let sig = format!("rten-simd {ty}::{op}: result differs from scalar definition{class}");
            let case = json!({"kind": "primitive", "op": op, "type": ty, "isa": self.isa, "inputs": ins,
                "input_bits": inputs.iter().map(|v| v.bits()).collect::<Vec<_>>(), "lane": lane_idx});
            let detail = format!(
                "isa {}: {}<{}>({}) lane {} = {}, scalar definition gives {}",
                self.isa, op, ty, ins.join(", "), lane_idx, got.show(), exp.show()
            );
            self.fail(sig, case, detail);
        }
        if exp.needs_agreement() && !self.skip_open {
            let ins: Vec<String> = inputs.iter().map(|v| v.show()).collect();
            let key = format!("{ty}::{op}({})", ins.join(", "));
            self.agree.entry(key).or_insert((got.bits(), got.is_nan_lane(), got.show()));
        }
    }

    pub fn merge(&mut self, o: Rec) {
        self.lanes += o.lanes;
        self.calls += o.calls;
        for (k, v) in o.per_op {
            *self.per_op.entry(k).or_insert(0) += v;
        }
        for (k, v) in o.fails {
            match self.fails.get_mut(&k) {
                Some(e) => e.2 += v.2,
                None => {
                    self.fails.insert(k, v);
                }
            }
        }
        for (k, v) in o.agree {
            self.agree.entry(k).or_insert(v);
        }
        for (k, v) in o.panics {
            self.panics.entry(k).or_insert(v);
        }
    }
}

// ---------------------------------------------------------------------------
// alphabets
// ---------------------------------------------------------------------------

/// 96-value f32 alphabet: zeros, ones, powers of two +-1 ulp, MIN/MAX,
/// infinities, NaNs, subnormals, rounding halfway cases, int-conversion edges.
pub fn f32_alphabet() -> Vec<f32> {
    let mut v: Vec<f32> = vec![
        0.0, -0.0, 1.0, -1.0, 2.0, -2.0, 0.5, -0.5, 1.5, -1.5, 2.5, -2.5, 3.5, -3.5, 0.25, 0.75,
        3.0, -3.0, 7.0, 10.0, -10.0, 100.0, 127.0, 128.0, 255.0, 256.0, -128.0, -129.0,
        f32::MAX, f32::MIN, f32::MIN_POSITIVE, -f32::MIN_POSITIVE, f32::EPSILON,
        f32::INFINITY, f32::NEG_INFINITY,
        f32::from_bits(0x7fc0_0000), f32::from_bits(0xffc0_0000), f32::from_bits(0x7f80_0001), f32::from_bits(0x7fff_ffff),
        f32::from_bits(1), f32::from_bits(0x8000_0001), f32::from_bits(0x007f_ffff), f32::from_bits(0x807f_ffff),
        // halfway cases for rounding to integer
        4.5, 5.5, -4.5, -5.5, 0.49999997, -0.49999997, 0.50000006, 8388607.5, 8388608.0, -8388607.5, 16777216.0, 16777217.0,
        // i32 conversion edges
        2147483520.0, 2147483648.0, -2147483648.0, -2147483904.0, 4294967296.0, 1e10, -1e10, 65504.0, 65520.0, 65536.0, -65504.0,
        // f16 halfway / subnormal edges
        5.9604645e-8, 2.9802322e-8, 8.940697e-8, 6.1035156e-5, 6.097555e-5, 1.0004883, 1.0009766, 1.0014648, 2049.0, 2051.0,
        // values next to powers of two
        f32::from_bits(0x3f7f_ffff), f32::from_bits(0x3f80_0001), f32::from_bits(0x3fff_ffff), f32::from_bits(0x4000_0001),
        f32::from_bits(0x4b7f_ffff), f32::from_bits(0x4b00_0001), f32::from_bits(0x4aff_ffff),
        std::f32::consts::PI, -std::f32::consts::E, 1e-3, -1e-3, 1e20, -1e20, 1e-20, 3.4e38, 1e-40, -1e-40, 12582912.0, 0.1, -0.7,
    ];
    let mut seen = std::collections::BTreeSet::new();
    v.retain(|x| seen.insert(x.to_bits()));
    v
}

pub fn i32_alphabet() -> Vec<i32> {
    let mut v = vec![0i32, 1, -1, 2, -2, 3, 7, 8, -8, 15, 16, 127, 128, -128, -129, 255, 256, 32767, 32768, -32768, -32769, 65535, 65536,
        i32::MAX, i32::MIN, i32::MAX - 1, i32::MIN + 1, 0x5555_5555, 0x2aaa_aaaau32 as i32, 0xaaaa_aaaau32 as i32, 0x0f0f_0f0f, 0xf0f0_f0f0u32 as i32,
        16777215, 16777216, 16777217, 16777218, 16777219, -16777217, 33554433, 33554435, 2147483520, 2147483583, 2147483584, 2147483647 - 64, 1000, -1000, 46341, -46341, 65537];
    for p in [4, 9, 20, 24, 25, 30] {
        v.push(1 << p);
        v.push((1 << p) - 1);
        v.push((1 << p) + 1);
        v.push(-(1 << p));
    }
    v.sort();
    v.dedup();
    v
}

/// 64 "partner" values for the 16-bit sweeps (given as raw u16 patterns).
pub fn partners16(n: usize) -> Vec<u16> {
    let mut v: Vec<u16> = vec![0, 1, 2, 3, 7, 8, 15, 16, 127, 128, 129, 255, 256, 257, 0x7ffe, 0x7fff, 0x8000, 0x8001, 0xfffe, 0xffff,
        0x5555, 0xaaaa, 0x00ff, 0xff00, 0x0f0f, 0xf0f0, 0x1234, 0xfedc, 0x4000, 0xc000, 0x3fff, 0xbfff];
    // fill up with k * 0x9e37 mod 2^16 (odd multiplier: a permutation of all 16-bit values)
    let mut seen = vec![false; 65536];
    for x in &v {
        seen[*x as usize] = true;
    }
    let mut k: u32 = 1;
    while v.len() < n.min(65536) {
        let c = (k.wrapping_mul(0x9e37) & 0xffff) as u16;
        if !seen[c as usize] {
            seen[c as usize] = true;
            v.push(c);
        }
        k += 1;
    }
    v.truncate(n);
    v
}

/// Independent f32 -> f16 conversion (round to nearest, ties to even).
pub fn ref_f32_to_f16(x: f32) -> u16 {
    let bits = x.to_bits();
    let sign = ((bits >> 16) & 0x8000) as u16;
    if x.is_nan() {
        return sign | 0x7e00;
    }
    let a = x.abs() as f64;
    if a == 0.0 {
        return sign;
    }
    if x.is_infinite() {
        return sign | 0x7c00;
    }
    // value = m * 2^e with the f16 grid: subnormal step 2^-24, normal step 2^(E-10)
    let e = a.log2().floor() as i32;
    // guard against log2 rounding at powers of two
    let e = if (2f64).powi(e) > a { e - 1 } else if (2f64).powi(e + 1) <= a { e + 1 } else { e };
    let step_exp = if e < -14 { -24 } else { e - 10 };
    let q = a / (2f64).powi(step_exp); // exact: power-of-two scaling of an f32
    let fl = q.floor();
    let frac = q - fl;
    let mut n = fl as u64;
    if frac > 0.5 || (frac == 0.5 && n % 2 == 1) {
        n += 1;
    }
    // n counts steps; rebuild
    let val = n as f64 * (2f64).powi(step_exp);
    if val >= 65520.0 {
        return sign | 0x7c00;
    }
    if val == 0.0 {
        return sign;
    }
    // encode val (exactly representable in f16 now)
    let e2 = val.log2().floor() as i32;
    let e2 = if (2f64).powi(e2) > val { e2 - 1 } else if (2f64).powi(e2 + 1) <= val { e2 + 1 } else { e2 };
    if e2 < -14 {
        let m = (val / (2f64).powi(-24)) as u16;
        sign | m
    } else {
        let m = ((val / (2f64).powi(e2) - 1.0) * 1024.0) as u16;
        sign | (((e2 + 15) as u16) << 10) | m
    }
}

/// Independent f16 -> f32 conversion.
pub fn ref_f16_to_f32(h: u16) -> f32 {
    let sign = if h & 0x8000 != 0 { -1.0f64 } else { 1.0 };
    let e = ((h >> 10) & 0x1f) as i32;
    let m = (h & 0x3ff) as f64;
    let v = if e == 0 {
        m * (2f64).powi(-24)
    } else if e == 31 {
        if m == 0.0 { f64::INFINITY } else { f64::NAN }
    } else {
        (1.0 + m / 1024.0) * (2f64).powi(e - 15)
    };
    (sign * v) as f32
}
