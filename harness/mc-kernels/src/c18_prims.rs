//! C18 part A: every SIMD primitive x ISA against scalar definitions written
//! here (wrapping / saturating / IEEE semantics as documented in
//! rten-simd/src/ops.rs), plus recording of results the definitions leave open
//! so that they can be compared across ISAs.

use std::mem::MaybeUninit;

use rten_simd::ops::{
    BitOps, Concat, Extend, FloatOps, IntOps, Interleave, MaskOps, NarrowSaturate, NumOps, SignedIntOps, ToFloat,
};
use rten_simd::{Elem, Isa, Mask, Simd, SimdOp, f16};

use crate::c18_common::*;

const MAXL: usize = 64;

/// Apply `f` lane-wise over the flat arrays `xs`,`ys` (same length) and
/// compare every lane against `s`.
#[inline(always)]
fn bin<T: Lane + Elem, U: Lane, O: BitOps<T>, R: AsRef<[U]>>(
    rec: &mut Rec,
    ops: O,
    op: &str,
    class: &str,
    xs: &[T],
    ys: &[T],
    f: impl Fn(O::Simd, O::Simd) -> R,
    s: impl Fn(T, T) -> Exp<U>,
) {
    let len = ops.len();
    let n = xs.len();
    assert_eq!(n, ys.len());
    if n == 0 {
        return;
    }
    let mut bx = [xs[0]; MAXL];
    let mut by = [ys[0]; MAXL];
    let mut i = 0;
    while i < n {
        let m = (n - i).min(len);
        for l in 0..len {
            let j = if l < m { i + l } else { n - 1 };
            bx[l] = xs[j];
            by[l] = ys[j];
        }
        let r = f(ops.load(&bx[..len]), ops.load(&by[..len]));
        let r = r.as_ref();
        for l in 0..m {
            let e = s(bx[l], by[l]);
            if !e.admits(r[l]) || e.needs_agreement() {
                rec.lane(op, T::NAME, class, &[bx[l], by[l]], l, r[l], e);
            }
        }
        i += m;
    }
    rec.count(&format!("{}::{}", T::NAME, op), n as u64);
}

#[inline(always)]
fn un<T: Lane + Elem, U: Lane, O: BitOps<T>, R: AsRef<[U]>>(
    rec: &mut Rec,
    ops: O,
    op: &str,
    class: &str,
    xs: &[T],
    f: impl Fn(O::Simd) -> R,
    s: impl Fn(T) -> Exp<U>,
) {
    let len = ops.len();
    let n = xs.len();
    if n == 0 {
        return;
    }
    let mut bx = [xs[0]; MAXL];
    let mut i = 0;
    while i < n {
        let m = (n - i).min(len);
        for l in 0..len {
            bx[l] = xs[if l < m { i + l } else { n - 1 }];
        }
        let r = f(ops.load(&bx[..len]));
        let r = r.as_ref();
        for l in 0..m {
            let e = s(bx[l]);
            if !e.admits(r[l]) || e.needs_agreement() {
                rec.lane(op, T::NAME, class, &[bx[l]], l, r[l], e);
            }
        }
        i += m;
    }
    rec.count(&format!("{}::{}", T::NAME, op), n as u64);
}

#[inline(always)]
fn tern<T: Lane + Elem, U: Lane, O: BitOps<T>, R: AsRef<[U]>>(
    rec: &mut Rec,
    ops: O,
    op: &str,
    class: &str,
    xs: &[T],
    ys: &[T],
    zs: &[T],
    f: impl Fn(O::Simd, O::Simd, O::Simd) -> R,
    s: impl Fn(T, T, T) -> Exp<U>,
) {
    let len = ops.len();
    let n = xs.len();
    if n == 0 {
        return;
    }
    let mut bx = [xs[0]; MAXL];
    let mut by = [ys[0]; MAXL];
    let mut bz = [zs[0]; MAXL];
    let mut i = 0;
    while i < n {
        let m = (n - i).min(len);
        for l in 0..len {
            let j = if l < m { i + l } else { n - 1 };
            bx[l] = xs[j];
            by[l] = ys[j];
            bz[l] = zs[j];
        }
        let r = f(ops.load(&bx[..len]), ops.load(&by[..len]), ops.load(&bz[..len]));
        let r = r.as_ref();
        for l in 0..m {
            let e = s(bx[l], by[l], bz[l]);
            if !e.admits(r[l]) || e.needs_agreement() {
                rec.lane(op, T::NAME, class, &[bx[l], by[l], bz[l]], l, r[l], e);
            }
        }
        i += m;
    }
    rec.count(&format!("{}::{}", T::NAME, op), n as u64);
}

/// All ordered pairs of an alphabet as two flat arrays.
fn pairs<T: Copy>(a: &[T], b: &[T]) -> (Vec<T>, Vec<T>) {
    let mut xs = Vec::with_capacity(a.len() * b.len());
    let mut ys = Vec::with_capacity(a.len() * b.len());
    for x in a {
        for y in b {
            xs.push(*x);
            ys.push(*y);
        }
    }
    (xs, ys)
}

fn triples<T: Copy>(a: &[T], b: &[T], c: &[T]) -> (Vec<T>, Vec<T>, Vec<T>) {
    let (mut xs, mut ys, mut zs) = (Vec::new(), Vec::new(), Vec::new());
    for x in a {
        for y in b {
            for z in c {
                xs.push(*x);
                ys.push(*y);
                zs.push(*z);
            }
        }
    }
    (xs, ys, zs)
}

fn check(rec: &mut Rec, what: &str, ty: &str, ok: bool, detail: impl FnOnce() -> String) {
    rec.count(&format!("{ty}::{what}"), 1);
    if !ok {
        let sig = format!("rten-simd {ty}::{what}: result differs from scalar definition");
        let d = detail();
        let case = vp_core::json!({"kind": "structural", "op": what, "type": ty, "isa": rec.isa});
        let isa = rec.isa.clone();
        rec.fail(sig, case, format!("isa {isa}: {d}"));
    }
}

fn eq_bits<T: Lane>(a: &[T], b: &[T]) -> bool {
    a.len() == b.len() && a.iter().zip(b).all(|(x, y)| x.bits() == y.bits())
}

/// Load / store / mask / select / splat family, for any element type.
#[inline(always)]
fn bitops_common<T: Lane + Elem + Default + PartialEq, O: BitOps<T>>(rec: &mut Rec, ops: O, byte_width: usize, specials: &[T]) {
    let ty = T::NAME;
    let len = ops.len();
    check(rec, "len", ty, len * std::mem::size_of::<T>() == byte_width, || format!("len() = {len}, vector is {byte_width} bytes"));
    let src: Vec<T> = (0..4 * len + 3).map(|i| T::from_index(1 + i % 199)).collect();
    let other: Vec<T> = (0..len).map(|i| T::from_index(101 + i)).collect();
    let zero = T::default();

    // splat / zero
    for v in specials.iter().copied().chain([src[0], src[1]]) {
        let a = ops.splat(v).to_array();
        check(rec, "splat", ty, a.as_ref().len() == len && a.as_ref().iter().all(|x| x.bits() == v.bits()), || format!("splat({}) = {:?}", v.show(), a));
    }
    let z = ops.zero().to_array();
    check(rec, "zero", ty, z.as_ref().iter().all(|x| x.bits() == 0), || format!("zero() = {z:?}"));

    // load / load_many / load_ptr
    for off in 0..3 {
        let a = ops.load(&src[off..]).to_array();
        check(rec, "load", ty, eq_bits(a.as_ref(), &src[off..off + len]), || format!("load(offset {off}) = {a:?}"));
        let a = unsafe { ops.load_ptr(src[off..].as_ptr()) }.to_array();
        check(rec, "load_ptr", ty, eq_bits(a.as_ref(), &src[off..off + len]), || format!("load_ptr(offset {off}) = {a:?}"));
    }
    let m2 = ops.load_many::<2>(&src);
    check(rec, "load_many", ty, (0..2).all(|k| eq_bits(m2[k].to_array().as_ref(), &src[k * len..(k + 1) * len])), || "load_many::<2> mismatch".into());
    let m4 = ops.load_many::<4>(&src[1..]);
    check(rec, "load_many", ty, (0..4).all(|k| eq_bits(m4[k].to_array().as_ref(), &src[1 + k * len..1 + (k + 1) * len])), || "load_many::<4> mismatch".into());

    let x = ops.load(&src);
    let y = ops.load(&other);
    for n in 0..=len {
        // first_n_mask
        let mask = ops.first_n_mask(n);
        let ma = mask.to_array();
        check(rec, "first_n_mask", ty, ma.as_ref().len() == len && ma.as_ref().iter().enumerate().all(|(i, b)| *b == (i < n)), || format!("first_n_mask({n}) = {ma:?}"));
        // select
        let s = ops.select(x, y, mask).to_array();
        check(rec, "select", ty, (0..len).all(|i| s[i].bits() == if i < n { src[i].bits() } else { other[i].bits() }), || format!("select(x,y,first_n_mask({n})) = {s:?}"));
        // load_pad
        let (v, pm) = ops.load_pad(&src[..n]);
        let va = v.to_array();
        let pa = pm.to_array();
        check(rec, "load_pad", ty, (0..len).all(|i| va[i].bits() == if i < n { src[i].bits() } else { zero.bits() }) && (0..len).all(|i| pa[i] == (i < n)), || format!("load_pad(len {n}) = {va:?} mask {pa:?}"));
        // load_ptr_mask
        let v = unsafe { ops.load_ptr_mask(src.as_ptr(), mask) }.to_array();
        check(rec, "load_ptr_mask", ty, (0..len).all(|i| v[i].bits() == if i < n { src[i].bits() } else { zero.bits() }), || format!("load_ptr_mask(first {n}) = {v:?}"));
        // store_ptr_mask
        let mut dst: Vec<T> = (0..len + 2).map(|i| T::from_index(150 + i % 40)).collect();
        let before = dst.clone();
        unsafe { ops.store_ptr_mask(x, dst.as_mut_ptr(), mask) };
        check(rec, "store_ptr_mask", ty, (0..len + 2).all(|i| dst[i].bits() == if i < n { src[i].bits() } else { before[i].bits() }), || format!("store_ptr_mask(first {n}) wrote {dst:?}"));
    }
    // load_pad with a slice longer than a vector
    let (v, pm) = ops.load_pad(&src[..len + 2]);
    check(rec, "load_pad", ty, eq_bits(v.to_array().as_ref(), &src[..len]) && pm.to_array().as_ref().iter().all(|b| *b), || "load_pad(long slice)".into());
    // a mask with holes (built through select of comparisons is type specific; here: and of two prefix masks is a prefix)

    // store / store_ptr / store_uninit / store_many_uninit
    let mut dst: Vec<T> = (0..2 * len + 3).map(|i| T::from_index(150 + i % 40)).collect();
    let before = dst.clone();
    ops.store(x, &mut dst[1..]);
    check(rec, "store", ty, eq_bits(&dst[1..1 + len], &src[..len]) && dst[0].bits() == before[0].bits() && eq_bits(&dst[1 + len..], &before[1 + len..]), || format!("store wrote {dst:?}"));
    let mut dst = before.clone();
    unsafe { ops.store_ptr(x, dst[2..].as_mut_ptr()) };
    check(rec, "store_ptr", ty, eq_bits(&dst[2..2 + len], &src[..len]) && eq_bits(&dst[..2], &before[..2]) && eq_bits(&dst[2 + len..], &before[2 + len..]), || format!("store_ptr wrote {dst:?}"));
    let mut un: Vec<MaybeUninit<T>> = before.iter().map(|v| MaybeUninit::new(*v)).collect();
    let init = ops.store_uninit(x, &mut un[..]);
    let init_ok = init.len() == len && eq_bits(init, &src[..len]);
    let rest: Vec<T> = un.iter().map(|v| unsafe { v.assume_init() }).collect();
    check(rec, "store_uninit", ty, init_ok && eq_bits(&rest[len..], &before[len..]), || format!("store_uninit wrote {rest:?}"));
    let mut un: Vec<MaybeUninit<T>> = before.iter().map(|v| MaybeUninit::new(*v)).collect();
    let init = ops.store_many_uninit([y, x], &mut un[..]);
    let init_ok = init.len() == 2 * len && eq_bits(&init[..len], &other) && eq_bits(&init[len..], &src[..len]);
    let rest: Vec<T> = un.iter().map(|v| unsafe { v.assume_init() }).collect();
    check(rec, "store_many_uninit", ty, init_ok && eq_bits(&rest[2 * len..], &before[2 * len..]), || format!("store_many_uninit wrote {rest:?}"));

    // broadcast_lane
    let b0 = ops.broadcast_lane::<0>(x).to_array();
    let b1 = ops.broadcast_lane::<1>(x).to_array();
    let b3 = ops.broadcast_lane::<3>(x).to_array();
    check(rec, "broadcast_lane", ty, b0.as_ref().iter().all(|v| v.bits() == src[0].bits()) && b1.as_ref().iter().all(|v| v.bits() == src[1].bits()) && b3.as_ref().iter().all(|v| v.bits() == src[3].bits()), || format!("broadcast_lane 0/1/3 = {b0:?} {b1:?} {b3:?}"));
    // fold_splat (pick the last lane)
    let fs = ops.fold_splat(x, zero, |_acc, v| v).to_array();
    check(rec, "fold_splat", ty, fs.as_ref().iter().all(|v| v.bits() == src[len - 1].bits()), || format!("fold_splat(last) = {fs:?}"));
    // to_bits / from_bits round trip, same_cast
    let rt = ops.from_bits(x.to_bits()).to_array();
    check(rec, "from_bits(to_bits)", ty, eq_bits(rt.as_ref(), &src[..len]), || format!("{rt:?}"));
    let sc: O::Simd = x.same_cast();
    check(rec, "same_cast", ty, eq_bits(sc.to_array().as_ref(), &src[..len]), || "same_cast".into());
    ops.prefetch(src.as_ptr());
    let mut tmp = before.clone();
    ops.prefetch_write(tmp.as_mut_ptr());
    check(rec, "prefetch", ty, eq_bits(&tmp, &before), || "prefetch modified memory".into());
}

/// Bitwise and/or/xor/not for any type, on raw patterns.
#[inline(always)]
fn bitwise<T: Lane + Elem, O: BitOps<T>>(rec: &mut Rec, ops: O, xs: &[T], ys: &[T], from_bits: impl Fn(u64) -> T + Copy) {
    bin(rec, ops, "and", "", xs, ys, |a, b| ops.and(a, b).to_array(), |a, b| Exp::Is(from_bits(a.bits() & b.bits())));
    bin(rec, ops, "or", "", xs, ys, |a, b| ops.or(a, b).to_array(), |a, b| Exp::Is(from_bits(a.bits() | b.bits())));
    bin(rec, ops, "xor", "", xs, ys, |a, b| ops.xor(a, b).to_array(), |a, b| Exp::Is(from_bits(a.bits() ^ b.bits())));
    un(rec, ops, "not", "", xs, |a| ops.not(a).to_array(), |a| Exp::Is(from_bits(!a.bits())));
}

macro_rules! shifts {
    ($rec:expr, $ops:expr, $xs:expr, $t:ty, $u:ty, [$($s:literal),*]) => {
        $(
            un($rec, $ops, concat!("shift_left<", stringify!($s), ">"), "", $xs, |a| $ops.shift_left::<$s>(a).to_array(), |a: $t| Exp::Is((((a as $u) << $s) as $t)));
            un($rec, $ops, concat!("shift_right<", stringify!($s), ">"), "", $xs, |a| $ops.shift_right::<$s>(a).to_array(), |a: $t| Exp::Is(a >> $s));
        )*
    };
}

/// NumOps + IntOps for one integer type over the arrays `xs`,`ys`.
macro_rules! int_numops {
    ($rec:expr, $ops:expr, $t:ty, $u:ty, $xs:expr, $ys:expr) => {{
        let (rec, ops, xs, ys): (&mut Rec, _, &[$t], &[$t]) = ($rec, $ops, $xs, $ys);
        bin(rec, ops, "add", "", xs, ys, |a, b| ops.add(a, b).to_array(), |a: $t, b: $t| Exp::Is(a.wrapping_add(b)));
        bin(rec, ops, "sub", "", xs, ys, |a, b| ops.sub(a, b).to_array(), |a: $t, b: $t| Exp::Is(a.wrapping_sub(b)));
        bin(rec, ops, "mul", "", xs, ys, |a, b| ops.mul(a, b).to_array(), |a: $t, b: $t| Exp::Is(a.wrapping_mul(b)));
        bin(rec, ops, "eq", "", xs, ys, |a, b| ops.eq(a, b).to_array(), |a: $t, b: $t| Exp::Is(a == b));
        bin(rec, ops, "ge", "", xs, ys, |a, b| ops.ge(a, b).to_array(), |a: $t, b: $t| Exp::Is(a >= b));
        bin(rec, ops, "gt", "", xs, ys, |a, b| ops.gt(a, b).to_array(), |a: $t, b: $t| Exp::Is(a > b));
        bin(rec, ops, "le", "", xs, ys, |a, b| ops.le(a, b).to_array(), |a: $t, b: $t| Exp::Is(a <= b));
        bin(rec, ops, "lt", "", xs, ys, |a, b| ops.lt(a, b).to_array(), |a: $t, b: $t| Exp::Is(a < b));
        bin(rec, ops, "min", "", xs, ys, |a, b| ops.min(a, b).to_array(), |a: $t, b: $t| Exp::Is(a.min(b)));
        bin(rec, ops, "max", "", xs, ys, |a, b| ops.max(a, b).to_array(), |a: $t, b: $t| Exp::Is(a.max(b)));
        bitwise(rec, ops, xs, ys, |b| b as $u as $t);
    }};
}

macro_rules! int_ternary {
    ($rec:expr, $ops:expr, $t:ty, $xs:expr, $ys:expr, $zs:expr) => {{
        let (rec, ops): (&mut Rec, _) = ($rec, $ops);
        tern(rec, ops, "mul_add", "", $xs, $ys, $zs, |a, b, c| ops.mul_add(a, b, c).to_array(), |a: $t, b: $t, c: $t| Exp::Is(a.wrapping_mul(b).wrapping_add(c)));
        tern(rec, ops, "clamp", "", $xs, $ys, $zs, |a, b, c| ops.clamp(a, b, c).to_array(), |a: $t, lo: $t, hi: $t| Exp::Is(a.max(lo).min(hi)));
    }};
}

macro_rules! int_sum_poly {
    ($rec:expr, $ops:expr, $t:ty, $xs:expr) => {{
        let (rec, ops, xs): (&mut Rec, _, &[$t]) = ($rec, $ops, $xs);
        let len = ops.len();
        // horizontal wrapping sum over windows of the value list
        let mut i = 0;
        while i + len <= xs.len() {
            let w = &xs[i..i + len];
            let got = ops.sum(ops.load(w));
            let exp = w.iter().fold(0 as $t, |s, v| s.wrapping_add(*v));
            check(rec, "sum", <$t as Lane>::NAME, got == exp, || format!("sum({w:?}) = {got}, wrapping sum = {exp}"));
            i += (len / 2).max(1);
        }
        let one = ops.one().to_array();
        check(rec, "one", <$t as Lane>::NAME, one.as_ref().iter().all(|v| *v == 1 as $t), || format!("{one:?}"));
        // poly_eval: x*c0 + x^2*c1 + x^3*c2 (wrapping)
        let cs = [2 as $t, 3 as $t, 5 as $t];
        un(rec, ops, "poly_eval", "", xs, |a| ops.poly_eval(a, &[ops.splat(cs[0]), ops.splat(cs[1]), ops.splat(cs[2])]).to_array(),
            |x: $t| Exp::Is(x.wrapping_mul(cs[0]).wrapping_add(x.wrapping_mul(x).wrapping_mul(cs[1])).wrapping_add(x.wrapping_mul(x).wrapping_mul(x).wrapping_mul(cs[2]))));
    }};
}

macro_rules! signed_ops {
    ($rec:expr, $ops:expr, $t:ty, $xs:expr) => {{
        let (rec, ops): (&mut Rec, _) = ($rec, $ops);
        un(rec, ops, "abs", "", $xs, |a| SignedIntOps::abs(ops, a).to_array(), |a: $t| Exp::Is(a.wrapping_abs()));
        un(rec, ops, "neg", "", $xs, |a| SignedIntOps::neg(ops, a).to_array(), |a: $t| Exp::Is(a.wrapping_neg()));
    }};
}

/// interleave_low/high for one type.
#[inline(always)]
fn interleave_check<T: Lane + Elem, O: Interleave<T>>(rec: &mut Rec, ops: O) {
    let len = ops.len();
    let a: Vec<T> = (0..len).map(|i| T::from_index(i)).collect();
    let b: Vec<T> = (0..len).map(|i| T::from_index(len + i)).collect();
    let lo = ops.interleave_low(ops.load(&a), ops.load(&b)).to_array();
    let hi = ops.interleave_high(ops.load(&a), ops.load(&b)).to_array();
    let elo: Vec<T> = (0..len).map(|i| if i % 2 == 0 { a[i / 2] } else { b[i / 2] }).collect();
    let ehi: Vec<T> = (0..len).map(|i| if i % 2 == 0 { a[len / 2 + i / 2] } else { b[len / 2 + i / 2] }).collect();
    check(rec, "interleave_low", T::NAME, eq_bits(lo.as_ref(), &elo), || format!("got {lo:?} expected {elo:?}"));
    check(rec, "interleave_high", T::NAME, eq_bits(hi.as_ref(), &ehi), || format!("got {hi:?} expected {ehi:?}"));
}

/// extend_low/high: every value of `xs` placed in every lane position class.
#[inline(always)]
fn extend_check<T: Lane + Elem, U: Lane, O: Extend<T>>(rec: &mut Rec, ops: O, xs: &[T], conv: impl Fn(T) -> Exp<U>)
where
    O::Output: Simd<Elem = U>,
{
    let len = ops.len();
    let half = len / 2;
    let mut buf = [xs[0]; MAXL];
    let mut i = 0;
    while i < xs.len() {
        for l in 0..len {
            buf[l] = xs[(i + l).min(xs.len() - 1)];
        }
        let v = ops.load(&buf[..len]);
        let lo = ops.extend_low(v).to_array();
        let hi = ops.extend_high(v).to_array();
        for l in 0..half {
            let e = conv(buf[l]);
            if !e.admits(lo.as_ref()[l]) {
                rec.lane("extend_low", T::NAME, "", &[buf[l]], l, lo.as_ref()[l], e);
            }
            let e = conv(buf[half + l]);
            if !e.admits(hi.as_ref()[l]) {
                rec.lane("extend_high", T::NAME, "", &[buf[half + l]], l, hi.as_ref()[l], e);
            }
        }
        i += len;
    }
    rec.count(&format!("{}::extend_low/high", T::NAME), xs.len() as u64);
}

/// narrow_saturate: pairs of vectors filled from `xs`.
#[inline(always)]
fn narrow_check<T: Lane + Elem, U: Lane + Elem, O: NarrowSaturate<T, U>>(rec: &mut Rec, ops: O, xs: &[T], class: &str, conv: impl Fn(T) -> Exp<U>) {
    let len = ops.len();
    let mut lo = [xs[0]; MAXL];
    let mut hi = [xs[0]; MAXL];
    let mut i = 0;
    while i < xs.len() {
        for l in 0..len {
            lo[l] = xs[(i + l).min(xs.len() - 1)];
            hi[l] = xs[(i + len + l).min(xs.len() - 1)];
        }
        let r = vp_core::catch(|| ops.narrow_saturate(ops.load(&lo[..len]), ops.load(&hi[..len])).to_array());
        match r {
            Ok(r) => {
                let r = r.as_ref();
                if r.len() != 2 * len {
                    check(rec, "narrow_saturate", T::NAME, false, || format!("output has {} lanes, expected {}", r.len(), 2 * len));
                }
                for l in 0..(2 * len).min(r.len()) {
                    let src = if l < len { lo[l] } else { hi[l - len] };
                    let e = conv(src);
                    if !e.admits(r[l]) {
                        rec.lane("narrow_saturate", T::NAME, class, &[src], l, r[l], e);
                    }
                }
            }
            Err(p) => {
                // i32->i16 and i16->u8 come from one macro in each ISA: one signature
                let fam = if T::NAME == "f32" { "f32->f16" } else { "integer lanes" };
                let sig = format!("rten-simd NarrowSaturate ({fam}): panics");
                let isa = rec.isa.clone();
                rec.fail(sig, vp_core::json!({"kind": "structural", "op": "narrow_saturate", "type": T::NAME, "isa": isa}),
                    format!("isa {isa}: narrow_saturate<{}->{}> panicked: {p}", T::NAME, U::NAME));
                break;
            }
        }
        i += 2 * len;
    }
    rec.count(&format!("{}::narrow_saturate", T::NAME), xs.len() as u64);
}

#[inline(always)]
fn mask_check<M: Mask, MO: MaskOps<M>>(rec: &mut Rec, mo: MO, name: &str, lanes: usize, mk: impl Fn(usize) -> M, holes: &[(M, Vec<bool>)]) {
    // prefix masks
    for n in 0..=lanes {
        let m = mk(n);
        check(rec, "any", name, mo.any(m) == (n > 0), || format!("any(first {n})"));
        check(rec, "all", name, mo.all(m) == (n == lanes), || format!("all(first {n})"));
        check(rec, "all_false", name, mo.all_false(m) == (n == 0), || format!("all_false(first {n})"));
        for k in [0, 1, n / 2, n, lanes] {
            let a = mo.and(m, mk(k)).to_array();
            let ok = a.as_ref().iter().enumerate().all(|(i, b)| *b == (i < n.min(k)));
            check(rec, "and", name, ok, || format!("and(first {n}, first {k}) = {a:?}"));
        }
    }
    // masks with holes (from comparisons)
    for (m, bits) in holes {
        let arr = m.to_array();
        check(rec, "to_array", name, arr.as_ref() == &bits[..], || format!("mask to_array {arr:?} expected {bits:?}"));
        check(rec, "any", name, mo.any(*m) == bits.iter().any(|b| *b), || format!("any({bits:?})"));
        check(rec, "all", name, mo.all(*m) == bits.iter().all(|b| *b), || format!("all({bits:?})"));
        check(rec, "all_false", name, mo.all_false(*m) == !bits.iter().any(|b| *b), || format!("all_false({bits:?})"));
        for (m2, bits2) in holes {
            let a = mo.and(*m, *m2).to_array();
            check(rec, "and", name, a.as_ref().iter().enumerate().all(|(i, b)| *b == (bits[i] && bits2[i])), || format!("and({bits:?},{bits2:?}) = {a:?}"));
        }
    }
}

// ---------------------------------------------------------------------------
// scalar definitions for f32
// ---------------------------------------------------------------------------

fn f32_min_def(x: f32, y: f32) -> Exp<f32> {
    if x.is_nan() || y.is_nan() {
        // not pinned by the doc ("the minimum of x and y"): every ISA must agree
        Exp::Unspecified
    } else if x == 0.0 && y == 0.0 && x.to_bits() != y.to_bits() {
        Exp::AgreeOn(x, y)
    } else if x <= y {
        Exp::Is(x)
    } else {
        Exp::Is(y)
    }
}

fn f32_max_def(x: f32, y: f32) -> Exp<f32> {
    if x.is_nan() || y.is_nan() {
        Exp::Unspecified
    } else if x == 0.0 && y == 0.0 && x.to_bits() != y.to_bits() {
        Exp::AgreeOn(x, y)
    } else if x >= y {
        Exp::Is(x)
    } else {
        Exp::Is(y)
    }
}

fn f32_to_int_def(x: f32, rounded: f32) -> Exp<i32> {
    // in range: exact. Out of range / NaN: "convert each lane to an integer"
    // has no value to give; ISAs must agree.
    if rounded.is_nan() || rounded >= 2147483648.0 || rounded < -2147483648.0 {
        let _ = x;
        Exp::Unspecified
    } else {
        Exp::Is(rounded as i32)
    }
}

fn fused_or_not(a: f32, b: f32, c: f32) -> Exp<f32> {
    // "may use one or two roundings": both results are acceptable (NaN == NaN)
    Exp::Either(a.mul_add(b, c), a * b + c)
}

// ---------------------------------------------------------------------------
// the task dispatched on each ISA
// ---------------------------------------------------------------------------

#[derive(Clone, Copy, Debug)]
pub enum Task {
    /// everything with small alphabets: f32, i32, structure, masks, permutations, conversions
    Small,
    /// i8/u8: all 2^16 operand pairs
    Bytes,
    /// 16-bit sweep: all values in [a_lo, a_hi) against `partners` partners, both operand orders
    Words { a_lo: u32, a_hi: u32, partners: usize },
    /// f32 unary ops + conversions over bit patterns start + i*stride
    F32Unary { start: u32, count: u32, stride: u32 },
}

pub struct PrimTask {
    pub task: Task,
    pub isa_name: &'static str,
    pub byte_width: usize,
}

impl SimdOp for PrimTask {
    type Output = Rec;

    #[inline(always)]
    fn eval<I: Isa>(self, isa: I) -> Rec {
        let mut rec = Rec::new(self.isa_name);
        let rec = &mut rec;
        match self.task {
            Task::Small => small(rec, isa, self.byte_width),
            Task::Bytes => bytes(rec, isa),
            Task::Words { a_lo, a_hi, partners } => words(rec, isa, a_lo, a_hi, partners),
            Task::F32Unary { start, count, stride } => {
                rec.skip_open = true;
                f32_unary(rec, isa, start, count, stride)
            }
        }
        std::mem::take(rec)
    }
}

#[inline(always)]
fn f32_unary<I: Isa>(rec: &mut Rec, isa: I, start: u32, count: u32, stride: u32) {
    let ops = isa.f32();
    let xs: Vec<f32> = (0..count).map(|i| f32::from_bits(start.wrapping_add(i.wrapping_mul(stride)))).collect();
    f32_unary_ops(rec, isa, &xs);
    // f32 -> f16 (pairs of vectors)
    narrow_check(rec, ops, &xs, "", |x: f32| if x.is_nan() { Exp::Nan } else { Exp::Is(f16::from_bits(ref_f32_to_f16(x))) });
}

#[inline(always)]
fn f32_unary_ops<I: Isa>(rec: &mut Rec, isa: I, xs: &[f32]) {
    let ops = isa.f32();
    un(rec, ops, "abs", "", xs, |a| ops.abs(a).to_array(), |a: f32| Exp::Is(f32::from_bits(a.to_bits() & 0x7fff_ffff)));
    un(rec, ops, "neg", "", xs, |a| ops.neg(a).to_array(), |a: f32| Exp::Is(f32::from_bits(a.to_bits() ^ 0x8000_0000)));
    un(rec, ops, "reciprocal", "", xs, |a| ops.reciprocal(a).to_array(), |a: f32| ieee(1.0 / a));
    un(rec, ops, "round_ties_even", "", xs, |a| ops.round_ties_even(a).to_array(), |a: f32| ieee(a.round_ties_even()));
    un(rec, ops, "to_int_trunc", " (in-range input)", xs, |a| ops.to_int_trunc(a).to_array(), |a: f32| f32_to_int_def(a, a.trunc()));
    un(rec, ops, "to_int_round", " (in-range input)", xs, |a| ops.to_int_round(a).to_array(), |a: f32| f32_to_int_def(a, a.round_ties_even()));
}

#[inline(always)]
fn small<I: Isa>(rec: &mut Rec, isa: I, byte_width: usize) {
    // ---- f32 ----
    let ops = isa.f32();
    let fa = f32_alphabet();
    bitops_common(rec, ops, byte_width, &[f32::NAN, -0.0, f32::INFINITY]);
    let (xs, ys) = pairs(&fa, &fa);
    bin(rec, ops, "add", "", &xs, &ys, |a, b| ops.add(a, b).to_array(), |a: f32, b: f32| ieee(a + b));
    bin(rec, ops, "sub", "", &xs, &ys, |a, b| ops.sub(a, b).to_array(), |a: f32, b: f32| ieee(a - b));
    bin(rec, ops, "mul", "", &xs, &ys, |a, b| ops.mul(a, b).to_array(), |a: f32, b: f32| ieee(a * b));
    bin(rec, ops, "div", "", &xs, &ys, |a, b| ops.div(a, b).to_array(), |a: f32, b: f32| ieee(a / b));
    bin(rec, ops, "eq", "", &xs, &ys, |a, b| ops.eq(a, b).to_array(), |a: f32, b: f32| Exp::Is(a == b));
    bin(rec, ops, "ge", "", &xs, &ys, |a, b| ops.ge(a, b).to_array(), |a: f32, b: f32| Exp::Is(a >= b));
    bin(rec, ops, "gt", "", &xs, &ys, |a, b| ops.gt(a, b).to_array(), |a: f32, b: f32| Exp::Is(a > b));
    bin(rec, ops, "le", "", &xs, &ys, |a, b| ops.le(a, b).to_array(), |a: f32, b: f32| Exp::Is(a <= b));
    bin(rec, ops, "lt", "", &xs, &ys, |a, b| ops.lt(a, b).to_array(), |a: f32, b: f32| Exp::Is(a < b));
    bin(rec, ops, "min", " (ordered, distinct operands)", &xs, &ys, |a, b| ops.min(a, b).to_array(), f32_min_def);
    bin(rec, ops, "max", " (ordered, distinct operands)", &xs, &ys, |a, b| ops.max(a, b).to_array(), f32_max_def);
    bitwise(rec, ops, &xs, &ys, |b| f32::from_bits(b as u32));
    f32_unary_ops(rec, isa, &fa);
    let sub: Vec<f32> = fa.iter().copied().step_by(3).collect();
    let (t1, t2, t3) = triples(&sub, &sub, &sub);
    tern(rec, ops, "mul_add", " (fused or unfused)", &t1, &t2, &t3, |a, b, c| ops.mul_add(a, b, c).to_array(), fused_or_not);
    tern(rec, ops, "mul_sub_from", " (fused or unfused)", &t1, &t2, &t3, |a, b, c| ops.mul_sub_from(a, b, c).to_array(), |a: f32, b: f32, c: f32| fused_or_not(-a, b, c));
    tern(rec, ops, "clamp", " (ordered operands)", &t1, &t2, &t3, |a, b, c| ops.clamp(a, b, c).to_array(), |x: f32, lo: f32, hi: f32| {
        if x.is_nan() || lo.is_nan() || hi.is_nan() || (x == 0.0 && (lo == 0.0 || hi == 0.0)) || (lo == 0.0 && hi == 0.0) {
            Exp::Unspecified
        } else {
            let m = if x >= lo { x } else { lo };
            Exp::Is(if m <= hi { m } else { hi })
        }
    });
    // sum: exactly summable lanes (small integers), plus special lanes
    let len = ops.len();
    for shift in 0..len {
        let w: Vec<f32> = (0..len).map(|i| ((i + shift) % len) as f32 - 3.0).collect();
        let got = ops.sum(ops.load(&w));
        let exp: f32 = w.iter().sum();
        check(rec, "sum", "f32", got.to_bits() == exp.to_bits(), || format!("sum({w:?}) = {got}, exact sum {exp}"));
        let mut w2 = w.clone();
        w2[shift] = f32::INFINITY;
        let got = ops.sum(ops.load(&w2));
        check(rec, "sum", "f32", got == f32::INFINITY, || format!("sum with +inf lane {shift} = {got}"));
        w2[shift] = f32::NAN;
        let got = ops.sum(ops.load(&w2));
        check(rec, "sum", "f32", got.is_nan(), || format!("sum with NaN lane {shift} = {got}"));
    }
    check(rec, "one", "f32", ops.one().to_array().as_ref().iter().all(|v| *v == 1.0), || "one()".into());
    // poly_eval with exactly representable values
    let small_x = [0.0f32, 1.0, -1.0, 2.0, 0.5, -0.25, 3.0];
    un(rec, ops, "poly_eval", "", &small_x, |a| ops.poly_eval(a, &[ops.splat(2.0), ops.splat(3.0), ops.splat(4.0)]).to_array(), |x: f32| Exp::Is(x * 2.0 + x * x * 3.0 + x * x * x * 4.0));
    // masks with holes from comparisons
    {
        let mo = isa.m32();
        let a: Vec<f32> = (0..len).map(|i| (i % 3) as f32).collect();
        let b: Vec<f32> = (0..len).map(|i| ((i / 2) % 2) as f32).collect();
        let holes = vec![
            (ops.gt(ops.load(&a), ops.load(&b)), (0..len).map(|i| a[i] > b[i]).collect::<Vec<bool>>()),
            (ops.eq(ops.load(&a), ops.load(&b)), (0..len).map(|i| a[i] == b[i]).collect()),
            (ops.lt(ops.load(&a), ops.splat(0.5)), (0..len).map(|i| a[i] < 0.5).collect()),
        ];
        mask_check(rec, mo, "m32", len, |n| ops.first_n_mask(n), &holes);
    }

    // ---- i32 ----
    let iops = isa.i32();
    let ia = i32_alphabet();
    bitops_common(rec, iops, byte_width, &[i32::MIN, -1, i32::MAX]);
    let (xs, ys) = pairs(&ia, &ia);
    int_numops!(rec, iops, i32, u32, &xs, &ys);
    let sub: Vec<i32> = ia.iter().copied().step_by(3).collect();
    let (t1, t2, t3) = triples(&sub, &sub, &sub);
    int_ternary!(rec, iops, i32, &t1, &t2, &t3);
    int_sum_poly!(rec, iops, i32, &ia);
    signed_ops!(rec, iops, i32, &ia);
    shifts!(rec, iops, &ia, i32, u32, [0, 1, 2, 3, 4, 7, 8, 15, 16, 23, 24, 31]);
    un(rec, iops, "to_float", "", &ia, |a| iops.to_float(a).to_array(), |a: i32| Exp::Is(a as f32));
    // every i32 that needs rounding near 2^24..2^31 boundaries
    let mut conv: Vec<i32> = Vec::new();
    for p in 24..31 {
        for d in -9i64..=9 {
            let v = (1i64 << p) + d;
            if v <= i32::MAX as i64 {
                conv.push(v as i32);
                conv.push((-v) as i32);
            }
        }
    }
    un(rec, iops, "to_float", "", &conv, |a| iops.to_float(a).to_array(), |a: i32| Exp::Is(a as f32));
    narrow_check(rec, iops, &ia, "", |x: i32| Exp::Is(x.clamp(i16::MIN as i32, i16::MAX as i32) as i16));
    {
        let len = iops.len();
        let a: Vec<i32> = (0..len).map(|i| i as i32).collect();
        let b: Vec<i32> = (0..len).map(|i| (100 + i) as i32).collect();
        let lo = iops.concat_low(iops.load(&a), iops.load(&b)).to_array();
        let hi = iops.concat_high(iops.load(&a), iops.load(&b)).to_array();
        let h = len / 2;
        let elo: Vec<i32> = (0..len).map(|i| if i < h { a[i] } else { b[i - h] }).collect();
        let ehi: Vec<i32> = (0..len).map(|i| if i < h { a[h + i] } else { b[i] }).collect();
        check(rec, "concat_low", "i32", lo.as_ref() == &elo[..], || format!("got {lo:?} expected {elo:?}"));
        check(rec, "concat_high", "i32", hi.as_ref() == &ehi[..], || format!("got {hi:?} expected {ehi:?}"));
    }

    // ---- 16-bit structure, permutations, conversions ----
    let i16o = isa.i16();
    let u16o = isa.u16();
    bitops_common(rec, i16o, byte_width, &[i16::MIN, -1, i16::MAX]);
    bitops_common(rec, u16o, byte_width, &[0x8000u16, 0xffff, 0x7fff]);
    interleave_check(rec, i16o);
    let all16: Vec<i16> = (0..=u16::MAX).map(|v| v as i16).collect();
    extend_check(rec, i16o, &all16, |x: i16| Exp::Is(x as i32));
    narrow_check(rec, i16o, &all16, "", |x: i16| Exp::Is(x.clamp(0, 255) as u8));
    int_sum_poly!(rec, i16o, i16, &all16[..4096]);
    int_sum_poly!(rec, u16o, u16, &(0..4096u16).map(|v| v.wrapping_mul(17)).collect::<Vec<u16>>());
    {
        let mo = isa.m16();
        let len = i16o.len();
        let a: Vec<i16> = (0..len).map(|i| (i % 3) as i16).collect();
        let b: Vec<i16> = (0..len).map(|i| ((i / 2) % 2) as i16).collect();
        let holes = vec![
            (i16o.gt(i16o.load(&a), i16o.load(&b)), (0..len).map(|i| a[i] > b[i]).collect::<Vec<bool>>()),
            (i16o.eq(i16o.load(&a), i16o.load(&b)), (0..len).map(|i| a[i] == b[i]).collect()),
        ];
        mask_check(rec, mo, "m16", len, |n| i16o.first_n_mask(n), &holes);
    }
    // 16-bit ternaries on a 40-value alphabet
    let p40: Vec<u16> = partners16(40);
    let s40: Vec<i16> = p40.iter().map(|v| *v as i16).collect();
    let (t1, t2, t3) = triples(&s40, &s40, &s40);
    int_ternary!(rec, i16o, i16, &t1, &t2, &t3);
    let (t1, t2, t3) = triples(&p40, &p40, &p40);
    int_ternary!(rec, u16o, u16, &t1, &t2, &t3);

    // ---- 8-bit structure ----
    let i8o = isa.i8();
    let u8o = isa.u8();
    bitops_common(rec, i8o, byte_width, &[i8::MIN, -1, i8::MAX]);
    bitops_common(rec, u8o, byte_width, &[0x80u8, 0xff, 0x7f]);
    interleave_check(rec, i8o);
    interleave_check(rec, u8o);
    let all_i8: Vec<i8> = (0..=255u8).map(|v| v as i8).collect();
    let all_u8: Vec<u8> = (0..=255u8).collect();
    extend_check(rec, i8o, &all_i8, |x: i8| Exp::Is(x as i16));
    extend_check(rec, u8o, &all_u8, |x: u8| Exp::Is(x as u16));
    int_sum_poly!(rec, i8o, i8, &all_i8);
    int_sum_poly!(rec, u8o, u8, &all_u8);
    {
        let mo = isa.m8();
        let len = i8o.len();
        let a: Vec<i8> = (0..len).map(|i| (i % 3) as i8).collect();
        let b: Vec<i8> = (0..len).map(|i| ((i / 2) % 2) as i8).collect();
        let holes = vec![
            (i8o.gt(i8o.load(&a), i8o.load(&b)), (0..len).map(|i| a[i] > b[i]).collect::<Vec<bool>>()),
            (i8o.eq(i8o.load(&a), i8o.load(&b)), (0..len).map(|i| a[i] == b[i]).collect()),
        ];
        mask_check(rec, mo, "m8", len, |n| i8o.first_n_mask(n), &holes);
    }

    // ---- f16 ----
    let hops = isa.f16();
    bitops_common(rec, hops, byte_width, &[f16::from_bits(0x7e00), f16::from_bits(0x8000), f16::from_bits(0x7c00)]);
    let all_h: Vec<f16> = (0..=u16::MAX).map(f16::from_bits).collect();
    extend_check(rec, hops, &all_h, |h: f16| {
        let v = ref_f16_to_f32(h.to_bits());
        if v.is_nan() { Exp::Nan } else { Exp::Is(v) }
    });
    let hp: Vec<f16> = partners16(64).into_iter().map(f16::from_bits).collect();
    let (xs, ys) = pairs(&hp, &hp);
    bitwise(rec, hops, &xs, &ys, |b| f16::from_bits(b as u16));
    // f32 -> f16 on the alphabet and on every f16 midpoint and its f32 neighbours
    let mut mids: Vec<f32> = fa.clone();
    for h in 0..0x7c00u16 {
        let a = ref_f16_to_f32(h) as f64;
        let b = ref_f16_to_f32(h + 1) as f64;
        let m = if b.is_infinite() { 65520.0 } else { (a + b) / 2.0 } as f32;
        for d in [-1i32, 0, 1] {
            let v = f32::from_bits((m.to_bits() as i32 + d) as u32);
            mids.push(v);
            mids.push(-v);
        }
    }
    narrow_check(rec, ops, &mids, "", |x: f32| if x.is_nan() { Exp::Nan } else { Exp::Is(f16::from_bits(ref_f32_to_f16(x))) });
}

#[inline(always)]
fn bytes<I: Isa>(rec: &mut Rec, isa: I) {
    let i8o = isa.i8();
    let u8o = isa.u8();
    let all_i8: Vec<i8> = (0..=255u8).map(|v| v as i8).collect();
    let all_u8: Vec<u8> = (0..=255u8).collect();
    let (xs, ys) = pairs(&all_i8, &all_i8);
    int_numops!(rec, i8o, i8, u8, &xs, &ys);
    let (xs, ys) = pairs(&all_u8, &all_u8);
    int_numops!(rec, u8o, u8, u8, &xs, &ys);
    signed_ops!(rec, i8o, i8, &all_i8);
    shifts!(rec, i8o, &all_i8, i8, u8, [0, 1, 2, 3, 4, 5, 6, 7]);
    shifts!(rec, u8o, &all_u8, u8, u8, [0, 1, 2, 3, 4, 5, 6, 7]);
    let c8: Vec<i8> = vec![-128, -127, -1, 0, 1, 2, 126, 127];
    let (t1, t2, t3) = triples(&all_i8, &all_i8, &c8);
    int_ternary!(rec, i8o, i8, &t1, &t2, &t3);
    let c8u: Vec<u8> = vec![0, 1, 2, 127, 128, 129, 254, 255];
    let (t1, t2, t3) = triples(&all_u8, &all_u8, &c8u);
    int_ternary!(rec, u8o, u8, &t1, &t2, &t3);
}

#[inline(always)]
fn words<I: Isa>(rec: &mut Rec, isa: I, a_lo: u32, a_hi: u32, partners: usize) {
    let i16o = isa.i16();
    let u16o = isa.u16();
    let p = partners16(partners);
    let ps: Vec<i16> = p.iter().map(|v| *v as i16).collect();
    // build flat arrays in blocks of 256 a-values to bound memory
    let mut a = a_lo;
    while a < a_hi {
        let end = (a + 256).min(a_hi);
        let av_u: Vec<u16> = (a..end).map(|v| v as u16).collect();
        let av_s: Vec<i16> = av_u.iter().map(|v| *v as i16).collect();
        let (xs, ys) = pairs(&av_s, &ps);
        int_numops!(rec, i16o, i16, u16, &xs, &ys);
        int_numops!(rec, i16o, i16, u16, &ys, &xs);
        let (xs, ys) = pairs(&av_u, &p);
        int_numops!(rec, u16o, u16, u16, &xs, &ys);
        int_numops!(rec, u16o, u16, u16, &ys, &xs);
        signed_ops!(rec, i16o, i16, &av_s);
        shifts!(rec, i16o, &av_s, i16, u16, [0, 1, 2, 3, 4, 7, 8, 9, 15]);
        shifts!(rec, u16o, &av_u, u16, u16, [0, 1, 2, 3, 4, 7, 8, 9, 15]);
        a = end;
    }
}
