//! C18 part B: slice-level routines on buffers that end at a PROT_NONE page
//! (or start right after one), for every length 0..=k*width+1. Executed in a
//! worker process; a fault in the guard page kills the worker after the
//! signal handler has printed which case was running.

use std::mem::MaybeUninit;

use rten_simd::functional::{simd_apply, simd_map};
use rten_simd::ops::{BitOps, GetBitOps, GetNumOps, NumOps};
use rten_simd::{Isa, Simd, SimdIterable, SimdOp, SimdUnaryOp, f16};
use vp_core::{Json, json};

use crate::c18_common::{Lane, ref_f16_to_f32, ref_f32_to_f16};
use crate::util::{self, GuardBuf, Placement};

/// Names of all routines checked by the tails worker.
pub fn routines() -> Vec<String> {
    let mut v = Vec::new();
    for t in ["f32", "i32", "i16", "i8", "u8", "u16"] {
        for r in ["load_pad", "load_store_exact", "simd_map", "simd_map_inplace", "simd_apply", "iter_fold", "iter_fold_unroll", "iter_fold_n", "iter_fold_n_unroll", "iter_pad"] {
            v.push(format!("{r}<{t}>"));
        }
    }
    v.push("load_pad<f16>".into());
    v.push("load_store_exact<f16>".into());
    for op in UNARY {
        v.push(format!("vecmath::{op}.map"));
        v.push(format!("vecmath::{op}.map_mut"));
    }
    for r in [
        "Softmax::new", "Softmax::new_mut", "Softmax::flush_nans", "LogSoftmax::new", "LogSoftmax::new_mut",
        "Normalize(const)::new", "Normalize(const)::new_mut", "Normalize(scale)::new", "Normalize(scale)::new_mut",
        "Normalize(scale+bias)::new", "Normalize(scale+bias)::new_mut",
        "MinMax", "MaxNum", "MinNum", "Sum", "SumSquare", "SumAbs", "SumSquareSub", "SumExpSub",
        "Quantize<u8>", "F16ToF32", "F32ToF16",
    ] {
        v.push(format!("vecmath::{r}"));
    }
    v
}

pub const UNARY: [&str; 12] = ["Exp", "Sigmoid", "Tanh", "Erf", "Sin", "Cos", "Gelu", "ApproxGelu", "Silu", "Swish", "Elu", "LeakyRelu"];

fn unary_apply(op: &str, src: &[f32], dst: Option<&mut [MaybeUninit<f32>]>, inplace: Option<&mut [f32]>) {
    use rten_vecmath as vm;
    macro_rules! go {
        ($o:expr) => {{
            let o = $o;
            if let Some(d) = dst {
                o.map(src, d);
            } else if let Some(b) = inplace {
                o.map_mut(b);
            }
        }};
    }
    match op {
        "Exp" => go!(vm::Exp {}),
        "Sigmoid" => go!(vm::Sigmoid {}),
        "Tanh" => go!(vm::Tanh {}),
        "Erf" => go!(vm::Erf {}),
        "Sin" => go!(vm::Sin::new()),
        "Cos" => go!(vm::Cos::new()),
        "Gelu" => go!(vm::Gelu {}),
        "ApproxGelu" => go!(vm::ApproxGelu {}),
        "Silu" => go!(vm::Silu {}),
        "Swish" => go!(vm::Swish { alpha: 1.7 }),
        "Elu" => go!(vm::Elu { alpha: 0.5 }),
        "LeakyRelu" => go!(vm::LeakyRelu { alpha: 0.25 }),
        _ => vp_core::machinery_error("unknown unary op"),
    }
}

/// Value of a unary op for `x` computed in the *body* path: a buffer of
/// exactly one full vector (all lanes x).
fn unary_body_value(op: &str, x: f32, lanes: usize) -> f32 {
    let mut b = vec![x; lanes];
    unary_apply(op, &[], None, Some(&mut b));
    b[0]
}

const FVALS: [f32; 11] = [-3.0, -0.5, 0.0, 0.25, 1.0, 2.5, 10.0, -20.0, 0.75, -1.25, 6.0];

fn fval(i: usize) -> f32 {
    FVALS[i % FVALS.len()]
}

trait TailElem: Lane + Default + PartialEq {
    fn add1(self) -> Self;
    fn wsum(xs: &[Self]) -> Self;
    fn wmax(xs: &[Self]) -> Self;
    fn small(i: usize) -> Self;
}
macro_rules! tail_int {
    ($t:ty) => {
        impl TailElem for $t {
            fn add1(self) -> Self {
                self.wrapping_add(1)
            }
            fn wsum(xs: &[Self]) -> Self {
                xs.iter().fold(0, |s, v| s.wrapping_add(*v))
            }
            fn wmax(xs: &[Self]) -> Self {
                xs.iter().copied().max().unwrap_or(<$t>::MIN)
            }
            fn small(i: usize) -> Self {
                ((i * 7 + 3) % 97) as $t
            }
        }
    };
}
tail_int!(i32);
tail_int!(i16);
tail_int!(i8);
tail_int!(u8);
tail_int!(u16);
impl TailElem for f32 {
    fn add1(self) -> Self {
        self + 1.0
    }
    fn wsum(xs: &[Self]) -> Self {
        xs.iter().fold(0.0, |s, v| s + *v)
    }
    fn wmax(xs: &[Self]) -> Self {
        xs.iter().copied().fold(f32::MIN, f32::max)
    }
    fn small(i: usize) -> Self {
        ((i * 7 + 3) % 97) as f32
    }
}

/// Primitive-level slice routines, generic over ISA and element type.
struct PrimTail {
    routine: String,
    elem: String,
    len: usize,
    place: Placement,
}

impl SimdOp for PrimTail {
    type Output = Result<(), String>;
    #[inline(always)]
    fn eval<I: Isa>(self, isa: I) -> Self::Output {
        match self.elem.as_str() {
            "f32" => prim_tail::<I, f32>(isa, &self.routine, self.len, self.place),
            "i32" => prim_tail::<I, i32>(isa, &self.routine, self.len, self.place),
            "i16" => prim_tail::<I, i16>(isa, &self.routine, self.len, self.place),
            "i8" => prim_tail::<I, i8>(isa, &self.routine, self.len, self.place),
            "u8" => prim_tail::<I, u8>(isa, &self.routine, self.len, self.place),
            "u16" => prim_tail::<I, u16>(isa, &self.routine, self.len, self.place),
            "f16" => bit_tail::<I, f16>(isa, &self.routine, self.len, self.place),
            _ => Err("unknown element type".into()),
        }
    }
}

fn canary<T: Copy>(g: &GuardBuf<T>, what: &str) -> Result<(), String> {
    if g.canary_intact() { Ok(()) } else { Err(format!("CANARY: bytes outside the {what} slice were modified")) }
}

#[inline(always)]
fn bit_tail<I: Isa, T: Lane + Default + PartialEq + GetBitOps>(isa: I, routine: &str, n: usize, place: Placement) -> Result<(), String> {
    let ops = T::bit_ops(isa);
    let w = ops.len();
    let data: Vec<T> = (0..n).map(|i| T::from_index(1 + i % 150)).collect();
    let src = GuardBuf::from_slice_at(&data, place);
    match routine {
        "load_pad" => {
            let (v, m) = ops.load_pad(src.as_slice());
            let va = v.to_array();
            let ma = rten_simd::Mask::to_array(m);
            for i in 0..w {
                let e = if i < n { data[i] } else { T::default() };
                if va[i].bits() != e.bits() || ma[i] != (i < n) {
                    return Err(format!("load_pad(len {n}) lane {i} = {} mask {}", va[i].show(), ma[i]));
                }
            }
            canary(&src, "source")
        }
        "load_store_exact" => {
            // slices of exactly k vectors: load / store must stay inside
            if n % w != 0 || n == 0 {
                return Ok(());
            }
            let mut dst = GuardBuf::<T>::new_at(n, place);
            for k in 0..n / w {
                let v = ops.load(&src.as_slice()[k * w..]);
                ops.store(v, &mut dst.as_mut_slice()[k * w..]);
            }
            if dst.as_slice().iter().zip(&data).any(|(a, b)| a.bits() != b.bits()) {
                return Err("load/store round trip differs".into());
            }
            canary(&dst, "destination")
        }
        _ => Err(format!("routine {routine} not available for this type")),
    }
}

#[inline(always)]
fn prim_tail<I: Isa, T: TailElem + GetNumOps + GetBitOps>(isa: I, routine: &str, n: usize, place: Placement) -> Result<(), String> {
    if routine == "load_pad" || routine == "load_store_exact" {
        return bit_tail::<I, T>(isa, routine, n, place);
    }
    let ops = T::num_ops(isa);
    let w = ops.len();
    let data: Vec<T> = (0..n).map(T::small).collect();
    let src = GuardBuf::from_slice_at(&data, place);
    let one = ops.one();
    match routine {
        "simd_map" => {
            let mut dst = GuardBuf::<T>::new_at(n, place);
            let out = simd_map(ops, (src.as_slice(), dst.as_uninit_mut()), |x| ops.add(x, one));
            if out.len() != n {
                return Err(format!("returned slice has length {}", out.len()));
            }
            for i in 0..n {
                if dst.as_slice()[i].bits() != data[i].add1().bits() {
                    return Err(format!("simd_map(x+1) len {n}: out[{i}] = {} for input {}", dst.as_slice()[i].show(), data[i].show()));
                }
            }
            canary(&dst, "destination")?;
            canary(&src, "source")
        }
        "simd_map_inplace" | "simd_apply" => {
            let mut buf = GuardBuf::from_slice_at(&data, place);
            if routine == "simd_map_inplace" {
                simd_map(ops, buf.as_mut_slice(), |x| ops.add(x, one));
            } else {
                simd_apply::<_, _, _, 2>(ops, buf.as_mut_slice(), |x| ops.add(x, one));
            }
            for i in 0..n {
                if buf.as_slice()[i].bits() != data[i].add1().bits() {
                    return Err(format!("{routine}(x+1) len {n}: out[{i}] = {} for input {}", buf.as_slice()[i].show(), data[i].show()));
                }
            }
            canary(&buf, "buffer")
        }
        "iter_fold" | "iter_fold_unroll" => {
            let acc = if routine == "iter_fold" {
                src.as_slice().simd_iter(ops).fold(ops.zero(), |a, x| ops.add(a, x))
            } else {
                src.as_slice().simd_iter(ops).fold_unroll::<4>(ops.zero(), |a, x| ops.add(a, x), |a, b| ops.add(a, b))
            };
            let got = T::wsum(acc.to_array().as_ref());
            let exp = T::wsum(&data);
            if got.bits() != exp.bits() {
                return Err(format!("{routine}(sum) len {n} = {} expected {}", got.show(), exp.show()));
            }
            Ok(())
        }
        "iter_fold_n" | "iter_fold_n_unroll" => {
            // accumulators: [sum, max]; padding lanes must not contribute
            let init = [ops.zero(), ops.splat(T::small(0))];
            let f = |[s, m]: [_; 2], x| [ops.add(s, x), ops.max(m, x)];
            let acc = if routine == "iter_fold_n" {
                src.as_slice().simd_iter(ops).fold_n(init, f)
            } else {
                src.as_slice().simd_iter(ops).fold_n_unroll::<2, 4>(init, f, |[s1, m1], [s2, m2]| [ops.add(s1, s2), ops.max(m1, m2)])
            };
            let got_s = T::wsum(acc[0].to_array().as_ref());
            // the unrolled variant starts every accumulator from `init`, so the
            // sum of the initial values is counted once per accumulator: init sum is zero, fine.
            let got_m = T::wmax(acc[1].to_array().as_ref());
            let mut all = data.clone();
            all.push(T::small(0));
            let (exp_s, exp_m) = (T::wsum(&data), T::wmax(&all));
            if got_s.bits() != exp_s.bits() || got_m.bits() != exp_m.bits() {
                return Err(format!("{routine} len {n}: sum {} (expected {}), max {} (expected {})", got_s.show(), exp_s.show(), got_m.show(), exp_m.show()));
            }
            Ok(())
        }
        "iter_pad" => {
            let it = src.as_slice().simd_iter_pad(ops);
            let exp_chunks = n.div_ceil(w);
            if it.len() != exp_chunks {
                return Err(format!("simd_iter_pad len() = {} expected {exp_chunks}", it.len()));
            }
            let mut flat: Vec<T> = Vec::new();
            for v in it {
                flat.extend_from_slice(v.to_array().as_ref());
            }
            if flat.len() != exp_chunks * w {
                return Err(format!("simd_iter_pad yielded {} lanes expected {}", flat.len(), exp_chunks * w));
            }
            for i in 0..flat.len() {
                let e = if i < n { data[i] } else { T::default() };
                if flat[i].bits() != e.bits() {
                    return Err(format!("simd_iter_pad len {n}: lane {i} = {} expected {}", flat[i].show(), e.show()));
                }
            }
            Ok(())
        }
        _ => Err(format!("unknown routine {routine}")),
    }
}

fn close(a: f32, b: f64, abs: f64, rel: f64) -> bool {
    let a = a as f64;
    (a - b).abs() <= abs + rel * b.abs()
}

/// vecmath routines through their public dispatching API.
fn vecmath_tail(routine: &str, n: usize, place: Placement, lanes: usize) -> Result<(), String> {
    use rten_vecmath as vm;
    let data: Vec<f32> = (0..n).map(fval).collect();
    let src = GuardBuf::from_slice_at(&data, place);
    let xs = src.as_slice();
    if let Some(rest) = routine.strip_suffix(".map") {
        let mut dst = GuardBuf::<f32>::new_at(n, place);
        unary_apply(rest, xs, Some(dst.as_uninit_mut()), None);
        for i in 0..n {
            let body = unary_body_value(rest, data[i], lanes);
            if dst.as_slice()[i].to_bits() != body.to_bits() {
                return Err(format!("{rest}.map len {n}: out[{i}] = {:e} but the same input in a full vector gives {:e}", dst.as_slice()[i], body));
            }
        }
        canary(&dst, "destination")?;
        return canary(&src, "source");
    }
    if let Some(rest) = routine.strip_suffix(".map_mut") {
        let mut buf = GuardBuf::from_slice_at(&data, place);
        unary_apply(rest, &[], None, Some(buf.as_mut_slice()));
        for i in 0..n {
            let body = unary_body_value(rest, data[i], lanes);
            if buf.as_slice()[i].to_bits() != body.to_bits() {
                return Err(format!("{rest}.map_mut len {n}: out[{i}] = {:e} but the same input in a full vector gives {:e}", buf.as_slice()[i], body));
            }
        }
        return canary(&buf, "buffer");
    }
    let sm_ref = |xs: &[f32]| -> Vec<f64> {
        let m = xs.iter().fold(f64::NEG_INFINITY, |m, x| m.max(*x as f64));
        let e: Vec<f64> = xs.iter().map(|x| (*x as f64 - m).exp()).collect();
        let s: f64 = e.iter().sum();
        e.iter().map(|v| v / s).collect()
    };
    match routine {
        "Softmax::new" | "Softmax::new_mut" | "Softmax::flush_nans" | "LogSoftmax::new" | "LogSoftmax::new_mut" => {
            let mut dst = GuardBuf::<f32>::new_at(n, place);
            let mut buf = GuardBuf::from_slice_at(&data, place);
            let out: Vec<f32> = match routine {
                "Softmax::new" => vm::Softmax::new(xs, dst.as_uninit_mut()).dispatch().to_vec(),
                "Softmax::flush_nans" => vm::Softmax::new(xs, dst.as_uninit_mut()).flush_nans_to_zero(true).dispatch().to_vec(),
                "Softmax::new_mut" => vm::Softmax::new_mut(buf.as_mut_slice()).dispatch().to_vec(),
                "LogSoftmax::new" => vm::LogSoftmax::new(xs, dst.as_uninit_mut()).dispatch().to_vec(),
                _ => vm::LogSoftmax::new_mut(buf.as_mut_slice()).dispatch().to_vec(),
            };
            if out.len() != n {
                return Err(format!("output length {}", out.len()));
            }
            let r = sm_ref(&data);
            for i in 0..n {
                let e = if routine.starts_with("Log") { r[i].ln() } else { r[i] };
                if !close(out[i], e, 2e-6, 2e-6) {
                    return Err(format!("{routine} len {n}: out[{i}] = {:e}, f64 reference {:e}", out[i], e));
                }
            }
            canary(&dst, "destination")?;
            canary(&buf, "buffer")
        }
        r if r.starts_with("Normalize") => {
            let es: Vec<f32> = (0..n).map(|i| if i % 2 == 0 { 1.0 } else { 2.0 }).collect();
            let eb: Vec<f32> = (0..n).map(|i| if i % 3 == 0 { 0.5 } else { -1.0 }).collect();
            let esg = GuardBuf::from_slice_at(&es, place);
            let ebg = GuardBuf::from_slice_at(&eb, place);
            let (use_es, use_eb, bias) = if r.contains("(const)") {
                (false, false, 0.25)
            } else if r.contains("(scale)") {
                (true, false, 0.0)
            } else {
                (true, true, 0.25)
            };
            let opts = vm::NormalizeOptions {
                pre_scale_bias: 1.0,
                scale: 0.5,
                element_scale: if use_es { Some(esg.as_slice()) } else { None },
                bias,
                element_bias: if use_eb { Some(ebg.as_slice()) } else { None },
            };
            let mut dst = GuardBuf::<f32>::new_at(n, place);
            let mut buf = GuardBuf::from_slice_at(&data, place);
            let out: Vec<f32> = if r.ends_with("new") {
                vm::Normalize::new(xs, dst.as_uninit_mut(), opts).dispatch().to_vec()
            } else {
                vm::Normalize::new_mut(buf.as_mut_slice(), opts).dispatch().to_vec()
            };
            for i in 0..n {
                let e = (data[i] - 1.0) * (0.5 * if use_es { es[i] } else { 1.0 }) + (bias + if use_eb { eb[i] } else { 0.0 });
                if out[i].to_bits() != e.to_bits() {
                    return Err(format!("{r} len {n}: out[{i}] = {:e}, exact value {:e}", out[i], e));
                }
            }
            canary(&dst, "destination")?;
            canary(&buf, "buffer")
        }
        "MinMax" | "MaxNum" | "MinNum" => {
            // distinct values, extremum at every position in turn is covered by varying n
            let vals: Vec<f32> = (0..n).map(|i| (((i * 37) % 101) as f32) - 50.0 + (i as f32) / 1024.0).collect();
            let g = GuardBuf::from_slice_at(&vals, place);
            let emin = vals.iter().copied().fold(f32::INFINITY, f32::min);
            let emax = vals.iter().copied().fold(f32::NEG_INFINITY, f32::max);
            match routine {
                "MinMax" => {
                    let (mn, mx) = vm::MinMax::new(g.as_slice()).dispatch();
                    if mn.to_bits() != emin.to_bits() || mx.to_bits() != emax.to_bits() {
                        return Err(format!("MinMax len {n} = ({mn},{mx}) expected ({emin},{emax})"));
                    }
                }
                "MaxNum" => {
                    let mx = vm::MaxNum::new(g.as_slice()).dispatch();
                    if mx.to_bits() != emax.to_bits() {
                        return Err(format!("MaxNum len {n} = {mx} expected {emax}"));
                    }
                    // NaN at the last position (tail lane) must propagate
                    if n > 0 {
                        let mut v2 = vals.clone();
                        v2[n - 1] = f32::NAN;
                        let g2 = GuardBuf::from_slice_at(&v2, place);
                        if !vm::MaxNum::new(g2.as_slice()).dispatch().is_nan() {
                            return Err(format!("MaxNum len {n}: NaN in the last element not propagated"));
                        }
                    }
                }
                _ => {
                    let mn = vm::MinNum::new(g.as_slice()).dispatch();
                    if mn.to_bits() != emin.to_bits() {
                        return Err(format!("MinNum len {n} = {mn} expected {emin}"));
                    }
                    if n > 0 {
                        let mut v2 = vals.clone();
                        v2[n - 1] = f32::NAN;
                        let g2 = GuardBuf::from_slice_at(&v2, place);
                        if !vm::MinNum::new(g2.as_slice()).dispatch().is_nan() {
                            return Err(format!("MinNum len {n}: NaN in the last element not propagated"));
                        }
                    }
                }
            }
            Ok(())
        }
        "Sum" | "SumSquare" | "SumAbs" | "SumSquareSub" | "SumExpSub" => {
            let vals: Vec<f32> = (0..n).map(|i| ((i * 5) % 13) as f32 - 6.0).collect();
            let g = GuardBuf::from_slice_at(&vals, place);
            let (got, exp): (f32, f64) = match routine {
                "Sum" => (vm::Sum::new(g.as_slice()).dispatch(), vals.iter().map(|v| *v as f64).sum()),
                "SumSquare" => (vm::SumSquare::new(g.as_slice()).dispatch(), vals.iter().map(|v| (*v as f64).powi(2)).sum()),
                "SumAbs" => (vm::SumAbs::new(g.as_slice()).dispatch(), vals.iter().map(|v| (*v as f64).abs()).sum()),
                "SumSquareSub" => (vm::SumSquareSub::new(g.as_slice(), 1.0).dispatch(), vals.iter().map(|v| (*v as f64 - 1.0).powi(2)).sum()),
                _ => (vm::SumExpSub::new(g.as_slice(), 6.0).dispatch(), vals.iter().map(|v| (*v as f64 - 6.0).exp()).sum()),
            };
            let ok = if routine == "SumExpSub" { close(got, exp, 1e-7, 2e-6) } else { got as f64 == exp };
            if !ok {
                return Err(format!("{routine} len {n} = {got:e}, reference {exp:e}"));
            }
            Ok(())
        }
        "Quantize<u8>" => {
            let vals: Vec<f32> = (0..n).map(|i| ((i * 11) % 301) as f32 * 0.5 - 20.0).collect();
            let g = GuardBuf::from_slice_at(&vals, place);
            let mut dst = GuardBuf::<u8>::new_at(n, place);
            let out = vm::Quantize::new(g.as_slice(), dst.as_uninit_mut(), 2.0, 3u8).dispatch().to_vec();
            for i in 0..n {
                let e = ((vals[i] * 2.0).round_ties_even() as i64 + 3).clamp(0, 255) as u8;
                if out[i] != e {
                    return Err(format!("Quantize<u8>(inv_scale 2, zp 3) len {n}: out[{i}] = {} for {} expected {e}", out[i], vals[i]));
                }
            }
            canary(&dst, "destination")
        }
        "F16ToF32" => {
            let hs: Vec<f16> = (0..n).map(|i| f16::from_bits(((i * 977 + 13) % 0x7c00) as u16 | if i % 2 == 0 { 0 } else { 0x8000 })).collect();
            let g = GuardBuf::from_slice_at(&hs, place);
            let mut dst = GuardBuf::<f32>::new_at(n, place);
            let out = vm::F16ToF32::new(g.as_slice(), dst.as_uninit_mut()).dispatch().to_vec();
            for i in 0..n {
                let e = ref_f16_to_f32(hs[i].to_bits());
                if out[i].to_bits() != e.to_bits() {
                    return Err(format!("F16ToF32 len {n}: out[{i}] = {:e} expected {:e}", out[i], e));
                }
            }
            canary(&dst, "destination")
        }
        "F32ToF16" => {
            let vals: Vec<f32> = (0..n).map(|i| fval(i) * 1.0009766 + (i as f32) * 3.0517578e-5).collect();
            let g = GuardBuf::from_slice_at(&vals, place);
            let mut dst = GuardBuf::<f16>::new_at(n, place);
            let out = vm::F32ToF16::new(g.as_slice(), dst.as_uninit_mut()).dispatch().to_vec();
            for i in 0..n {
                let e = ref_f32_to_f16(vals[i]);
                if out[i].to_bits() != e {
                    return Err(format!("F32ToF16 len {n}: out[{i}] = 0x{:04x} for {:e} expected 0x{e:04x}", out[i].to_bits(), vals[i]));
                }
            }
            canary(&dst, "destination")
        }
        _ => Err(format!("unknown vecmath routine {routine}")),
    }
}

/// Run one (routine, len) on the currently forced ISA.
pub fn run_one(routine: &str, n: usize, place: Placement, f32_lanes: usize) -> Result<(), String> {
    if routine == "selftest::stray_read" {
        // detection-power self test: one element beyond the guarded side must fault
        let g = GuardBuf::<f32>::new_at(n, place);
        let p = g.as_slice().as_ptr();
        let v = unsafe {
            match place {
                Placement::EndGuard => std::ptr::read_volatile(p.add(n)),
                Placement::StartGuard => std::ptr::read_volatile(p.sub(1)),
            }
        };
        return Err(format!("stray read returned {v} without a fault"));
    }
    if routine == "selftest::stray_write" {
        // one byte written on the canary side must be noticed
        let mut g = GuardBuf::<f32>::new_at(n, place);
        let p = g.as_mut_slice().as_mut_ptr();
        unsafe {
            match place {
                Placement::EndGuard => std::ptr::write_volatile((p as *mut u8).sub(1), 0),
                Placement::StartGuard => std::ptr::write_volatile(p.add(n) as *mut u8, 0),
            }
        }
        return canary(&g, "selftest");
    }
    if let Some(r) = routine.strip_prefix("vecmath::") {
        return vecmath_tail(r, n, place, f32_lanes);
    }
    let (r, elem) = routine.split_once('<').unwrap_or((routine, ""));
    PrimTail { routine: r.to_string(), elem: elem.trim_end_matches('>').to_string(), len: n, place }.dispatch()
}

/// Vector width (in elements) relevant for the routine, given f32 lanes.
pub fn width_of(routine: &str, f32_lanes: usize) -> usize {
    if routine.contains("<i8>") || routine.contains("<u8>") || routine.contains("Quantize") {
        f32_lanes * 4
    } else if routine.contains("<i16>") || routine.contains("<u16>") || routine.contains("<f16>") || routine.contains("F16") {
        f32_lanes * 2
    } else {
        f32_lanes
    }
}

/// Worker loop: one request = one (isa, routine, placement, start_len..=max_len).
pub fn worker_main() -> ! {
    util::install_segv_reporter();
    let isas = util::available_isas();
    vp_core::isolate::worker_loop(move |case: &Json| {
        let isa_name = case["isa"].as_str().unwrap_or("");
        let Some(isa) = isas.iter().find(|i| i.name == isa_name) else {
            return json!({"error": "isa not available"});
        };
        util::force(isa);
        let routine = case["routine"].as_str().unwrap_or("").to_string();
        let place = if case["placement"].as_str() == Some("start-guard") { Placement::StartGuard } else { Placement::EndGuard };
        let start = case["start_len"].as_u64().unwrap_or(0) as usize;
        let max = case["max_len"].as_u64().unwrap_or(0) as usize;
        let mut failures = Vec::new();
        let mut panics = Vec::new();
        let mut done = 0u64;
        let (mut n_fail, mut n_panic) = (0u64, 0u64);
        for n in start..=max {
            util::set_case_desc(&format!("{{\"isa\":\"{}\",\"routine\":\"{}\",\"placement\":\"{}\",\"len\":{}}}", isa.name, routine, case["placement"].as_str().unwrap_or("end-guard"), n));
            match vp_core::catch(|| run_one(&routine, n, place, isa.f32_lanes)) {
                Ok(Ok(())) => {}
                Ok(Err(e)) => {
                    n_fail += 1;
                    if failures.len() < 4 {
                        failures.push(json!({"len": n, "detail": e}));
                    }
                }
                Err(p) => {
                    n_panic += 1;
                    if panics.len() < 4 {
                        panics.push(json!({"len": n, "panic": p}));
                    }
                }
            }
            done += 1;
        }
        json!({"done": done, "failures": failures, "panics": panics, "n_fail": n_fail, "n_panic": n_panic})
    })
}
