//! C19 — Vectorized math functions meet their documented accuracy.
//!
//! Box (thorough): every one of the 2^32 f32 bit patterns, per function, per
//! ISA reachable through `rten_simd::dispatch` on this machine.
//! Box (quick): the complete sub-lattice "low 8 mantissa bits zero" (2^24
//! patterns) plus a +-2^15 window around every range-reduction cut-off and a
//! +-256 window around every binade boundary.
//! Oracle: the reference each bound is documented against (`f32::exp`,
//! `1/(1+exp(-x))`, `f32::tanh`, `libm::erff`, `f32::sin`, `f32::cos`), compared
//! with the crate's own metric (rten-vecmath/src/{ulp,testing}.rs re-implemented
//! in `util::ulp_f32` / `judge`).

use std::collections::BTreeMap;
use std::mem::MaybeUninit;

use rten_simd::{SimdOp, SimdUnaryOp};
use vp_core::{Ctx, Json, Samples, json};

use crate::util::{self, IsaSel, f32_json, ulp_f32};

#[derive(Clone, Copy, Debug, PartialEq, Eq, PartialOrd, Ord)]
enum Func {
    Exp,
    Sigmoid,
    Tanh,
    Erf,
    Sin,
    Cos,
    // measured only (not named in the property statement)
    Gelu,
    ApproxGelu,
    Silu,
    Swish,
    Elu,
}

const VERDICT_FUNCS: [Func; 6] = [Func::Exp, Func::Sigmoid, Func::Tanh, Func::Erf, Func::Sin, Func::Cos];
const OBSERVED_FUNCS: [Func; 5] = [Func::Gelu, Func::ApproxGelu, Func::Silu, Func::Swish, Func::Elu];

const SWISH_ALPHA: f32 = 1.7;
const ELU_ALPHA: f32 = 0.5;
/// rten-vecmath/src/sin_cos.rs LARGE_THRESHOLD
const SINCOS_LARGE: f32 = 48_000.0;

#[derive(Clone, Copy, Debug)]
enum Contract {
    /// max error in ULPs of the reference (crate metric), for every input
    Ulp(f32),
    /// max absolute error, for every input
    Abs(f32),
    /// absolute bound below the large-input threshold, bit-exact std result at or above it
    AbsThenExact(f32),
    /// no verdict: measured on |x| <= 6 (range of the in-tree tests), `true` = ULP metric
    Observe(bool, f32),
}

impl Func {
    fn name(self) -> &'static str {
        match self {
            Func::Exp => "Exp",
            Func::Sigmoid => "Sigmoid",
            Func::Tanh => "Tanh",
            Func::Erf => "Erf",
            Func::Sin => "Sin",
            Func::Cos => "Cos",
            Func::Gelu => "Gelu",
            Func::ApproxGelu => "ApproxGelu",
            Func::Silu => "Silu",
            Func::Swish => "Swish(alpha=1.7)",
            Func::Elu => "Elu(alpha=0.5)",
        }
    }

    fn from_name(s: &str) -> Option<Func> {
        VERDICT_FUNCS.iter().chain(OBSERVED_FUNCS.iter()).copied().find(|f| f.name() == s)
    }

    fn reference_name(self) -> &'static str {
        match self {
            Func::Exp => "f32::exp",
            Func::Sigmoid => "1/(1+f32::exp(-x))",
            Func::Tanh => "f32::tanh",
            Func::Erf => "libm::erff",
            Func::Sin => "f32::sin",
            Func::Cos => "f32::cos",
            Func::Gelu => "0.5x(1+libm::erff(x/sqrt2))",
            Func::ApproxGelu => "tanh formula (f32)",
            Func::Silu => "x*sigmoid(x)",
            Func::Swish => "x*sigmoid(1.7x)",
            Func::Elu => "x>=0?x:0.5(exp(x)-1)",
        }
    }

    /// The documented contract: doc comments of the op structs and the
    /// constants of the in-tree (ignored) exhaustive tests.
    fn contract(self) -> Contract {
        match self {
            // exp.rs:29 "maximum error of 1 ULP compared to f32::exp"
            Func::Exp => Contract::Ulp(1.0),
            // exp.rs:196 "maximum error of 4 ULPs compared to ... 1/(1+exp(-x))"
            Func::Sigmoid => Contract::Ulp(4.0),
            // tanh.rs MAX_TANH_ERROR_ULPS = 3.0 (test_tanh_exhaustive over AllF32s)
            Func::Tanh => Contract::Ulp(3.0),
            // erf.rs:18 "maximum absolute error of 6.631017e-7 ... libm::erff"
            Func::Erf => Contract::Abs(6.631017e-7),
            // sin_cos.rs test_sin_exhaustive: 3e-7 on [-48000, 48000]; std fallback beyond
            Func::Sin => Contract::AbsThenExact(3e-7),
            // sin_cos.rs test_cos_exhaustive: 5e-7
            Func::Cos => Contract::AbsThenExact(5e-7),
            Func::Gelu => Contract::Observe(false, 6.631017e-7),
            Func::ApproxGelu => Contract::Observe(false, 5e-7),
            Func::Silu => Contract::Observe(true, 4.0),
            Func::Swish => Contract::Observe(true, 4.0),
            Func::Elu => Contract::Observe(true, 1.0),
        }
    }

    fn apply(self, buf: &mut [f32]) {
        use rten_vecmath as vm;
        match self {
            Func::Exp => vm::Exp {}.map_mut(buf),
            Func::Sigmoid => vm::Sigmoid {}.map_mut(buf),
            Func::Tanh => vm::Tanh {}.map_mut(buf),
            Func::Erf => vm::Erf {}.map_mut(buf),
            Func::Sin => vm::Sin::new().map_mut(buf),
            Func::Cos => vm::Cos::new().map_mut(buf),
            Func::Gelu => vm::Gelu {}.map_mut(buf),
            Func::ApproxGelu => vm::ApproxGelu {}.map_mut(buf),
            Func::Silu => vm::Silu {}.map_mut(buf),
            Func::Swish => vm::Swish { alpha: SWISH_ALPHA }.map_mut(buf),
            Func::Elu => vm::Elu { alpha: ELU_ALPHA }.map_mut(buf),
        }
    }

    #[inline]
    fn reference(self, x: f32) -> f32 {
        fn sigmoid(x: f32) -> f32 {
            1. / (1. + (-x).exp())
        }
        match self {
            Func::Exp => x.exp(),
            Func::Sigmoid => sigmoid(x),
            Func::Tanh => x.tanh(),
            Func::Erf => libm::erff(x),
            Func::Sin => x.sin(),
            Func::Cos => x.cos(),
            Func::Gelu => 0.5 * x * (1. + libm::erff(x / (2.0f32).sqrt())),
            Func::ApproxGelu => {
                let x_cubed = x * x * x;
                let t = ((2.0f32 / std::f32::consts::PI).sqrt() * (x + 0.044715 * x_cubed)).tanh();
                0.5 * x * (1. + t)
            }
            Func::Silu => x * sigmoid(x),
            Func::Swish => x * sigmoid(SWISH_ALPHA * x),
            Func::Elu => {
                if x >= 0. {
                    x
                } else {
                    ELU_ALPHA * (x.exp() - 1.)
                }
            }
        }
    }
}

impl Func {
    /// The mathematically exact value, computed in f64 (glibc double
    /// functions, < 1 ULP of f64). Used only to tell an rten error from a
    /// few-ULP inaccuracy of this image's f32 libm (DESIGN C19 risk note).
    fn truth(self, x: f32) -> f64 {
        let x = x as f64;
        match self {
            Func::Exp => x.exp(),
            Func::Sigmoid => 1.0 / (1.0 + (-x).exp()),
            Func::Tanh => x.tanh(),
            Func::Erf => libm::erf(x),
            Func::Sin => x.sin(),
            Func::Cos => x.cos(),
            _ => f64::NAN,
        }
    }

    /// Does `actual` meet the numeric bound when measured against the exact value?
    fn within_bound_of_truth(self, x: f32, actual: f32) -> bool {
        let t = self.truth(x);
        if t.is_nan() || !actual.is_finite() {
            return false;
        }
        let d = (actual as f64 - t).abs();
        match self.contract() {
            Contract::Ulp(b) => {
                let r = t as f32;
                r.is_finite() && d / (ulp_f32(r) as f64) <= b as f64
            }
            Contract::Abs(b) | Contract::AbsThenExact(b) => d <= b as f64,
            Contract::Observe(..) => false,
        }
    }
}

/// Applies a unary op to a buffer with `functional::simd_map` on an explicitly
/// chosen ISA - exactly what `SimdUnaryOp::map_mut` does after `dispatch` has
/// picked the ISA. Needs no process-wide state, so one reference evaluation
/// can be shared by all ISAs.
struct DirectMap<'a> {
    func: Func,
    buf: &'a mut [f32],
}

#[inline(always)]
fn map_with<I: rten_simd::Isa, Op: SimdUnaryOp<f32>>(isa: I, op: Op, buf: &mut [f32]) {
    rten_simd::functional::simd_map(
        isa.f32(),
        buf,
        #[inline(always)]
        |x| op.eval(isa, x),
    );
}

impl SimdOp for DirectMap<'_> {
    type Output = ();
    #[inline(always)]
    fn eval<I: rten_simd::Isa>(self, isa: I) {
        use rten_vecmath as vm;
        match self.func {
            Func::Exp => map_with(isa, vm::Exp {}, self.buf),
            Func::Sigmoid => map_with(isa, vm::Sigmoid {}, self.buf),
            Func::Tanh => map_with(isa, vm::Tanh {}, self.buf),
            Func::Erf => map_with(isa, vm::Erf {}, self.buf),
            Func::Sin => map_with(isa, vm::Sin::new(), self.buf),
            Func::Cos => map_with(isa, vm::Cos::new(), self.buf),
            Func::Gelu => map_with(isa, vm::Gelu {}, self.buf),
            Func::ApproxGelu => map_with(isa, vm::ApproxGelu {}, self.buf),
            Func::Silu => map_with(isa, vm::Silu {}, self.buf),
            Func::Swish => map_with(isa, vm::Swish { alpha: SWISH_ALPHA }, self.buf),
            Func::Elu => map_with(isa, vm::Elu { alpha: ELU_ALPHA }, self.buf),
        }
    }
}

// same target features as rten_simd::dispatch enables for each ISA
#[target_feature(enable = "avx512f")]
#[target_feature(enable = "avx512vl")]
#[target_feature(enable = "avx512bw")]
#[target_feature(enable = "avx512dq")]
#[target_feature(enable = "f16c")]
unsafe fn run_avx512<Op: SimdOp>(isa: impl rten_simd::Isa, op: Op) -> Op::Output {
    op.eval(isa)
}

#[target_feature(enable = "avx2")]
#[target_feature(enable = "avx")]
#[target_feature(enable = "fma")]
#[target_feature(enable = "f16c")]
unsafe fn run_avx2<Op: SimdOp>(isa: impl rten_simd::Isa, op: Op) -> Op::Output {
    op.eval(isa)
}

impl Func {
    /// `lanes` = f32 lanes of the ISA: 16 AVX-512, 8 AVX2, 4 generic.
    fn apply_direct(self, lanes: usize, buf: &mut [f32]) {
        let op = DirectMap { func: self, buf };
        match lanes {
            16 => match rten_simd::isa::Avx512Isa::new() {
                Some(isa) => unsafe { run_avx512(isa, op) },
                None => vp_core::machinery_error("AVX-512 not available"),
            },
            8 => match rten_simd::isa::Avx2Isa::new() {
                Some(isa) => unsafe { run_avx2(isa, op) },
                None => vp_core::machinery_error("AVX2 not available"),
            },
            _ => op.eval(rten_simd::isa::GenericIsa::new()),
        }
    }
}

#[derive(Clone, Copy, Debug, PartialEq, Eq, PartialOrd, Ord)]
enum Kind {
    Bound,
    NanMismatch,
    InfMismatch,
    NotExactFallback,
    ZeroSign,
}

impl Kind {
    fn text(self) -> &'static str {
        match self {
            Kind::Bound => "error exceeds documented bound",
            Kind::NanMismatch => "NaN-ness differs from reference",
            Kind::InfMismatch => "infinity differs from reference",
            Kind::NotExactFallback => "large-input fallback differs from std result",
            Kind::ZeroSign => "sign of zero result differs from reference for signed-zero/infinite input",
        }
    }
}

/// Result of comparing one value: (error in the contract's unit, violation kind).
#[inline]
fn judge(func: Func, contract: Contract, x: f32, actual: f32, expected: f32) -> (f32, Option<Kind>) {
    let special_in = x == 0.0 || x.is_infinite();
    match contract {
        Contract::Ulp(bound) | Contract::Observe(true, bound) => {
            if actual == expected {
                // crate fast path; on top: signed zero for special inputs
                if special_in
                    && expected == 0.0
                    && actual.is_sign_negative() != expected.is_sign_negative()
                    && matches!(contract, Contract::Ulp(_))
                {
                    return (0.0, Some(Kind::ZeroSign));
                }
                return (0.0, None);
            }
            if actual.is_nan() != expected.is_nan() {
                return (f32::INFINITY, Some(Kind::NanMismatch));
            }
            if actual.is_nan() {
                return (0.0, None);
            }
            if actual.is_infinite() || expected.is_infinite() {
                // not equal and at least one infinite
                return (f32::INFINITY, Some(Kind::InfMismatch));
            }
            let diff = (actual - expected).abs();
            let ulps = diff / ulp_f32(expected);
            let _ = func;
            if ulps <= bound { (ulps, None) } else { (ulps, Some(Kind::Bound)) }
        }
        Contract::Abs(bound) | Contract::Observe(false, bound) => {
            if actual.is_nan() && expected.is_nan() {
                return (0.0, None);
            }
            if actual == expected {
                return (0.0, None);
            }
            if actual.is_nan() != expected.is_nan() {
                return (f32::INFINITY, Some(Kind::NanMismatch));
            }
            let diff = (actual - expected).abs();
            if diff <= bound { (diff, None) } else { (diff, Some(Kind::Bound)) }
        }
        Contract::AbsThenExact(bound) => {
            if x.abs() >= SINCOS_LARGE {
                let same = actual.to_bits() == expected.to_bits() || (actual.is_nan() && expected.is_nan());
                return if same { (0.0, None) } else { ((actual - expected).abs(), Some(Kind::NotExactFallback)) };
            }
            judge(func, Contract::Abs(bound), x, actual, expected)
        }
    }
}

/// A run of bit patterns `start + i*stride`, i in 0..count.
#[derive(Clone, Copy, Debug)]
struct Segment {
    start: u32,
    count: u64,
    stride: u32,
}

#[derive(Clone, Debug, Default)]
struct Stats {
    evals: u64,
    /// inputs whose reference value is finite (numeric comparison performed)
    numeric: u64,
    exact: u64,
    max_err: f32,
    argmax_bits: u32,
    /// histogram of error / bound: [0, (0,0.25], (0.25,0.5], (0.5,1], >1]
    hist: [u64; 5],
    violations: u64,
    /// inputs that exceed the bound against this image's f32 libm but meet it
    /// against the exact value (libm artefacts, not counted as violations)
    libm_artefacts: u64,
    libm_artefact_example: u32,
    /// first violating input in enumeration order per kind
    first: BTreeMap<Kind, (u32, f32, f32, f32)>,
    viol_by_kind: BTreeMap<Kind, u64>,
}

impl Stats {
    fn merge(&mut self, o: &Stats) {
        self.evals += o.evals;
        self.numeric += o.numeric;
        self.exact += o.exact;
        if o.max_err > self.max_err {
            self.max_err = o.max_err;
            self.argmax_bits = o.argmax_bits;
        }
        for i in 0..5 {
            self.hist[i] += o.hist[i];
        }
        self.violations += o.violations;
        if self.libm_artefacts == 0 {
            self.libm_artefact_example = o.libm_artefact_example;
        }
        self.libm_artefacts += o.libm_artefacts;
        for (k, v) in &o.first {
            self.first.entry(*k).or_insert(*v);
        }
        for (k, v) in &o.viol_by_kind {
            *self.viol_by_kind.entry(*k).or_insert(0) += v;
        }
    }
}

const CHUNK: usize = 1 << 14;

/// How the op is applied: through the real `dispatch` (whatever ISA is
/// currently forced) or directly on the ISA with the given lane count.
#[derive(Clone, Copy, Debug, PartialEq)]
enum Via {
    Dispatch,
    Direct(usize),
}

fn eval_segment(func: Func, contract: Contract, seg: Segment, observe_domain_only: bool, skip_lattice: bool) -> Stats {
    eval_segment_multi(func, contract, seg, observe_domain_only, skip_lattice, &[Via::Dispatch]).remove(0)
}

/// Evaluate one segment on several ISAs; the reference value of each input is
/// computed once and shared.
fn eval_segment_multi(func: Func, contract: Contract, seg: Segment, observe_domain_only: bool, skip_lattice: bool, vias: &[Via]) -> Vec<Stats> {
    let mut stats: Vec<Stats> = vias.iter().map(|_| Stats::default()).collect();
    let mut input = vec![0f32; CHUNK];
    let mut expected = vec![0f32; CHUNK];
    let mut actual = vec![0f32; CHUNK];
    let bound = match contract {
        Contract::Ulp(b) | Contract::Abs(b) | Contract::AbsThenExact(b) | Contract::Observe(_, b) => b,
    };
    let mut done: u64 = 0;
    while done < seg.count {
        let n = ((seg.count - done) as usize).min(CHUNK);
        let mut m = 0usize;
        for i in 0..n {
            let bits = seg.start.wrapping_add(((done + i as u64) as u32).wrapping_mul(seg.stride));
            let x = f32::from_bits(bits);
            if observe_domain_only && !(x.abs() <= 6.0) {
                continue;
            }
            if skip_lattice && seg.stride == 1 && bits & 0xff == 0 {
                continue;
            }
            input[m] = x;
            m += 1;
        }
        done += n as u64;
        if m == 0 {
            continue;
        }
        for i in 0..m {
            expected[i] = func.reference(input[i]);
        }
        for (vi, via) in vias.iter().enumerate() {
            let st = &mut stats[vi];
            actual[..m].copy_from_slice(&input[..m]);
            match via {
                Via::Dispatch => func.apply(&mut actual[..m]),
                Via::Direct(lanes) => func.apply_direct(*lanes, &mut actual[..m]),
            }
            for i in 0..m {
                let x = input[i];
                let a = actual[i];
                let e = expected[i];
                st.evals += 1;
                if a.to_bits() == e.to_bits() {
                    // bit-identical to the reference: nothing to judge
                    if e.is_finite() {
                        st.numeric += 1;
                    }
                    st.exact += 1;
                    st.hist[0] += 1;
                    continue;
                }
                let (err, mut kind) = judge(func, contract, x, a, e);
                if kind == Some(Kind::Bound) && !matches!(contract, Contract::Observe(..)) && func.within_bound_of_truth(x, a) {
                    // exceeds the bound only relative to this image's f32 libm
                    if st.libm_artefacts == 0 {
                        st.libm_artefact_example = x.to_bits();
                    }
                    st.libm_artefacts += 1;
                    kind = None;
                }
                if e.is_finite() {
                    st.numeric += 1;
                }
                if err == 0.0 && kind.is_none() {
                    st.exact += 1;
                    st.hist[0] += 1;
                } else {
                    let r = err / bound;
                    let slot = if r <= 0.25 {
                        1
                    } else if r <= 0.5 {
                        2
                    } else if r <= 1.0 {
                        3
                    } else {
                        4
                    };
                    st.hist[slot] += 1;
                    if err.is_finite() && err > st.max_err {
                        st.max_err = err;
                        st.argmax_bits = x.to_bits();
                    }
                }
                if let Some(k) = kind {
                    st.violations += 1;
                    *st.viol_by_kind.entry(k).or_insert(0) += 1;
                    st.first.entry(k).or_insert((x.to_bits(), a, e, err));
                }
            }
        }
    }
    stats
}

/// Cut-offs used by the implementations (and a few classic constants); the
/// quick tier covers a +-2^15 window of bit patterns around each, both signs.
fn cutoffs() -> Vec<f32> {
    let ln2 = std::f32::consts::LN_2;
    vec![
        0.0004,                 // tanh x_tiny
        0.55,                   // tanh x_small
        9.02,                   // tanh saturation
        -126.5 * ln2 * -1.0 - 0.01, // |EXP_LOWER_CUTOFF| = 126.5 ln2 - 0.01
        88.72284,               // ln(f32::MAX): exp overflow
        87.33655,               // ln(2^126)
        103.97208,              // exp underflow to zero
        104.0,                  // Exp over/underflow mask
        SINCOS_LARGE,           // sin/cos fallback
        ln2 / 2.0,
        ln2,
        1.0,
        std::f32::consts::FRAC_PI_2,
        std::f32::consts::PI,
        2.0 * std::f32::consts::PI,
        6.0,
    ]
}

fn quick_segments() -> Vec<Segment> {
    // stride-1 windows, merged so that no pattern is evaluated twice; lattice
    // points inside the windows are skipped there (`skip_lattice`), they are
    // covered by the lattice segment.
    let mut iv: Vec<(u64, u64)> = Vec::new();
    let mut add = |centre: u32, half: u64| {
        let lo = centre as i64 - half as i64;
        let hi = centre as i64 + half as i64;
        let lo = lo.max(0) as u64;
        let hi = (hi as u64).min(1u64 << 32);
        iv.push((lo, hi));
    };
    for c in cutoffs() {
        for sign in [0u32, 0x8000_0000] {
            add(c.to_bits() | sign, 1 << 15);
        }
    }
    // windows around every binade boundary (including 0/subnormal, inf/NaN edges)
    for e in 0u32..=255 {
        for sign in [0u32, 0x8000_0000] {
            add((e << 23) | sign, 256);
        }
    }
    add(0xffff_ffff, 256);
    iv.sort();
    let mut merged: Vec<(u64, u64)> = Vec::new();
    for (lo, hi) in iv {
        match merged.last_mut() {
            Some(last) if lo <= last.1 => last.1 = last.1.max(hi),
            _ => merged.push((lo, hi)),
        }
    }
    let mut segs = Vec::new();
    // complete sub-lattice: low 8 mantissa bits zero
    segs.push(Segment { start: 0, count: 1 << 24, stride: 256 });
    for (lo, hi) in merged {
        segs.push(Segment { start: lo as u32, count: hi - lo, stride: 1 });
    }
    segs
}

/// Below-threshold neighbours of the sin/cos fallback threshold, evaluated in
/// a buffer of their own so that no lane of their vector is "large" (the
/// implementation switches a whole vector to the std fallback if any lane is).
fn sincos_isolated_segments() -> Vec<Segment> {
    let t = SINCOS_LARGE.to_bits();
    vec![
        Segment { start: t - 256, count: 256, stride: 1 },
        Segment { start: (t | 0x8000_0000) - 256, count: 256, stride: 1 },
    ]
}

fn split(segs: &[Segment], max_items: u64) -> Vec<Segment> {
    let mut out = Vec::new();
    for s in segs {
        let mut off = 0u64;
        while off < s.count {
            let n = (s.count - off).min(max_items);
            out.push(Segment {
                start: s.start.wrapping_add((off as u32).wrapping_mul(s.stride)),
                count: n,
                stride: s.stride,
            });
            off += n;
        }
    }
    out
}

fn run_func(func: Func, segs: &[Segment], observe_only_domain: bool, skip_lattice: bool) -> Stats {
    let contract = func.contract();
    let items = split(segs, 1 << 21);
    let parts = vp_core::par::map(items.len(), |i| eval_segment(func, contract, items[i], observe_only_domain, skip_lattice));
    let mut total = Stats::default();
    for p in &parts {
        total.merge(p);
    }
    total
}

fn run_func_multi(func: Func, segs: &[Segment], observe_only_domain: bool, skip_lattice: bool, vias: &[Via]) -> Vec<Stats> {
    let contract = func.contract();
    let items = split(segs, 1 << 21);
    let parts = vp_core::par::map(items.len(), |i| eval_segment_multi(func, contract, items[i], observe_only_domain, skip_lattice, vias));
    let mut total: Vec<Stats> = vias.iter().map(|_| Stats::default()).collect();
    for p in &parts {
        for (t, s) in total.iter_mut().zip(p) {
            t.merge(s);
        }
    }
    total
}

fn special_inputs() -> Vec<u32> {
    vec![
        0x0000_0000, 0x8000_0000, // +-0
        0x7f80_0000, 0xff80_0000, // +-inf
        0x7fc0_0000, 0xffc0_0000, 0x7f80_0001, 0x7fff_ffff, 0xffff_ffff, // NaNs
        0x0000_0001, 0x8000_0001, 0x007f_ffff, 0x807f_ffff, // subnormals
        0x0080_0000, 0x8080_0000, // MIN_POSITIVE
        0x7f7f_ffff, 0xff7f_ffff, // MAX
    ]
}

fn case_json(func: Func, isa: &str, bits: u32) -> Json {
    json!({"function": func.name(), "isa": isa, "input_bits": format!("0x{bits:08x}"), "input": format!("{:e}", f32::from_bits(bits))})
}

fn signature(func: Func, kind: Kind, isa: &str, worst: f32) -> String {
    // how far beyond the bound the worst input of this function on this ISA lies: part of
    // the signature, so that a known finding covers its own magnitude class only
    let bound = match func.contract() {
        Contract::Ulp(b) | Contract::Abs(b) | Contract::AbsThenExact(b) | Contract::Observe(_, b) => b,
    };
    let excess = if !(worst / bound).is_finite() || worst / bound > 4.0 {
        "worst error more than 4x the bound"
    } else if worst / bound > 2.0 {
        "worst error within 4x of the bound"
    } else if worst / bound > 1.25 {
        "worst error within 2x of the bound"
    } else {
        "worst error within 1.25x of the bound"
    };
    let contract = match func.contract() {
        Contract::Ulp(b) => format!("<= {b} ULP"),
        Contract::Abs(b) => format!("abs <= {b:e}"),
        Contract::AbsThenExact(b) => format!("abs <= {b:e} below 48000, exact std beyond"),
        Contract::Observe(..) => "observe".into(),
    };
    match kind {
        // arithmetic-independent logic: do not split by ISA
        Kind::ZeroSign | Kind::NanMismatch | Kind::NotExactFallback => {
            format!("vecmath {}: {} (reference {})", func.name(), kind.text(), func.reference_name())
        }
        Kind::Bound => format!(
            "vecmath {}: {} ({} vs {}) on {} [{}]",
            func.name(),
            kind.text(),
            contract,
            func.reference_name(),
            util::isa_class(isa),
            excess
        ),
        _ => format!(
            "vecmath {}: {} ({} vs {}) on {}",
            func.name(),
            kind.text(),
            contract,
            func.reference_name(),
            util::isa_class(isa)
        ),
    }
}

fn report(ctx: &Ctx, func: Func, isa: &IsaSel, st: &Stats) {
    for (kind, (bits, a, e, err)) in &st.first {
        let n = st.viol_by_kind.get(kind).copied().unwrap_or(1);
        let sig = signature(func, *kind, isa.name, st.max_err);
        let detail = format!(
            "{}({:e} = 0x{:08x}) on isa {}: rten = {:e} (0x{:08x}), reference {} = {:e} (0x{:08x}), error = {} ({}); {} input(s) of this kind on this isa",
            func.name(),
            f32::from_bits(*bits),
            bits,
            isa.name,
            a,
            a.to_bits(),
            func.reference_name(),
            e,
            e.to_bits(),
            err,
            match func.contract() {
                Contract::Ulp(_) => "ULPs of reference",
                _ => "absolute",
            },
            n
        );
        // one violation call per violating input (capped: the exact count is in the detail text and the evidence)
        for _ in 0..n.min(10_000) {
            ctx.violation(sig.clone(), case_json(func, isa.name, *bits), detail.clone());
        }
    }
}

// ---------------------------------------------------------------------------
// softmax family
// ---------------------------------------------------------------------------

fn softmax_fills(n: usize) -> Vec<(String, Vec<f32>)> {
    let ninf = f32::NEG_INFINITY;
    let base = [ninf, -100.0f32, -1.0, 0.0, 1.0, 100.0];
    let hot = [ninf, -100.0f32, -1.0, 0.0, 1.0, 100.0, f32::INFINITY];
    let mut out = Vec::new();
    for v in base {
        out.push((format!("const({v})"), vec![v; n]));
    }
    for (ai, a) in base.iter().enumerate() {
        for (bi, b) in base.iter().enumerate() {
            if ai != bi && n >= 2 {
                out.push((format!("alt({a},{b})"), (0..n).map(|i| if i % 2 == 0 { *a } else { *b }).collect()));
            }
        }
    }
    for h in hot {
        for b in base {
            if h == b {
                continue;
            }
            for pos in 0..n {
                if n < 2 {
                    continue;
                }
                let mut v = vec![b; n];
                v[pos] = h;
                out.push((format!("onehot(hot={h},bg={b},pos={pos})"), v));
            }
        }
    }
    if n == 1 {
        out.push(("single(+inf)".into(), vec![f32::INFINITY]));
    }
    out
}

fn softmax_ref(xs: &[f32]) -> Vec<f64> {
    let m = xs.iter().fold(f64::NEG_INFINITY, |m, x| m.max(*x as f64));
    let e: Vec<f64> = xs.iter().map(|x| (*x as f64 - m).exp()).collect();
    let s: f64 = e.iter().sum();
    e.iter().map(|v| v / s).collect()
}

struct SoftmaxCounts {
    cases: u64,
    reached: u64,
    ref_nan_cases: u64,
    max_sum_dev: f64,
    max_abs_dev: f64,
    logsoftmax_bad: u64,
    max_log_sum_dev: f64,
}

fn softmax_checks(ctx: &Ctx, isa: &IsaSel, max_len: usize, samples: &Samples) -> SoftmaxCounts {
    let mut c = SoftmaxCounts {
        cases: 0,
        reached: 0,
        ref_nan_cases: 0,
        max_sum_dev: 0.0,
        max_abs_dev: 0.0,
        logsoftmax_bad: 0,
        max_log_sum_dev: 0.0,
    };
    for n in 0..=max_len {
        for (name, xs) in softmax_fills(n) {
            let r = softmax_ref(&xs);
            let ref_nan = r.iter().any(|v| v.is_nan());
            for variant in ["out-of-place", "in-place", "flush-nans"] {
                c.cases += 1;
                let mut out = vec![MaybeUninit::<f32>::uninit(); n];
                let mut inplace = xs.clone();
                let res = vp_core::catch(|| -> Vec<f32> {
                    match variant {
                        "out-of-place" => rten_vecmath::Softmax::new(&xs, &mut out).dispatch().to_vec(),
                        "in-place" => rten_vecmath::Softmax::new_mut(&mut inplace).dispatch().to_vec(),
                        _ => rten_vecmath::Softmax::new(&xs, &mut out).flush_nans_to_zero(true).dispatch().to_vec(),
                    }
                });
                let case = json!({"op": "Softmax", "variant": variant, "isa": isa.name, "len": n, "fill": name,
                    "input_bits": xs.iter().map(|x| x.to_bits()).collect::<Vec<_>>()});
                let ys = match res {
                    Ok(y) => y,
                    Err(p) => {
                        ctx.observe(&format!("Softmax panicked ({variant}): {p}"));
                        continue;
                    }
                };
                if ys.len() != n {
                    ctx.violation(
                        "vecmath Softmax: output length differs from input length",
                        case,
                        format!("len {} vs {}", ys.len(), n),
                    );
                    continue;
                }
                if variant == "flush-nans" {
                    if let Some(i) = ys.iter().position(|y| y.is_nan()) {
                        ctx.violation(
                            "vecmath Softmax: flush_nans_to_zero(true) leaves a NaN in the output",
                            case.clone(),
                            format!("output[{i}] is NaN; input {xs:?}"),
                        );
                    }
                }
                if ref_nan {
                    c.ref_nan_cases += 1;
                    if variant != "flush-nans" && ys.iter().any(|y| !y.is_nan()) && n > 0 {
                        ctx.observe("Softmax: reference is NaN (all -inf or a +inf input) but rten output has non-NaN elements");
                    }
                    continue;
                }
                if n == 0 {
                    continue;
                }
                c.reached += 1;
                let sum: f64 = ys.iter().map(|y| *y as f64).sum();
                let bad_el = ys.iter().position(|y| !(y.is_finite() && *y >= 0.0));
                if let Some(i) = bad_el {
                    ctx.violation(
                        format!("vecmath Softmax: output element negative/NaN/infinite where the reference softmax is finite ({variant})"),
                        case.clone(),
                        format!("isa {} len {n} fill {name}: output[{i}] = {:e}, reference {:e}", isa.name, ys[i], r[i]),
                    );
                    continue;
                }
                let dev = (sum - 1.0).abs();
                if dev > c.max_sum_dev {
                    c.max_sum_dev = dev;
                }
                if dev > 1e-5 {
                    ctx.violation(
                        format!("vecmath Softmax: outputs do not sum to 1 within 1e-5 ({variant})"),
                        case.clone(),
                        format!("isa {} len {n} fill {name}: sum = {sum}", isa.name),
                    );
                }
                for i in 0..n {
                    let d = (ys[i] as f64 - r[i]).abs();
                    if d > c.max_abs_dev {
                        c.max_abs_dev = d;
                    }
                }
                if n == 5 && variant == "out-of-place" {
                    samples.push(|| json!({"softmax_case": case, "output": ys, "sum": sum}));
                }
            }
            // LogSoftmax: observation only (not named in the statement)
            if !ref_nan && n > 0 {
                let mut out = vec![MaybeUninit::<f32>::uninit(); n];
                if let Ok(ys) = vp_core::catch(|| rten_vecmath::LogSoftmax::new(&xs, &mut out).dispatch().to_vec()) {
                    let s: f64 = ys.iter().map(|y| (*y as f64).exp()).sum();
                    let dev = (s - 1.0).abs();
                    if dev > c.max_log_sum_dev || dev.is_nan() {
                        c.max_log_sum_dev = if dev.is_nan() { f64::INFINITY } else { dev };
                    }
                    if !(dev <= 1e-4) || ys.iter().any(|y| y.is_nan() || *y > 1e-6) {
                        c.logsoftmax_bad += 1;
                        ctx.observe(&format!("LogSoftmax: exp-sum off by >1e-4 or positive/NaN element (isa {}, fill class {})", isa.name, name.split('(').next().unwrap_or("")));
                    }
                }
            }
        }
    }
    c
}

// ---------------------------------------------------------------------------

fn replay(ctx: Ctx, path: &std::path::Path) -> ! {
    let case = vp_core::read_replay_case(path);
    let isas = util::available_isas();
    if case.get("op").and_then(|v| v.as_str()) == Some("Softmax") {
        let isa_name = case["isa"].as_str().unwrap_or("");
        let isa = isas.iter().find(|i| i.name == isa_name).unwrap_or_else(|| ctx.machinery("replay: isa not available"));
        util::force(isa);
        let xs: Vec<f32> = case["input_bits"].as_array().cloned().unwrap_or_default().iter().map(|b| f32::from_bits(b.as_u64().unwrap_or(0) as u32)).collect();
        let mut out = vec![MaybeUninit::<f32>::uninit(); xs.len()];
        let mut inplace = xs.clone();
        let variant = case["variant"].as_str().unwrap_or("out-of-place").to_string();
        let ys: Vec<f32> = match variant.as_str() {
            "in-place" => rten_vecmath::Softmax::new_mut(&mut inplace).dispatch().to_vec(),
            "flush-nans" => rten_vecmath::Softmax::new(&xs, &mut out).flush_nans_to_zero(true).dispatch().to_vec(),
            _ => rten_vecmath::Softmax::new(&xs, &mut out).dispatch().to_vec(),
        };
        let r = softmax_ref(&xs);
        let ref_nan = r.iter().any(|v| v.is_nan());
        let sum: f64 = ys.iter().map(|y| *y as f64).sum();
        println!("replay softmax: input {xs:?}\n  output {ys:?}\n  reference {r:?}\n  sum {sum}");
        if variant == "flush-nans" && ys.iter().any(|y| y.is_nan()) {
            ctx.violation("vecmath Softmax: flush_nans_to_zero(true) leaves a NaN in the output", case.clone(), "replayed");
        }
        if !ref_nan && !xs.is_empty() {
            if ys.iter().any(|y| !(y.is_finite() && *y >= 0.0)) {
                ctx.violation(format!("vecmath Softmax: output element negative/NaN/infinite where the reference softmax is finite ({variant})"), case.clone(), "replayed");
            } else if (sum - 1.0).abs() > 1e-5 {
                ctx.violation(format!("vecmath Softmax: outputs do not sum to 1 within 1e-5 ({variant})"), case.clone(), format!("sum {sum}"));
            }
        }
        util::unforce();
        ctx.finish("exploration", json!({"evaluations": 1, "distinct_nontrivial": 2, "rule": "replay of one softmax case", "samples": [case], "exhaustive": false}), vec![]);
    }
    let func = Func::from_name(case["function"].as_str().unwrap_or("")).unwrap_or_else(|| ctx.machinery("replay: unknown function"));
    let bits = u32::from_str_radix(case["input_bits"].as_str().unwrap_or("0x0").trim_start_matches("0x"), 16).unwrap_or(0);
    let x = f32::from_bits(bits);
    let want_isa = case["isa"].as_str().unwrap_or("");
    let mut samples = Vec::new();
    for isa in &isas {
        util::force(isa);
        // alone, and as every lane of a 3-vector buffer
        let mut one = [x];
        func.apply(&mut one);
        let mut many = vec![x; 3 * isa.f32_lanes + 1];
        func.apply(&mut many);
        let e = func.reference(x);
        let (err, mut kind) = judge(func, func.contract(), x, one[0], e);
        if kind == Some(Kind::Bound) && func.within_bound_of_truth(x, one[0]) {
            println!("  (over the bound vs the f32 libm only; within the bound of the exact value: not a violation)");
            kind = None;
        }
        println!(
            "replay {}({:e}) isa={}: rten={:e} (0x{:08x}) reference={:e} (0x{:08x}) err={} kind={:?} lanes_agree={}",
            func.name(), x, isa.name, one[0], one[0].to_bits(), e, e.to_bits(), err, kind,
            many.iter().all(|m| m.to_bits() == one[0].to_bits())
        );
        samples.push(json!({"isa": isa.name, "rten": f32_json(one[0]), "reference": f32_json(e), "error": err as f64}));
        if let Some(k) = kind {
            if isa.name == want_isa || want_isa.is_empty() {
                ctx.violation(signature(func, k, isa.name, err), case_json(func, isa.name, bits), format!("replayed: rten {:e}, reference {:e}, error {}", one[0], e, err));
            }
        }
    }
    util::unforce();
    ctx.finish(
        "exploration",
        json!({"evaluations": isas.len(), "distinct_nontrivial": 2, "rule": "replay of one input on every ISA", "samples": samples, "exhaustive": false}),
        vec![],
    );
}

/// Developer aid: `mc-kernels C19 analyse <Func> <isa> <lo_hex> <hi_hex>` lists
/// every input in the bit range that violates the contract, together with the
/// correctly rounded f64 result, so that libm artefacts can be told apart from
/// rten errors.
fn analyse(ctx: &Ctx) {
    let a = &ctx.extra_args;
    let func = Func::from_name(&a[1]).expect("func");
    let isas = util::available_isas();
    let isa = isas.iter().find(|i| i.name == a[2]).expect("isa");
    let lo = u32::from_str_radix(a[3].trim_start_matches("0x"), 16).unwrap();
    let hi = u32::from_str_radix(a[4].trim_start_matches("0x"), 16).unwrap();
    util::force(isa);
    let xs: Vec<f32> = (lo..=hi).map(f32::from_bits).collect();
    let mut ys = xs.clone();
    func.apply(&mut ys);
    let mut n = 0;
    let (mut worst_rten, mut worst_std) = (0f64, 0f64);
    for (x, y) in xs.iter().zip(&ys) {
        let e = func.reference(*x);
        let t64 = match func {
            Func::Tanh => (*x as f64).tanh(),
            Func::Sin => (*x as f64).sin(),
            Func::Cos => (*x as f64).cos(),
            Func::Exp => (*x as f64).exp(),
            _ => f64::NAN,
        };
        let u = ulp_f32(t64 as f32) as f64;
        let er = ((*y as f64) - t64).abs() / u;
        let es = ((e as f64) - t64).abs() / u;
        worst_rten = worst_rten.max(er);
        worst_std = worst_std.max(es);
        let (err, kind) = judge(func, func.contract(), *x, *y, e);
        if kind.is_some() {
            n += 1;
            if n <= 40 {
                println!("x=0x{:08x} {:e}: rten={:e} std={:e} true={:.10e} | contract err={} | rten vs true {:.3} ulp ({:.3e} abs), std vs true {:.3} ulp", x.to_bits(), x, y, e, t64, err, er, ((*y as f64) - t64).abs(), es);
            }
        }
    }
    println!("violations in range: {n}; worst rten-vs-true {worst_rten:.3} ulp, worst std-vs-true {worst_std:.3} ulp");
    std::process::exit(0);
}

pub fn run(ctx: Ctx) -> ! {
    if ctx.extra_args.first().map(|s| s.as_str()) == Some("analyse") {
        analyse(&ctx);
    }
    if let Some(p) = ctx.replay.clone() {
        replay(ctx, &p);
    }
    let thorough = ctx.tier.is_thorough();
    let isas = util::available_isas();
    if isas.len() < 2 {
        ctx.observe("fewer than two ISAs available on this machine");
    }

    let full = vec![Segment { start: 0, count: 1u64 << 32, stride: 1 }];
    let quick = quick_segments();
    let lattice = vec![Segment { start: 0, count: 1 << 24, stride: 256 }];
    let main_segs: &[Segment] = if thorough { &full } else { &quick };

    let samples = Samples::new(64);
    let mut per_combo = Vec::new();
    let mut evaluations: u64 = 0;
    let mut numeric: u64 = 0;
    let mut distinct_errs: std::collections::BTreeSet<u32> = Default::default();

    // self-check of the oracle plumbing on known values
    if judge(Func::Exp, Contract::Ulp(1.0), 1.0, 2.7182817, 2.7182817).1.is_some()
        || judge(Func::Exp, Contract::Ulp(1.0), 1.0, 2.7182822, 2.7182817).1.is_none()
        || (ulp_f32(1.0) - f32::EPSILON).abs() != 0.0
    {
        ctx.machinery("C19 oracle self-check failed");
    }

    // Consistency of the two ways of applying an op: through the real
    // `dispatch` with the ISA forced, and directly with `simd_map` on the ISA
    // (used below so that one reference evaluation serves all ISAs).
    {
        let probe = Segment { start: 0x0000_0040, count: 1 << 20, stride: 4096 };
        for isa in &isas {
            util::force(isa);
            for func in VERDICT_FUNCS.iter().chain(OBSERVED_FUNCS.iter()) {
                let xs: Vec<f32> = (0..probe.count as u32).map(|i| f32::from_bits(probe.start.wrapping_add(i.wrapping_mul(probe.stride)))).collect();
                let mut a = xs.clone();
                let mut b = xs.clone();
                func.apply(&mut a);
                func.apply_direct(isa.f32_lanes, &mut b);
                if let Some(i) = (0..xs.len()).find(|&i| a[i].to_bits() != b[i].to_bits() && !(a[i].is_nan() && b[i].is_nan())) {
                    ctx.machinery(&format!("direct simd_map and dispatch disagree for {} on {} at {:e}: {:e} vs {:e}", func.name(), isa.name, xs[i], a[i], b[i]));
                }
            }
        }
        util::unforce();
    }

    let vias: Vec<Via> = isas.iter().map(|i| Via::Direct(i.f32_lanes)).collect();
    for func in VERDICT_FUNCS {
        let mut all = run_func_multi(func, main_segs, false, !thorough, &vias);
        if matches!(func, Func::Sin | Func::Cos) {
            let iso = run_func_multi(func, &sincos_isolated_segments(), false, false, &vias);
            for (t, s) in all.iter_mut().zip(&iso) {
                t.merge(s);
            }
        }
        for (isa, mut st) in isas.iter().zip(all) {
            util::force(isa);
            // explicit special-value pass through the real dispatch (also inside
            // the main box; kept separate so that the quick tier provably contains them)
            for bits in special_inputs() {
                let sp = eval_segment(func, func.contract(), Segment { start: bits, count: 1, stride: 1 }, false, false);
                // do not double count violations already found in the main box
                let mut sp2 = sp.clone();
                let in_box = thorough
                    || quick.iter().any(|s| {
                        let d = bits.wrapping_sub(s.start);
                        bits >= s.start && (d % s.stride == 0) && ((d / s.stride) as u64) < s.count
                    });
                if in_box {
                    sp2.violations = 0;
                    sp2.first.clear();
                    sp2.viol_by_kind.clear();
                }
                st.merge(&sp2);
            }
            evaluations += st.evals;
            numeric += st.numeric;
            distinct_errs.insert(st.max_err.to_bits());
            report(&ctx, func, isa, &st);
            if st.libm_artefacts > 0 {
                ctx.observe_n(&format!(
                    "{} on {}: inputs over the bound against this image's {} but within the bound of the exact (f64) value - attributed to the f32 libm, not flagged",
                    func.name(), isa.name, func.reference_name()
                ), st.libm_artefacts);
            }
            // the doc comments of Sin/Cos quote tighter numbers than the in-tree exhaustive tests
            let doc_bound = match func {
                Func::Sin => Some(2.5 * f32::EPSILON),
                Func::Cos => Some(3.5 * f32::EPSILON),
                _ => None,
            };
            if let Some(db) = doc_bound {
                if st.max_err > db {
                    ctx.observe(&format!(
                        "{} on {}: measured max abs error exceeds the doc-comment figure {:e} (verdict uses the in-tree exhaustive-test tolerance)",
                        func.name(), isa.name, db
                    ));
                }
            }
            let argmax = f32::from_bits(st.argmax_bits);
            let mut one = [argmax];
            func.apply(&mut one);
            samples.push(|| {
                json!({"function": func.name(), "isa": isa.name, "worst_input": f32_json(argmax),
                       "rten": f32_json(one[0]), "reference": f32_json(func.reference(argmax)), "max_error": st.max_err as f64})
            });
            per_combo.push(json!({
                "function": func.name(), "isa": isa.name, "reference": func.reference_name(),
                "contract": format!("{:?}", func.contract()),
                "evaluations": st.evals, "finite_reference": st.numeric, "bit_exact_or_equal": st.exact,
                "max_error": st.max_err as f64, "argmax_bits": format!("0x{:08x}", st.argmax_bits),
                "hist_err_over_bound[0,<=.25,<=.5,<=1,>1]": st.hist, "violations": st.violations,
                "over_bound_vs_f32_libm_but_within_bound_of_exact_value": st.libm_artefacts,
                "libm_artefact_example_bits": format!("0x{:08x}", st.libm_artefact_example),
            }));
            eprintln!(
                "C19 {:<8} isa={:<8} evals={} max_err={:e} at 0x{:08x} viol={} t={:.1}s",
                func.name(), isa.name, st.evals, st.max_err, st.argmax_bits, st.violations, ctx.elapsed_s()
            );
        }
    }
    for isa in &isas {
        util::force(isa);
        for func in OBSERVED_FUNCS {
            let st = run_func(func, &lattice, true, false);
            evaluations += st.evals;
            let Contract::Observe(_, b) = func.contract() else { unreachable!() };
            if st.max_err > b {
                ctx.observe(&format!(
                    "{} on {}: measured max error {:e} on the |x|<=6 lattice exceeds the in-tree test tolerance {:e} (not named in the property statement; no verdict)",
                    func.name(), isa.name, st.max_err, b
                ));
            }
            per_combo.push(json!({
                "function": func.name(), "isa": isa.name, "observed_only": true, "domain": "|x|<=6, low 8 mantissa bits zero",
                "evaluations": st.evals, "max_error": st.max_err as f64, "argmax_bits": format!("0x{:08x}", st.argmax_bits),
                "in_tree_tolerance": format!("{:?}", func.contract()),
            }));
        }
    }

    // softmax family
    let max_len = if thorough { 100 } else { 40 };
    let mut sm_cases = 0u64;
    let mut sm_reached = 0u64;
    let mut sm = Vec::new();
    for isa in &isas {
        util::force(isa);
        let c = softmax_checks(&ctx, isa, max_len, &samples);
        sm_cases += c.cases;
        sm_reached += c.reached;
        sm.push(json!({"isa": isa.name, "cases": c.cases, "reached_oracle": c.reached, "reference_nan_cases": c.ref_nan_cases,
            "max_|sum-1|": c.max_sum_dev, "max_abs_dev_from_f64_reference": c.max_abs_dev,
            "logsoftmax_cases_off": c.logsoftmax_bad, "logsoftmax_max_|expsum-1|": c.max_log_sum_dev}));
    }
    util::unforce();
    if sm_reached == 0 || numeric == 0 {
        ctx.machinery("C19 vacuous: no case reached the oracle");
    }

    let exhaustive = true;
    let coverage = json!({
        "evaluations": evaluations + sm_cases,
        "distinct_nontrivial": numeric + sm_reached,
        "distinct_max_errors": distinct_errs.len(),
        "rule": if thorough {
            "every one of the 2^32 f32 bit patterns x {Exp,Sigmoid,Tanh,Erf,Sin,Cos} x every ISA reachable via dispatch; softmax: every length x fill pattern"
        } else {
            "complete sub-lattice (low 8 mantissa bits zero, 2^24 patterns) + +-2^15 windows at cut-offs + +-256 windows at all binade boundaries + special values, x 6 functions x every ISA; softmax: every length x fill pattern"
        },
        "exhaustive": exhaustive,
        "axes": {
            "isas": isas.iter().map(|i| i.name).collect::<Vec<_>>(),
            "functions_with_verdict": VERDICT_FUNCS.iter().map(|f| f.name()).collect::<Vec<_>>(),
            "functions_observed_only": OBSERVED_FUNCS.iter().map(|f| f.name()).collect::<Vec<_>>(),
            "bit_patterns_per_function_per_isa": if thorough { 1u64 << 32 } else { main_segs.iter().map(|s| s.count).sum::<u64>() },
            "softmax_lengths": format!("0..={max_len}"),
            "softmax_fill_alphabet": "-inf,-100,-1,0,1,100,+inf(single); constant, alternating, one-hot at each position",
            "softmax_variants": ["out-of-place", "in-place", "flush_nans_to_zero"],
        },
        "per_function_isa": per_combo,
        "softmax": sm,
        "samples": samples.take(),
    });
    let summary_evals = evaluations + sm_cases;
    println!("C19 summary: evaluations={} numeric_comparisons={} softmax_cases={} isas={}", summary_evals, numeric, sm_cases, isas.len());
    ctx.finish(
        "exploration",
        coverage,
        vec![
            "reference functions are those of this image: glibc expf/tanhf/sinf/cosf through Rust std, libm crate 0.2 erff".into(),
            "ULP metric is rten-vecmath/src/ulp.rs re-implemented, with ulp(0) = smallest subnormal (the crate's helper uses f32::MIN there)".into(),
            "Gelu/ApproxGelu/Silu/Swish/Elu and LogSoftmax are measured and reported as observations only (not named in the property statement)".into(),
            "the exhaustive sweep applies each op with functional::simd_map + SimdUnaryOp::eval on the explicit ISA types (so that one reference evaluation serves all ISAs); its agreement with the real dispatch()+force_isa path is checked on 2^20 inputs per function per ISA; special values, softmax and the observed-only functions go through dispatch()".into(),
        ],
    );
}
