//! C37 — Block-quantized matmul equals dequantize-then-multiply.
//!
//! Subjects: `BlockQuantizedGemm` (Float mode on every ISA reachable through
//! `dispatch`, Int8 mode on the ISA its own dispatch picks), `GemmExecutor`
//! with `GemmInputB::BlockQuantized` for every f32 kernel, and the
//! `MatMulNBits` operator through single-operator ONNX models.
//! Oracle: dequantize in the harness ((code - 8) * scale), naive f64 matmul.
//! Operands are chosen so that every product and partial sum is exactly
//! representable (and the int8 activation quantisation is exact), so the
//! comparison is equality; a second LHS family of ordinary floats is compared
//! with 1e-5 relative tolerance in Float mode.

use std::mem::MaybeUninit;

use rten_gemm::{BlockQuantizedGemm, BlockQuantizedMatrix, ComputeMode, GemmInputA, GemmInputB, GemmUninitOptions};
use rten_tensor::prelude::*;
use rten_tensor::{Contiguous, NdTensorView, Tensor};
use vp_core::{Ctx, Json, Samples, json};
use vp_onnx::{Attr, Graph, Node, Tensor as OTensor, ValueInfo, dtype};

use crate::util;

#[derive(Clone, Copy, Debug, PartialEq)]
enum Codes {
    Const(u8),
    Alt(u8, u8),
    /// position dependent: (k*7 + col*3) mod 16
    Ramp,
}

impl Codes {
    fn at(self, col: usize, k: usize) -> u8 {
        match self {
            Codes::Const(c) => c,
            Codes::Alt(a, b) => if k % 2 == 0 { a } else { b },
            Codes::Ramp => ((k * 7 + col * 3) % 16) as u8,
        }
    }
    fn json(self) -> Json {
        match self {
            Codes::Const(c) => json!({"const": c}),
            Codes::Alt(a, b) => json!({"alternating": [a, b]}),
            Codes::Ramp => json!("ramp"),
        }
    }
    fn from_json(j: &Json) -> Codes {
        if let Some(c) = j.get("const") {
            Codes::Const(c.as_u64().unwrap_or(0) as u8)
        } else if let Some(a) = j.get("alternating") {
            Codes::Alt(a[0].as_u64().unwrap_or(0) as u8, a[1].as_u64().unwrap_or(0) as u8)
        } else {
            Codes::Ramp
        }
    }
}

fn code_fills(thorough: bool) -> Vec<Codes> {
    let mut v: Vec<Codes> = (0..16).map(Codes::Const).collect();
    for c in 0..16u8 {
        v.push(Codes::Alt(c, 15 - c));
        if thorough {
            v.push(Codes::Alt(c, (c + 1) % 16));
        }
    }
    v.push(Codes::Ramp);
    v
}

#[derive(Clone, Copy, Debug, PartialEq)]
enum Scales {
    Uniform(f32),
    /// 2^((col + block) mod 4 - 2)
    Ramp,
}

impl Scales {
    fn at(self, col: usize, block: usize) -> f32 {
        match self {
            Scales::Uniform(s) => s,
            Scales::Ramp => [0.25f32, 0.5, 1.0, 2.0][(col + block) % 4],
        }
    }
    fn json(self) -> Json {
        match self {
            Scales::Uniform(s) => json!(s),
            Scales::Ramp => json!("ramp"),
        }
    }
    fn from_json(j: &Json) -> Scales {
        match j.as_f64() {
            Some(s) => Scales::Uniform(s as f32),
            None => Scales::Ramp,
        }
    }
}

#[derive(Clone, Copy, Debug, PartialEq)]
enum Lhs {
    /// integers in [-127,127] times `s` (power of two) with +-127 in every block: exactly int8-quantisable
    ExactInts(f32),
    /// like ExactInts(1.0), but K-block j of row r is entirely zero when j + r is odd
    /// (masked / padded / post-ReLU activations); exactly int8-quantisable
    ZeroBlocks,
    /// every element zero
    Zeros,
    /// ordinary floats
    Floats,
}

impl Lhs {
    fn at(self, b: usize, row: usize, k: usize, block_size: usize) -> f32 {
        match self {
            Lhs::ExactInts(s) => {
                let pos = k % block_size;
                let v: i32 = if pos == 0 {
                    if (k / block_size + row) % 2 == 0 { 127 } else { -127 }
                } else {
                    ((k * 5 + row * 3 + b * 11) % 255) as i32 - 127
                };
                v as f32 * s
            }
            Lhs::ZeroBlocks => {
                if (k / block_size + row) % 2 == 1 {
                    0.0
                } else {
                    Lhs::ExactInts(1.0).at(b, row, k, block_size)
                }
            }
            Lhs::Zeros => 0.0,
            Lhs::Floats => (((k * 37 + row * 11 + b * 5) % 201) as f32 - 100.0) * 0.0137 + 0.001 * k as f32,
        }
    }
    fn is_exact(self) -> bool {
        !matches!(self, Lhs::Floats)
    }
    fn json(self) -> Json {
        match self {
            Lhs::ZeroBlocks => json!("exact ints with all-zero K-blocks"),
            Lhs::Zeros => json!("zeros"),
            Lhs::ExactInts(s) => json!({"exact_ints_times": s}),
            Lhs::Floats => json!("floats"),
        }
    }
    fn from_json(j: &Json) -> Lhs {
        match j.get("exact_ints_times") {
            Some(s) => Lhs::ExactInts(s.as_f64().unwrap_or(1.0) as f32),
            None => match j.as_str() {
                Some("exact ints with all-zero K-blocks") => Lhs::ZeroBlocks,
                Some("zeros") => Lhs::Zeros,
                _ => Lhs::Floats,
            },
        }
    }
}

#[derive(Clone, Debug)]
struct Case {
    subject: String, // "BlockQuantizedGemm" | "GemmExecutor:<kernel>"
    mode: &'static str, // Float | Int8
    isa: String,
    block_size: usize,
    k_blocks: usize,
    n: usize,
    m: usize,
    batch: usize,
    codes: Codes,
    scales: Scales,
    lhs: Lhs,
}

impl Case {
    fn json(&self) -> Json {
        json!({"kind": "bq", "subject": self.subject, "mode": self.mode, "isa": self.isa, "block_size": self.block_size, "k_blocks": self.k_blocks,
            "n": self.n, "m": self.m, "batch": self.batch, "codes": self.codes.json(), "scales": self.scales.json(), "lhs": self.lhs.json()})
    }
    fn from_json(j: &Json) -> Case {
        Case {
            subject: j["subject"].as_str().unwrap_or("BlockQuantizedGemm").into(),
            mode: if j["mode"].as_str() == Some("Int8") { "Int8" } else { "Float" },
            isa: j["isa"].as_str().unwrap_or("").into(),
            block_size: j["block_size"].as_u64().unwrap_or(16) as usize,
            k_blocks: j["k_blocks"].as_u64().unwrap_or(1) as usize,
            n: j["n"].as_u64().unwrap_or(1) as usize,
            m: j["m"].as_u64().unwrap_or(1) as usize,
            batch: j["batch"].as_u64().unwrap_or(1) as usize,
            codes: Codes::from_json(&j["codes"]),
            scales: Scales::from_json(&j["scales"]),
            lhs: Lhs::from_json(&j["lhs"]),
        }
    }
    fn k(&self) -> usize {
        self.block_size * self.k_blocks
    }
    fn signature(&self, what: &str) -> String {
        let vec_path = if self.m == 1 { "vector-matrix" } else { "matrix-matrix" };
        format!("{} mode={} ({vec_path}{}): {what}", self.subject, self.mode, if self.subject == "BlockQuantizedGemm" { format!(", isa {}", util::isa_class(&self.isa)) } else { String::new() })
    }
}

struct Data {
    lhs: Vec<f32>,    // [batch, m, k]
    quant: Vec<u8>,   // [n, k_blocks, block_size/2]
    scales: Vec<f32>, // [n, k_blocks]
    expected: Vec<f64>, // [batch, m, n]
    /// sum of |lhs * w| per output: the scale of the floating-point accumulation
    magnitude: Vec<f64>,
}

fn build(c: &Case) -> Data {
    let k = c.k();
    let mut lhs = Vec::with_capacity(c.batch * c.m * k);
    for b in 0..c.batch {
        for r in 0..c.m {
            for kk in 0..k {
                lhs.push(c.lhs.at(b, r, kk, c.block_size));
            }
        }
    }
    let bytes = c.block_size / 2;
    let mut quant = vec![0u8; c.n * c.k_blocks * bytes];
    let mut scales = vec![0f32; c.n * c.k_blocks];
    for col in 0..c.n {
        for blk in 0..c.k_blocks {
            scales[col * c.k_blocks + blk] = c.scales.at(col, blk);
            for e in 0..bytes {
                let k0 = blk * c.block_size + 2 * e;
                // element 2e in the low nibble, 2e+1 in the high nibble (MatMulNBits layout)
                quant[(col * c.k_blocks + blk) * bytes + e] = (c.codes.at(col, k0) & 0x0f) | (c.codes.at(col, k0 + 1) << 4);
            }
        }
    }
    let mut expected = vec![0f64; c.batch * c.m * c.n];
    let mut magnitude = vec![0f64; c.batch * c.m * c.n];
    for b in 0..c.batch {
        for r in 0..c.m {
            for col in 0..c.n {
                let mut acc = 0f64;
                let mut mag = 0f64;
                for kk in 0..k {
                    let w = (c.codes.at(col, kk) as i32 - 8) as f64 * c.scales.at(col, kk / c.block_size) as f64;
                    acc += lhs[(b * c.m + r) * k + kk] as f64 * w;
                    mag += (lhs[(b * c.m + r) * k + kk] as f64 * w).abs();
                }
                expected[(b * c.m + r) * c.n + col] = acc;
                magnitude[(b * c.m + r) * c.n + col] = mag;
            }
        }
    }
    Data { lhs, quant, scales, expected, magnitude }
}

fn with_bqm<R>(c: &Case, d: &Data, f: impl FnOnce(BlockQuantizedMatrix<f32>) -> R) -> Result<R, String> {
    let q = NdTensorView::from_data([c.n, c.k_blocks, c.block_size / 2], &d.quant[..]);
    let s = NdTensorView::from_data([c.n, c.k_blocks], &d.scales[..]);
    let qc = Contiguous::new(q).ok_or("quant not contiguous")?;
    let sc = Contiguous::new(s).ok_or("scales not contiguous")?;
    let bqm = BlockQuantizedMatrix::new(qc, sc, 4).map_err(|e| format!("{e:?}"))?;
    Ok(f(bqm))
}

enum Verdict {
    Exact,
    Within(f64),
    Mismatch(usize, f32, f64),
    Error(String),
    Panic(String),
}

fn judge(c: &Case, out: &[f32], exp: &[f64], mag: &[f64]) -> Verdict {
    if out.len() != exp.len() {
        return Verdict::Mismatch(usize::MAX, out.len() as f32, exp.len() as f64);
    }
    let exact_inputs = c.lhs.is_exact();
    let mut worst = 0f64;
    for i in 0..out.len() {
        if exact_inputs {
            if out[i] as f64 != exp[i] {
                return Verdict::Mismatch(i, out[i], exp[i]);
            }
        } else {
            // relative to the scale of the accumulation (sum of |terms|): the standard
            // forward-error measure for a dot product, robust to cancellation
            let denom = mag[i].max(1e-30);
            let rel = (out[i] as f64 - exp[i]).abs() / denom;
            if !(rel <= 1e-5) {
                return Verdict::Mismatch(i, out[i], exp[i]);
            }
            worst = worst.max(rel);
        }
    }
    if exact_inputs { Verdict::Exact } else { Verdict::Within(worst) }
}

fn run_bqgemm(c: &Case, d: &Data) -> Verdict {
    let mode = if c.mode == "Int8" { ComputeMode::Int8 } else { ComputeMode::Float };
    let lhs = NdTensorView::from_data([c.batch, c.m, c.k()], &d.lhs[..]);
    let mut out = vec![MaybeUninit::new(f32::NAN); c.batch * c.m * c.n];
    let r = vp_core::catch(|| with_bqm(c, d, |bqm| BlockQuantizedGemm::new().with_compute(mode).batched_gemm_uninit(&mut out, lhs, bqm).map(|o| o.to_vec()).map_err(|e| format!("{e:?}"))));
    match r {
        Err(p) => Verdict::Panic(p),
        Ok(Err(e)) | Ok(Ok(Err(e))) => Verdict::Error(e),
        Ok(Ok(Ok(o))) => judge(c, &o, &d.expected, &d.magnitude),
    }
}

fn run_gemm_exec(c: &Case, d: &Data, exec: &rten_gemm::GemmExecutor<f32, f32, f32>) -> Verdict {
    // [batch*m, k] x block-quantized [k, n]
    let rows = c.batch * c.m;
    let lhs = NdTensorView::from_data([rows, c.k()], &d.lhs[..]);
    let mut out = vec![MaybeUninit::new(f32::NAN); rows * c.n];
    let r = vp_core::catch(|| {
        with_bqm(c, d, |bqm| {
            exec.gemm_uninit(&mut out, GemmInputA::Unpacked(lhs), GemmInputB::BlockQuantized(bqm), GemmUninitOptions::default()).map(|o| o.to_vec()).map_err(|e| format!("{e:?}"))
        })
    });
    match r {
        Err(p) => Verdict::Panic(p),
        Ok(Err(e)) | Ok(Ok(Err(e))) => Verdict::Error(e),
        Ok(Ok(Ok(o))) => judge(c, &o, &d.expected, &d.magnitude),
    }
}

#[derive(Default, Clone)]
struct Tally {
    cases: u64,
    exact: u64,
    within: u64,
    errors: u64,
    worst_rel: f64,
}

fn account(ctx: &Ctx, c: &Case, v: Verdict, t: &mut Tally, error_ok: bool) {
    t.cases += 1;
    match v {
        Verdict::Exact => t.exact += 1,
        Verdict::Within(w) => {
            t.within += 1;
            t.worst_rel = t.worst_rel.max(w);
        }
        Verdict::Mismatch(i, got, exp) => {
            let what = if got.is_nan() { "output element is NaN (not written)" } else if c.lhs.is_exact() { "differs from dequantize-then-multiply on exactly representable operands" } else { "differs from dequantize-then-multiply by more than 1e-5 relative" };
            let (bm, col) = if i == usize::MAX { (0, 0) } else { (i / c.n, i % c.n) };
            ctx.violation(c.signature(what), c.json(), format!("out[row {bm}, col {col}] = {got:e}, reference {exp:e}; case {}", c.json()));
        }
        Verdict::Error(e) => {
            t.errors += 1;
            if !error_ok {
                ctx.violation(c.signature("returns an error for a supported configuration"), c.json(), e);
            }
        }
        Verdict::Panic(p) => ctx.violation(c.signature("panics"), c.json(), p),
    }
}

// ---------------------------------------------------------------------------
// MatMulNBits operator
// ---------------------------------------------------------------------------

struct OpCase {
    c: Case,
    a_rank3: bool,
    scales_1d: bool,
    accuracy_level: i64,
    b_initializer: bool,
    extra: &'static str, // "" | "zero_points" | "k_not_multiple"
}

fn run_operator(ctx: &Ctx, oc: &OpCase, t: &mut Tally, rejected: &mut u64) {
    let c = &oc.c;
    let d = build(c);
    let k = c.k();
    let bytes = c.block_size / 2;
    let mut g = Graph::new("mmnb");
    let a_k = if oc.extra == "k_not_multiple" { k - 3 } else { k };
    let a_dims: Vec<i64> = if oc.a_rank3 { vec![c.batch as i64, c.m as i64, a_k as i64] } else { vec![(c.batch * c.m) as i64, a_k as i64] };
    g.inputs.push(ValueInfo::fixed("A", dtype::FLOAT, &a_dims));
    let b_t = OTensor::u8("B", &[c.n as i64, c.k_blocks as i64, bytes as i64], &d.quant);
    let s_dims: Vec<i64> = if oc.scales_1d { vec![(c.n * c.k_blocks) as i64] } else { vec![c.n as i64, c.k_blocks as i64] };
    let s_t = OTensor::f32("S", &s_dims, &d.scales);
    if oc.b_initializer {
        g.initializers.push(b_t);
    } else {
        g.inputs.push(ValueInfo::fixed("B", dtype::UINT8, &[c.n as i64, c.k_blocks as i64, bytes as i64]));
    }
    g.initializers.push(s_t);
    let mut ins = vec!["A", "B", "S"];
    if oc.extra == "zero_points" {
        let zp_bytes = (c.k_blocks + 1) / 2;
        g.initializers.push(OTensor::u8("ZP", &[c.n as i64, zp_bytes as i64], &vec![0x88u8; c.n * zp_bytes]));
        ins.push("ZP");
    }
    g.nodes.push(
        Node::new("MatMulNBits", &ins, &["Y"])
            .domain("com.microsoft")
            .attr("K", Attr::Int(a_k as i64))
            .attr("N", Attr::Int(c.n as i64))
            .attr("bits", Attr::Int(4))
            .attr("block_size", Attr::Int(c.block_size as i64))
            .attr("accuracy_level", Attr::Int(oc.accuracy_level)),
    );
    g.outputs.push(ValueInfo::typed_no_shape("Y", dtype::FLOAT));
    let case = {
        let mut j = c.json();
        j["kind"] = json!("MatMulNBits");
        j["a_rank3"] = json!(oc.a_rank3);
        j["scales_1d"] = json!(oc.scales_1d);
        j["accuracy_level"] = json!(oc.accuracy_level);
        j["b_initializer"] = json!(oc.b_initializer);
        j["extra"] = json!(oc.extra);
        j
    };
    t.cases += 1;
    let sig = |what: &str| format!("MatMulNBits accuracy_level={} ({}{}): {what}", oc.accuracy_level, if c.m * (if oc.a_rank3 { 1 } else { c.batch }) == 1 { "vector-matrix" } else { "matrix-matrix" }, if oc.extra.is_empty() { String::new() } else { format!(", {}", oc.extra) });
    let model = match rten::Model::load(vp_onnx::model_bytes(&g)) {
        Ok(m) => m,
        Err(e) => {
            if oc.extra.is_empty() {
                ctx.violation(sig("model does not load"), case, format!("{e}"));
            } else {
                *rejected += 1;
            }
            return;
        }
    };
    let lhs_data: Vec<f32> = if oc.extra == "k_not_multiple" {
        // drop the last 3 columns of every row
        d.lhs.chunks(k).flat_map(|r| r[..a_k].iter().copied()).collect()
    } else {
        d.lhs.clone()
    };
    let a_shape: Vec<usize> = a_dims.iter().map(|x| *x as usize).collect();
    let mut inputs = vec![(model.node_id("A").unwrap(), Tensor::from_data(&a_shape[..], lhs_data).into())];
    if !oc.b_initializer {
        inputs.push((model.node_id("B").unwrap(), Tensor::from_data(&[c.n, c.k_blocks, bytes][..], d.quant.clone()).into()));
    }
    let out_id = model.node_id("Y").unwrap();
    match vp_core::catch(|| model.run(inputs, &[out_id], None)) {
        Err(p) => {
            ctx.violation(sig("panics"), case, p);
        }
        Ok(Err(e)) => {
            if oc.extra.is_empty() {
                ctx.violation(sig("run fails for a supported configuration"), case, format!("{e}"));
            } else {
                // requested-but-unsupported forms: an error is acceptable (not a wrong product)
                *rejected += 1;
            }
        }
        Ok(Ok(mut v)) => {
            let y: Tensor<f32> = match v.remove(0).into_tensor() {
                Some(y) => y,
                None => {
                    ctx.violation(sig("output is not an f32 tensor"), case, "");
                    return;
                }
            };
            if !oc.extra.is_empty() {
                // accepted: then it must be right. zero point 8 everywhere equals the default; K-3 uses a truncated A
                if oc.extra == "k_not_multiple" {
                    ctx.observe("MatMulNBits accepted K not a multiple of block_size (result not checked against a reference here)");
                    return;
                }
            }
            let expect_shape: Vec<usize> = if oc.a_rank3 { vec![c.batch, c.m, c.n] } else { vec![c.batch * c.m, c.n] };
            if y.shape() != &expect_shape[..] {
                ctx.violation(sig("wrong output shape"), case, format!("{:?} expected {:?}", y.shape(), expect_shape));
                return;
            }
            let out = y.to_vec();
            match judge(c, &out, &d.expected, &d.magnitude) {
                Verdict::Exact => t.exact += 1,
                Verdict::Within(w) => {
                    t.within += 1;
                    t.worst_rel = t.worst_rel.max(w);
                }
                Verdict::Mismatch(i, got, exp) => {
                    ctx.violation(sig(if got.is_nan() { "output element is NaN" } else { "differs from dequantize-then-multiply" }), case, format!("flat index {i}: got {got:e}, reference {exp:e}"));
                }
                _ => {}
            }
        }
    }
}

fn replay(ctx: Ctx, path: &std::path::Path) -> ! {
    let j = vp_core::read_replay_case(path);
    let c = Case::from_json(&j);
    let mut t = Tally::default();
    if j["kind"].as_str() == Some("MatMulNBits") {
        let oc = OpCase {
            c,
            a_rank3: j["a_rank3"].as_bool().unwrap_or(false),
            scales_1d: j["scales_1d"].as_bool().unwrap_or(false),
            accuracy_level: j["accuracy_level"].as_i64().unwrap_or(0),
            b_initializer: j["b_initializer"].as_bool().unwrap_or(true),
            extra: match j["extra"].as_str().unwrap_or("") {
                "zero_points" => "zero_points",
                "k_not_multiple" => "k_not_multiple",
                _ => "",
            },
        };
        let mut rej = 0;
        run_operator(&ctx, &oc, &mut t, &mut rej);
    } else {
        let d = build(&c);
        if c.subject == "BlockQuantizedGemm" {
            let isas = util::available_isas();
            if let Some(isa) = isas.iter().find(|i| i.name == c.isa) {
                util::force(isa);
            }
            let v = run_bqgemm(&c, &d);
            account(&ctx, &c, v, &mut t, false);
            util::unforce();
        } else {
            let execs = rten_gemm::verif::f32_executors();
            let name = c.subject.trim_start_matches("GemmExecutor:");
            if let Some(e) = execs.iter().find(|e| e.kernel_name() == name) {
                let v = run_gemm_exec(&c, &d, e);
                account(&ctx, &c, v, &mut t, true);
            }
        }
    }
    println!("replay: cases={} exact={} within={} errors={}", t.cases, t.exact, t.within, t.errors);
    ctx.finish("exploration", json!({"evaluations": 1, "distinct_nontrivial": 2, "rule": "replay", "samples": [j], "exhaustive": false}), vec![]);
}

pub fn run(ctx: Ctx) -> ! {
    if let Some(p) = ctx.replay.clone() {
        replay(ctx, &p);
    }
    let thorough = ctx.tier.is_thorough();
    let samples = Samples::new(24);
    let block_sizes: Vec<usize> = if thorough { vec![16, 32, 64, 128] } else { vec![16, 32, 64] };
    let k_blocks: Vec<usize> = if thorough { vec![1, 2, 3, 4, 5, 8, 9, 17] } else { vec![1, 2, 3, 9] };
    let ns: Vec<usize> = vec![1, 2, 15, 16, 17, 33];
    let ms: Vec<usize> = vec![1, 2, 3];
    let batches: Vec<usize> = vec![1, 2, 3];
    let codes = code_fills(thorough);
    let scales = [Scales::Uniform(1.0), Scales::Uniform(0.5), Scales::Uniform(-2.0), Scales::Ramp];
    let lhss = [Lhs::ExactInts(1.0), Lhs::ExactInts(0.5), Lhs::ZeroBlocks, Lhs::Zeros, Lhs::Floats];

    // shape axis flattened for sharding
    let mut shapes: Vec<(usize, usize, usize, usize, usize)> = Vec::new();
    for &bs in &block_sizes {
        for &kb in &k_blocks {
            for &n in &ns {
                for &m in &ms {
                    for &b in &batches {
                        shapes.push((bs, kb, n, m, b));
                    }
                }
            }
        }
    }

    // large blocks (a block spans several SIMD vectors of 4-bit codes): a thin slice of the shape axes
    for &bs in &[128usize, 256] {
        if block_sizes.contains(&bs) {
            continue;
        }
        for &kb in &[1usize, 2, 3] {
            for &n in &[1usize, 17] {
                for &m in &[1usize, 2] {
                    shapes.push((bs, kb, n, m, 1));
                }
            }
        }
    }

    // ---- BlockQuantizedGemm: Float mode on every ISA, Int8 mode on the native dot ISA ----
    let isas = util::available_isas();
    let mut configs: Vec<(Option<util::IsaSel>, &'static str)> = isas.iter().map(|i| (Some(*i), "Float")).collect();
    configs.push((None, "Int8"));
    let mut bq_tally = Tally::default();
    let mut per_config = Vec::new();
    for (isa, mode) in &configs {
        match isa {
            Some(i) => util::force(i),
            None => util::unforce(),
        }
        let isa_name = isa.map(|i| i.name).unwrap_or("native(int8 dot dispatch)").to_string();
        let parts = vp_core::par::map(shapes.len(), |si| {
            let (bs, kb, n, m, b) = shapes[si];
            let mut t = Tally::default();
            for &cd in &codes {
                for &sc in &scales {
                    for &lhs in &lhss {
                        // Int8 mode quantises the activations: only exactly quantisable rows are comparable
                        if *mode == "Int8" && lhs == Lhs::Floats {
                            continue;
                        }
                        let c = Case { subject: "BlockQuantizedGemm".into(), mode, isa: isa_name.clone(), block_size: bs, k_blocks: kb, n, m, batch: b, codes: cd, scales: sc, lhs };
                        let d = build(&c);
                        let v = run_bqgemm(&c, &d);
                        account(&ctx, &c, v, &mut t, false);
                    }
                }
            }
            t
        });
        let mut t = Tally::default();
        for p in parts {
            t.cases += p.cases;
            t.exact += p.exact;
            t.within += p.within;
            t.errors += p.errors;
            t.worst_rel = t.worst_rel.max(p.worst_rel);
        }
        eprintln!("C37 BlockQuantizedGemm mode={mode} isa={isa_name} cases={} exact={} within={} worst_rel={:e} t={:.1}s", t.cases, t.exact, t.within, t.worst_rel, ctx.elapsed_s());
        per_config.push(json!({"subject": "BlockQuantizedGemm", "mode": mode, "isa": isa_name, "cases": t.cases, "bit_exact": t.exact, "within_1e-5": t.within, "worst_relative_error_float_lhs": t.worst_rel}));
        bq_tally.cases += t.cases;
        bq_tally.exact += t.exact;
        bq_tally.within += t.within;
    }
    util::unforce();

    // ---- GemmExecutor with GemmInputB::BlockQuantized, every f32 kernel ----
    let kernel_names: Vec<String> = rten_gemm::verif::f32_executors().iter().map(|e| e.kernel_name().to_string()).collect();
    let mut ge_tally = Tally::default();
    for (ki, kname) in kernel_names.iter().enumerate() {
        let parts = vp_core::par::map(shapes.len(), |si| {
            let (bs, kb, n, m, b) = shapes[si];
            let execs = rten_gemm::verif::f32_executors();
            let exec = &execs[ki];
            let mut t = Tally::default();
            for &cd in &codes {
                // a thinner slice of the value axes: the packing path does not depend on the activation values
                for &sc in &[Scales::Uniform(-2.0), Scales::Ramp] {
                    for &lhs in &[Lhs::ExactInts(1.0), Lhs::ZeroBlocks, Lhs::Floats] {
                        let c = Case { subject: format!("GemmExecutor:{kname}"), mode: "Float", isa: String::new(), block_size: bs, k_blocks: kb, n, m, batch: b, codes: cd, scales: sc, lhs };
                        let d = build(&c);
                        let v = run_gemm_exec(&c, &d, exec);
                        // a kernel may not support block-quantized input: an error is not a wrong product
                        account(&ctx, &c, v, &mut t, true);
                    }
                }
            }
            t
        });
        let mut t = Tally::default();
        for p in parts {
            t.cases += p.cases;
            t.exact += p.exact;
            t.within += p.within;
            t.errors += p.errors;
            t.worst_rel = t.worst_rel.max(p.worst_rel);
        }
        eprintln!("C37 GemmExecutor kernel={kname} cases={} exact={} within={} errors={} t={:.1}s", t.cases, t.exact, t.within, t.errors, ctx.elapsed_s());
        if t.errors == t.cases {
            ctx.observe(&format!("kernel {kname} rejects block-quantized RHS input (error, not a wrong product)"));
        }
        per_config.push(json!({"subject": format!("GemmExecutor:{kname}"), "cases": t.cases, "bit_exact": t.exact, "within_1e-5": t.within, "rejected_with_error": t.errors, "worst_relative_error_float_lhs": t.worst_rel}));
        ge_tally.cases += t.cases;
        ge_tally.exact += t.exact;
        ge_tally.within += t.within;
        ge_tally.errors += t.errors;
    }

    // ---- MatMulNBits operator ----
    let mut op_tally = Tally::default();
    let mut rejected = 0u64;
    {
        let op_codes = [Codes::Const(0), Codes::Const(15), Codes::Alt(0, 15), Codes::Alt(7, 8), Codes::Ramp];
        let op_shapes: Vec<(usize, usize, usize, usize, usize)> = shapes.iter().copied().filter(|(bs, kb, n, _m, b)| (*kb <= 3 || *kb == 9) && [1usize, 16, 17, 33].contains(n) && *b <= 2 && (thorough || *bs != 64 || *kb != 9)).collect();
        let list: Vec<OpCase> = op_shapes
            .iter()
            .flat_map(|&(bs, kb, n, m, b)| {
                let mut v = Vec::new();
                for cd in op_codes {
                    for (sc, lhs) in [(Scales::Ramp, Lhs::ExactInts(1.0)), (Scales::Uniform(0.5), Lhs::Floats), (Scales::Uniform(-2.0), Lhs::ExactInts(0.5)), (Scales::Uniform(0.5), Lhs::ZeroBlocks), (Scales::Ramp, Lhs::Zeros)] {
                        for accuracy_level in [0i64, 4] {
                            if accuracy_level == 4 && lhs == Lhs::Floats {
                                continue;
                            }
                            let variant = (bs / 16 + kb + n + m + b) % 4;
                            v.push(OpCase {
                                c: Case { subject: "MatMulNBits".into(), mode: if accuracy_level == 4 { "Int8" } else { "Float" }, isa: "native".into(), block_size: bs, k_blocks: kb, n, m, batch: b, codes: cd, scales: sc, lhs },
                                a_rank3: variant % 2 == 0,
                                scales_1d: variant == 1,
                                accuracy_level,
                                b_initializer: variant != 3,
                                extra: "",
                            });
                        }
                    }
                }
                // requested-but-unsupported forms
                for extra in ["zero_points", "k_not_multiple"] {
                    v.push(OpCase {
                        c: Case { subject: "MatMulNBits".into(), mode: "Float", isa: "native".into(), block_size: bs, k_blocks: kb, n, m, batch: b, codes: Codes::Ramp, scales: Scales::Ramp, lhs: Lhs::ExactInts(1.0) },
                        a_rank3: false,
                        scales_1d: false,
                        accuracy_level: 0,
                        b_initializer: true,
                        extra,
                    });
                }
                v
            })
            .collect();
        for oc in &list {
            run_operator(&ctx, oc, &mut op_tally, &mut rejected);
        }
        eprintln!("C37 MatMulNBits cases={} exact={} within={} rejected_forms={} t={:.1}s", op_tally.cases, op_tally.exact, op_tally.within, rejected, ctx.elapsed_s());
        if rejected > 0 {
            ctx.observe_n("MatMulNBits: explicit zero_points input / K not a multiple of block_size rejected with an error (acceptable: not a wrong product)", rejected);
        }
        samples.push(|| json!({"operator": "MatMulNBits", "cases": op_tally.cases, "bit_exact": op_tally.exact, "within_1e-5": op_tally.within, "rejected_forms": rejected}));
    }

    let reached = bq_tally.exact + bq_tally.within + ge_tally.exact + ge_tally.within + op_tally.exact + op_tally.within;
    if bq_tally.exact == 0 || op_tally.exact + op_tally.within == 0 {
        ctx.machinery("C37 vacuous: a subject never reached the oracle");
    }
    for p in &per_config {
        samples.push(|| p.clone());
    }
    let total = bq_tally.cases + ge_tally.cases + op_tally.cases;
    println!("C37 summary: cases={} reached_oracle={} (BlockQuantizedGemm {} GemmExecutor {} MatMulNBits {})", total, reached, bq_tally.cases, ge_tally.cases, op_tally.cases);
    let coverage = json!({
        "evaluations": total,
        "distinct_nontrivial": reached,
        "rule": "every (block size, k-blocks, n, m, batch) x every 4-bit code fill (16 constants, alternating pairs, position ramp) x scales {1, 0.5, -2, per-block ramp} x LHS {exactly int8-quantisable integers x 1, x 0.5; floats}: BlockQuantizedGemm Float mode on every ISA + Int8 mode; GemmExecutor+BlockQuantized for every f32 kernel; MatMulNBits models (accuracy_level 0/4, rank-2/3 A, 1-D/2-D scales, B initializer/input, zero_points and ragged K requested)",
        "exhaustive": true,
        "axes": {
            "block_sizes": block_sizes, "large_block_sizes(thin shape slice)": [128, 256], "k_blocks": k_blocks, "n": ns, "m": ms, "batch": batches,
            "code_fills": codes.len(), "scales": ["1", "0.5", "-2", "ramp 2^((col+block)%4-2)"], "lhs": ["exact ints x1", "exact ints x0.5", "exact ints with all-zero K-blocks", "zeros", "floats"],
            "isas_float_mode": isas.iter().map(|i| i.name).collect::<Vec<_>>(),
            "f32_kernels": kernel_names,
        },
        "per_subject": per_config,
        "samples": samples.take(),
    });
    ctx.finish(
        "exploration",
        coverage,
        vec![
            "exact-operand families: LHS integers in [-127,127] (x power of two) with +-127 in every block, power-of-two scales: every product and partial sum is exactly representable and the int8 activation quantisation is lossless, so equality is the oracle in both compute modes".into(),
            "float LHS family: Float mode only, |got-ref| <= 1e-5 * sum|lhs_i*w_i| (forward error relative to the accumulation scale); Int8 mode is lossy by design for such inputs and is not compared there".into(),
            "Int8 compute mode runs on the ISA chosen by SimdInt8DotOp::dispatch (AVX-512 VNNI here); there is no hook to force the other int8-dot ISAs".into(),
            "zero point is the fixed 8 of 4-bit MatMulNBits; explicit zero_points and K not a multiple of the block size are requested and must either be rejected or be correct".into(),
        ],
    );
}
