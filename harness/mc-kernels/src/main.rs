//! mc-kernels: bounded-exhaustive checks of the numeric kernels of rten
//! (rten-simd, rten-vecmath, rten-gemm and the quantized / block-quantized
//! matmul operators). Serves C16, C17, C18, C19, C37.

mod c16;
mod c17;
mod c18;
mod c18_common;
mod c18_prims;
mod c18_tails;
mod c19;
mod c37;
mod util;

fn main() {
    if let Some(w) = vp_core::isolate::worker_name() {
        match w.as_str() {
            "c18-tails" => c18::worker_entry(),
            _ => vp_core::machinery_error("unknown worker"),
        }
    }
    let prop = std::env::args().nth(1).unwrap_or_default();
    match prop.as_str() {
        "C16" => c16::run(vp_core::Ctx::from_env("C16")),
        "C17" => c17::run(vp_core::Ctx::from_env("C17")),
        "C18" => c18::run(vp_core::Ctx::from_env("C18")),
        "C19" => c19::run(vp_core::Ctx::from_env("C19")),
        "C37" => c37::run(vp_core::Ctx::from_env("C37")),
        _ => vp_core::machinery_error("unknown property (mc-kernels serves C16 C17 C18 C19 C37)"),
    }
}
