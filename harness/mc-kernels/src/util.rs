//! Shared helpers: ISA forcing, guard-page buffers, float helpers.

use rten_simd::ops::BitOps;
use rten_simd::{Isa, SimdOp};

/// One instruction set that `rten_simd::dispatch` can be forced to use.
#[derive(Clone, Copy, Debug, PartialEq, Eq)]
pub struct IsaSel {
    pub name: &'static str,
    pub force: u8,
    /// number of f32 lanes observed through `dispatch` when forced
    pub f32_lanes: usize,
}

struct LaneProbe;
impl SimdOp for LaneProbe {
    type Output = usize;
    #[inline(always)]
    fn eval<I: Isa>(self, isa: I) -> usize {
        isa.f32().len()
    }
}

/// Force `dispatch` to the given ISA (process-wide!).
pub fn force(isa: &IsaSel) {
    rten_simd::verif::force_isa(isa.force);
    let lanes = LaneProbe.dispatch();
    if lanes != isa.f32_lanes {
        vp_core::machinery_error(&format!(
            "force_isa({}) did not take effect: dispatch uses {} f32 lanes, expected {}",
            isa.name, lanes, isa.f32_lanes
        ));
    }
}

pub fn unforce() {
    rten_simd::verif::force_isa(rten_simd::verif::FORCE_NONE);
}

/// The ISAs reachable through `dispatch` on this machine, widest first.
/// Each is verified by probing the lane count through the real `dispatch`.
pub fn available_isas() -> Vec<IsaSel> {
    use rten_simd::verif::{FORCE_AVX2, FORCE_GENERIC, FORCE_NONE};
    let mut out: Vec<IsaSel> = Vec::new();
    for (force, _hint) in [(FORCE_NONE, "native"), (FORCE_AVX2, "avx2"), (FORCE_GENERIC, "generic")] {
        rten_simd::verif::force_isa(force);
        let lanes = LaneProbe.dispatch();
        let name = match lanes {
            16 => "avx512",
            8 => "avx2",
            4 => "generic",
            _ => vp_core::machinery_error("unexpected SIMD width from dispatch"),
        };
        if !out.iter().any(|i| i.f32_lanes == lanes) {
            out.push(IsaSel { name, force, f32_lanes: lanes });
        }
    }
    unforce();
    out
}

/// Arithmetic class of an ISA: the x86 ISAs use fused multiply-add and the
/// same IEEE instructions lane-wise; the generic ISA uses separate mul+add.
pub fn isa_class(name: &str) -> &'static str {
    match name {
        "generic" => "generic(no-fma)",
        _ => "x86-fma(avx2,avx512)",
    }
}

// ---------------------------------------------------------------------------
// Guard-page buffers (DESIGN §2.5)
// ---------------------------------------------------------------------------

#[derive(Clone, Copy, Debug, PartialEq, Eq)]
pub enum Placement {
    /// the slice ends exactly where a PROT_NONE page begins; canary bytes precede it
    EndGuard,
    /// the slice starts right after a PROT_NONE page; canary bytes follow it
    StartGuard,
}

/// A buffer of `len` elements of `T` adjacent to a PROT_NONE page (so that any
/// access beyond that end faults) with canary bytes on the other side.
pub struct GuardBuf<T: Copy> {
    map: *mut u8,
    map_len: usize,
    ptr: *mut T,
    len: usize,
    canary_ptr: *mut u8,
    canary_len: usize,
    place: Placement,
    pooled: bool,
}

pub const CANARY: u8 = 0xA5;
const POOL_PAGES: usize = 4;

thread_local! {
    static POOL: std::cell::RefCell<Vec<(*mut u8, Placement)>> = const { std::cell::RefCell::new(Vec::new()) };
}

unsafe impl<T: Copy> Send for GuardBuf<T> {}

impl<T: Copy> GuardBuf<T> {
    pub fn new(len: usize) -> GuardBuf<T> {
        Self::new_at(len, Placement::EndGuard)
    }

    pub fn new_at(len: usize, place: Placement) -> GuardBuf<T> {
        let page = 4096usize;
        let bytes = len * std::mem::size_of::<T>();
        let min_canary = 256usize;
        let needed_pages = (bytes + min_canary).div_ceil(page).max(1);
        // mappings are pooled per thread (mmap/mprotect are slow here); a pooled
        // mapping has POOL_PAGES data pages and one PROT_NONE page at the
        // requested side.
        let pooled = needed_pages <= POOL_PAGES;
        let data_pages = if pooled { POOL_PAGES } else { needed_pages };
        let map_len = (data_pages + 1) * page;
        unsafe {
            let reuse = if pooled { POOL.with(|p| {
                    let mut v = p.borrow_mut();
                    let pos = v.iter().position(|(_, pl)| *pl == place);
                    pos.map(|i| v.swap_remove(i).0)
                }) } else { None };
            let map = match reuse {
                Some(m) => m,
                None => {
                    let map = libc::mmap(
                        std::ptr::null_mut(),
                        map_len,
                        libc::PROT_READ | libc::PROT_WRITE,
                        libc::MAP_PRIVATE | libc::MAP_ANONYMOUS,
                        -1,
                        0,
                    );
                    if map == libc::MAP_FAILED {
                        vp_core::machinery_error("mmap failed for guard buffer");
                    }
                    let map = map as *mut u8;
                    let guard = match place {
                        Placement::EndGuard => map.add(data_pages * page),
                        Placement::StartGuard => map,
                    };
                    if libc::mprotect(guard as *mut libc::c_void, page, libc::PROT_NONE) != 0 {
                        vp_core::machinery_error("mprotect failed for guard page");
                    }
                    map
                }
            };
            let canary_len = (data_pages * page - bytes).min(1024);
            let (ptr, canary_ptr) = match place {
                Placement::EndGuard => {
                    let guard = map.add(data_pages * page);
                    let ptr = guard.sub(bytes);
                    (ptr, ptr.sub(canary_len))
                }
                Placement::StartGuard => {
                    let ptr = map.add(page);
                    (ptr, ptr.add(bytes))
                }
            };
            std::ptr::write_bytes(canary_ptr, CANARY, canary_len);
            std::ptr::write_bytes(ptr, 0xCD, bytes);
            GuardBuf { map, map_len, ptr: ptr as *mut T, len, canary_ptr, canary_len, place, pooled }
        }
    }

    pub fn from_slice(xs: &[T]) -> GuardBuf<T> {
        Self::from_slice_at(xs, Placement::EndGuard)
    }

    pub fn from_slice_at(xs: &[T], place: Placement) -> GuardBuf<T> {
        let mut g = GuardBuf::new_at(xs.len(), place);
        g.as_mut_slice().copy_from_slice(xs);
        g
    }

    pub fn as_slice(&self) -> &[T] {
        unsafe { std::slice::from_raw_parts(self.ptr, self.len) }
    }

    pub fn as_mut_slice(&mut self) -> &mut [T] {
        unsafe { std::slice::from_raw_parts_mut(self.ptr, self.len) }
    }

    pub fn as_uninit_mut(&mut self) -> &mut [std::mem::MaybeUninit<T>] {
        unsafe { std::slice::from_raw_parts_mut(self.ptr as *mut std::mem::MaybeUninit<T>, self.len) }
    }

    /// True if the canary bytes next to the data are all intact.
    pub fn canary_intact(&self) -> bool {
        unsafe { (0..self.canary_len).all(|i| *self.canary_ptr.add(i) == CANARY) }
    }
}

impl<T: Copy> Drop for GuardBuf<T> {
    fn drop(&mut self) {
        if self.pooled {
            let (m, pl) = (self.map, self.place);
            POOL.with(|p| p.borrow_mut().push((m, pl)));
            return;
        }
        unsafe {
            libc::munmap(self.map as *mut libc::c_void, self.map_len);
        }
    }
}

// ---------------------------------------------------------------------------
// SIGSEGV observer: turns a fault in the guard page into a recorded event
// for the *current case* instead of a silent crash of the engine.
// ---------------------------------------------------------------------------

use std::sync::atomic::{AtomicBool, Ordering};

static SEGV_INSTALLED: AtomicBool = AtomicBool::new(false);

/// Buffer where the case being executed is described (written before the case
/// runs, printed by the signal handler). Fixed size, no allocation in handler.
static mut CASE_DESC: [u8; 512] = [0; 512];
static mut CASE_DESC_LEN: usize = 0;

pub fn set_case_desc(s: &str) {
    unsafe {
        let n = s.len().min(511);
        let dst = &raw mut CASE_DESC;
        std::ptr::copy_nonoverlapping(s.as_ptr(), (*dst).as_mut_ptr(), n);
        CASE_DESC_LEN = n;
    }
}

extern "C" fn segv_handler(_sig: libc::c_int) {
    unsafe {
        let msg = b"GUARD-PAGE-FAULT case=";
        libc::write(1, msg.as_ptr() as *const libc::c_void, msg.len());
        let src = &raw const CASE_DESC;
        libc::write(1, (*src).as_ptr() as *const libc::c_void, CASE_DESC_LEN);
        libc::write(1, b"\n".as_ptr() as *const libc::c_void, 1);
        libc::_exit(3);
    }
}

/// Install a SIGSEGV/SIGBUS handler that prints the current case description
/// and exits with code 3 (used only inside worker processes).
pub fn install_segv_reporter() {
    if SEGV_INSTALLED.swap(true, Ordering::SeqCst) {
        return;
    }
    unsafe {
        let mut sa: libc::sigaction = std::mem::zeroed();
        sa.sa_sigaction = segv_handler as *const () as usize;
        libc::sigemptyset(&mut sa.sa_mask);
        libc::sigaction(libc::SIGSEGV, &sa, std::ptr::null_mut());
        libc::sigaction(libc::SIGBUS, &sa, std::ptr::null_mut());
    }
}

// ---------------------------------------------------------------------------
// float helpers
// ---------------------------------------------------------------------------

/// Size of the unit in the last place, following rten-vecmath/src/ulp.rs
/// (`next_up(bits+1) - x`), except that ulp(±0) is the smallest positive
/// subnormal (the crate's test helper uses `f32::MIN`, the most negative
/// finite float, which makes every comparison against an expected value of
/// zero pass; the Java `Math.ulp` it cites returns `Float.MIN_VALUE`).
pub fn ulp_f32(x: f32) -> f32 {
    if x.is_nan() {
        x
    } else if x.is_infinite() {
        f32::INFINITY
    } else if x == 0.0 {
        f32::from_bits(1)
    } else if x == f32::MIN || x == f32::MAX {
        f32::from_bits((127 + 104) << 23)
    } else {
        let bits = x.to_bits();
        let next_up = f32::from_bits(bits + 1);
        (next_up - x).abs()
    }
}

pub fn f32_json(x: f32) -> vp_core::Json {
    vp_core::json!({"bits": format!("0x{:08x}", x.to_bits()), "value": format!("{:e}", x)})
}
