//! C35 - Polygon algorithms return geometrically valid results.
//!
//! Box: every sequence of 0..=N points of the 4x4 integer lattice (repeats and collinear runs
//! included), and its images under a list of scalings / translations; epsilon in {0, 0.5, 1, 2}
//! (scaled with the image). Oracle: exact i64 predicates on the lattice pre-image.

use rten_imageproc::{PointF, RotatedRect, convex_hull, min_area_rect, simplify_polygon, simplify_polyline};
use vp_core::{Ctx, Json, json};

use crate::util::{Local, chunks, hash_of, ju};

pub const GRID: i64 = 4;
/// twice epsilon, so that the exact predicates stay in integers
pub const EPS2: [i64; 4] = [0, 1, 2, 4];

#[derive(Clone, Copy, Debug, PartialEq)]
pub enum Tf {
    Identity,
    Scale(f32),
    Translate(f32),
}

impl Tf {
    pub fn apply(self, v: i64) -> f32 {
        match self {
            Tf::Identity => v as f32,
            Tf::Scale(s) => v as f32 * s,
            Tf::Translate(t) => v as f32 + t,
        }
    }
    pub fn eps(self, eps2: i64) -> f32 {
        let e = eps2 as f32 * 0.5;
        match self {
            Tf::Scale(s) => e * s,
            _ => e,
        }
    }
    /// Input class named in signatures: is the f32 image an exact affine image of the lattice
    /// (all coordinates and all coordinate differences exactly representable), or rounded?
    pub fn class(self) -> &'static str {
        let exact = (0..GRID).all(|k| {
            let v = self.apply(k) as f64;
            match self {
                Tf::Identity => true,
                Tf::Scale(s) => v == k as f64 * s as f64,
                Tf::Translate(t) => v == k as f64 + t as f64,
            }
        });
        if exact { "exactly representable coordinates" } else { "rounded coordinates" }
    }
    pub fn to_json(self) -> Json {
        match self {
            Tf::Identity => json!({"kind": "identity"}),
            Tf::Scale(s) => json!({"kind": "scale", "factor": s}),
            Tf::Translate(t) => json!({"kind": "translate", "offset": t}),
        }
    }
    pub fn from_json(v: &Json) -> Tf {
        match v["kind"].as_str().unwrap_or("") {
            "identity" => Tf::Identity,
            "scale" => Tf::Scale(v["factor"].as_f64().unwrap_or(1.0) as f32),
            "translate" => Tf::Translate(v["offset"].as_f64().unwrap_or(0.0) as f32),
            _ => vp_core::machinery_error("replay: unknown transform"),
        }
    }
    /// f32 image -> lattice coordinate (None if the value is not the image of a lattice coordinate)
    fn inverse(self, v: f32) -> Option<i64> {
        (0..GRID).find(|&k| self.apply(k).to_bits() == v.to_bits())
    }
}

/// Functions under test (indirection kept so that a scratch harness can substitute local copies).
pub struct PolyFns {
    pub hull: fn(&[PointF]) -> Vec<PointF>,
    pub min_area_rect: fn(&[PointF]) -> Option<RotatedRect>,
    pub polyline: fn(&[PointF], f32) -> Vec<PointF>,
    pub polygon: fn(&[PointF], f32) -> Vec<PointF>,
}

pub static RTEN_POLY: PolyFns = PolyFns {
    hull: convex_hull,
    min_area_rect,
    polyline: simplify_polyline,
    polygon: simplify_polygon,
};

pub type L = (i64, i64); // (y, x)

fn cross(o: L, a: L, b: L) -> i64 {
    (a.1 - o.1) * (b.0 - o.0) - (a.0 - o.0) * (b.1 - o.1)
}

fn back(tf: Tf, pts: &[PointF]) -> Option<Vec<L>> {
    pts.iter().map(|p| Some((tf.inverse(p.y)?, tf.inverse(p.x)?))).collect()
}

/// 4 * dist(p, segment ab)^2 <= eps2^2, exactly (eps2 = 2*epsilon).
fn within(p: L, a: L, b: L, eps2: i64) -> bool {
    let (aby, abx) = (b.0 - a.0, b.1 - a.1);
    let (apy, apx) = (p.0 - a.0, p.1 - a.1);
    let len2 = aby * aby + abx * abx;
    let e = eps2 * eps2;
    if len2 == 0 {
        return 4 * (apy * apy + apx * apx) <= e;
    }
    let t = apy * aby + apx * abx;
    if t <= 0 {
        return 4 * (apy * apy + apx * apx) <= e;
    }
    if t >= len2 {
        let (bpy, bpx) = (p.0 - b.0, p.1 - b.1);
        return 4 * (bpy * bpy + bpx * bpx) <= e;
    }
    let c = apx * aby - apy * abx;
    4 * c * c <= e * len2
}

pub type Fail = (String, String);

pub fn check_hull(fns: &PolyFns, tf: Tf, input: &[L], pts: &[PointF], loc: &mut Local) -> Vec<Fail> {
    let mut fails = Vec::new();
    let class = tf.class();
    let hull = match vp_core::catch(|| (fns.hull)(pts)) {
        Ok(h) => h,
        Err(e) => {
            fails.push((format!("convex_hull: panicked [{class}]"), format!("panic: {e}")));
            return fails;
        }
    };
    loc.add("hull_calls", 1);
    if input.is_empty() {
        if !hull.is_empty() {
            fails.push((format!("convex_hull: non-empty hull of an empty point set [{class}]"), format!("hull {hull:?}")));
        }
        return fails;
    }
    if hull.is_empty() {
        fails.push((format!("convex_hull: empty hull of a non-empty point set [{class}]"), String::new()));
        return fails;
    }
    // uses only input points
    let hl = match back(tf, &hull) {
        Some(h) if h.iter().all(|v| input.contains(v)) => h,
        _ => {
            fails.push((
                format!("convex_hull: hull vertex is not an input point [{class}]"),
                format!("hull {hull:?}"),
            ));
            return fails;
        }
    };
    if tf == Tf::Identity {
        let mut key = vec![1u64];
        key.extend(hl.iter().map(|v| (v.0 * GRID + v.1) as u64));
        loc.outcomes.insert(hash_of(&key));
    }
    if hl.len() >= 3 {
        loc.add("hulls_with_3plus_vertices", 1);
    }
    // convex: every hull vertex on one side (non-strictly) of every hull edge, same
    // orientation for all edges
    let n = hl.len();
    let (mut pos, mut neg) = (false, false);
    for i in 0..n {
        let (a, b) = (hl[i], hl[(i + 1) % n]);
        for &v in &hl {
            let c = cross(a, b, v);
            pos |= c > 0;
            neg |= c < 0;
        }
    }
    if pos && neg {
        fails.push((
            format!("convex_hull: result is not convex [{class}]"),
            format!("hull (y,x) {hl:?} has vertices on both sides of one of its edges"),
        ));
        return fails;
    }
    // contains every input point
    let degenerate = !pos && !neg;
    let inside = |p: L| -> bool {
        if degenerate {
            // all hull vertices collinear: the hull is the segment between its extreme vertices
            let a = *hl.iter().min().unwrap();
            let b = *hl.iter().max().unwrap();
            if a == b {
                return p == a;
            }
            if cross(a, b, p) != 0 {
                return false;
            }
            let t = (p.0 - a.0) * (b.0 - a.0) + (p.1 - a.1) * (b.1 - a.1);
            let len2 = (b.0 - a.0) * (b.0 - a.0) + (b.1 - a.1) * (b.1 - a.1);
            t >= 0 && t <= len2
        } else {
            (0..n).all(|i| {
                let c = cross(hl[i], hl[(i + 1) % n], p);
                if pos { c >= 0 } else { c <= 0 }
            })
        }
    };
    if let Some(p) = input.iter().find(|&&p| !inside(p)) {
        let collinear_through_pivot = {
            // discriminating feature: is the missed point collinear with two other input points?
            input.iter().any(|&a| input.iter().any(|&b| a != b && a != *p && b != *p && cross(a, b, *p) == 0))
        };
        fails.push((
            format!(
                "convex_hull: an input point lies outside the hull [{class}; missed point {} collinear with two other input points]",
                if collinear_through_pivot { "is" } else { "is not" }
            ),
            format!("input point (y,x) {p:?} outside hull {hl:?}"),
        ));
    }
    fails
}

pub fn check_min_area_rect(fns: &PolyFns, tf: Tf, input: &[L], pts: &[PointF], loc: &mut Local) -> Vec<Fail> {
    let mut fails = Vec::new();
    let class = tf.class();
    let r = match vp_core::catch(|| (fns.min_area_rect)(pts)) {
        Ok(r) => r,
        Err(e) => {
            fails.push((format!("min_area_rect: panicked [{class}]"), format!("panic: {e}")));
            return fails;
        }
    };
    loc.add("min_area_rect_calls", 1);
    let Some(r) = r else {
        if !input.is_empty() {
            fails.push((format!("min_area_rect: None for a non-empty point set [{class}]"), String::new()));
        }
        return fails;
    };
    if input.is_empty() {
        return fails;
    }
    let (cy, cx) = (r.center().y as f64, r.center().x as f64);
    let (uy, ux) = (r.up_axis().y as f64, r.up_axis().x as f64);
    let (w, h) = (r.width() as f64, r.height() as f64);
    let maxabs = pts.iter().fold(0f64, |m, p| m.max(p.y.abs() as f64).max(p.x.abs() as f64));
    let (mut miny, mut maxy, mut minx, mut maxx) = (f64::MAX, f64::MIN, f64::MAX, f64::MIN);
    for p in pts {
        miny = miny.min(p.y as f64);
        maxy = maxy.max(p.y as f64);
        minx = minx.min(p.x as f64);
        maxx = maxx.max(p.x as f64);
    }
    let extent = ((maxy - miny).powi(2) + (maxx - minx).powi(2)).sqrt();
    // 1e-3 of the extent of the point set + 4 ulp of the largest coordinate (the centre of the
    // rectangle has to be rounded to f32)
    let slack = 1e-3 * extent + 4.0 * maxabs * f32::EPSILON as f64;
    if !(w.is_finite() && h.is_finite() && cy.is_finite() && cx.is_finite() && uy.is_finite() && ux.is_finite()) {
        fails.push((
            format!("min_area_rect: non-finite rectangle [{class}]"),
            format!("center ({cy},{cx}) up ({uy},{ux}) width {w} height {h}"),
        ));
        return fails;
    }
    if w > 0.0 && h > 0.0 {
        loc.add("min_area_rects_with_area", 1);
    }
    for (p, l) in pts.iter().zip(input) {
        let (dy, dx) = (p.y as f64 - cy, p.x as f64 - cx);
        let along_up = (dy * uy + dx * ux).abs();
        let across = (dy * ux - dx * uy).abs();
        if along_up > h / 2.0 + slack || across > w / 2.0 + slack {
            fails.push((
                format!("min_area_rect: an input point lies outside the rectangle [{class}]"),
                format!(
                    "lattice point (y,x) {l:?} = ({}, {}): |proj on up| {along_up} vs h/2 {}, |proj across| {across} vs w/2 {} (slack {slack}); rect center ({cy},{cx}) up ({uy},{ux}) w {w} h {h}",
                    p.y,
                    p.x,
                    h / 2.0,
                    w / 2.0
                ),
            ));
            break;
        }
    }
    fails
}

pub fn check_simplify(
    fns: &PolyFns,
    closed: bool,
    tf: Tf,
    input: &[L],
    pts: &[PointF],
    eps2: i64,
    loc: &mut Local,
) -> Vec<Fail> {
    let mut fails = Vec::new();
    let class = tf.class();
    let name = if closed { "simplify_polygon" } else { "simplify_polyline" };
    let eps = tf.eps(eps2);
    let out = match vp_core::catch(|| if closed { (fns.polygon)(pts, eps) } else { (fns.polyline)(pts, eps) }) {
        Ok(o) => o,
        Err(e) => {
            if input.is_empty() {
                loc.observe(&format!("{name}: panics on an empty point list"));
            } else {
                fails.push((format!("{name}: panicked [{class}]"), format!("panic: {e}")));
            }
            return fails;
        }
    };
    loc.add("simplify_calls", 1);
    if input.is_empty() {
        if !out.is_empty() {
            fails.push((format!("{name}: points invented for an empty input [{class}]"), format!("{out:?}")));
        }
        return fails;
    }
    let Some(ol) = back(tf, &out) else {
        fails.push((format!("{name}: result is not a subsequence of the input [{class}]"), format!("result {out:?} contains a point that is not an input point")));
        return fails;
    };
    // keeps the first point
    if ol.first() != Some(&input[0]) {
        fails.push((
            format!("{name}: first point not kept [{class}]"),
            format!("input (y,x) {input:?} eps {} result {ol:?}", eps2 as f64 / 2.0),
        ));
        return fails;
    }
    // subsequence (greedy matching is complete for subsequence tests)
    let mut i = 0;
    for v in &ol {
        while i < input.len() && input[i] != *v {
            i += 1;
        }
        if i == input.len() {
            fails.push((
                format!("{name}: result is not a subsequence of the input [{class}]"),
                format!("input (y,x) {input:?} eps {} result {ol:?}", eps2 as f64 / 2.0),
            ));
            return fails;
        }
        i += 1;
    }
    if !closed && ol.last() != input.last() {
        loc.observe("simplify_polyline: last point not kept (documented, not part of the statement)");
    }
    if ol.len() < input.len() {
        loc.add("simplifications_that_removed_points", 1);
    }
    // every input point within eps of the simplified outline
    let nseg = if closed { ol.len() } else { ol.len().saturating_sub(1) };
    let near = |p: L| -> bool {
        if ol.len() == 1 {
            return within(p, ol[0], ol[0], eps2);
        }
        (0..nseg).any(|s| within(p, ol[s], ol[(s + 1) % ol.len()], eps2))
    };
    if let Some(p) = input.iter().find(|&&p| !near(p)) {
        fails.push((
            format!("{name}: a removed point is farther than epsilon from the simplified outline [{class}]"),
            format!("input (y,x) {input:?} eps {} result {ol:?}: point {p:?} is farther than eps from every segment", eps2 as f64 / 2.0),
        ));
    }
    fails
}

fn lattice_seq(n: usize, mut idx: usize) -> Vec<L> {
    let mut v = vec![(0, 0); n];
    for i in (0..n).rev() {
        let k = (idx % 16) as i64;
        idx /= 16;
        v[i] = (k / GRID, k % GRID);
    }
    v
}

fn to_pts(tf: Tf, l: &[L]) -> Vec<PointF> {
    l.iter().map(|&(y, x)| PointF::from_yx(tf.apply(y), tf.apply(x))).collect()
}

fn case_json(func: &str, tf: Tf, input: &[L], eps2: Option<i64>) -> Json {
    json!({
        "fn": func, "transform": tf.to_json(),
        "lattice_points_yx": input.iter().map(|p| vec![p.0, p.1]).collect::<Vec<_>>(),
        "eps2": eps2,
        "note": "point = (transform(y), transform(x)) as f32; scale: k as f32 * factor; translate: k as f32 + offset; epsilon = eps2/2 (times factor for a scaling)"
    })
}

/// All checks for one (sequence, transform). `record(sig, detail, func, eps2)`.
pub fn check_all(fns: &PolyFns, tf: Tf, input: &[L], loc: &mut Local, mut record: impl FnMut(&mut Local, Fail, &str, Option<i64>)) {
    let pts = to_pts(tf, input);
    for f in check_hull(fns, tf, input, &pts, loc) {
        record(loc, f, "convex_hull", None);
    }
    for f in check_min_area_rect(fns, tf, input, &pts, loc) {
        record(loc, f, "min_area_rect", None);
    }
    for &e in &EPS2 {
        for f in check_simplify(fns, false, tf, input, &pts, e, loc) {
            record(loc, f, "simplify_polyline", Some(e));
        }
        for f in check_simplify(fns, true, tf, input, &pts, e, loc) {
            record(loc, f, "simplify_polygon", Some(e));
        }
    }
}

pub fn transforms(thorough: bool) -> Vec<(Tf, bool)> {
    // (transform, verdict?) - the extreme scalings are observation-only: the design box for
    // verdicts is x1e-3, x1e6 and +1e6
    let mut v = vec![
        (Tf::Identity, true),
        (Tf::Scale(1e-3), true),
        (Tf::Scale(1e6), true),
        (Tf::Translate(1e6), true),
    ];
    if thorough {
        v.push((Tf::Scale(2f32.powi(-10)), true)); // exact
        v.push((Tf::Scale(2f32.powi(20)), true)); // exact
        v.push((Tf::Translate(-1.5), true));
        v.push((Tf::Scale(2f32.powi(-70)), false));
        v.push((Tf::Scale(2f32.powi(70)), false));
    }
    v
}

pub fn explore(fns: &'static PolyFns, max_n: usize, tfs: &[(Tf, bool)], sample_cap: usize) -> (Local, Vec<Json>) {
    let mut total = Local::new();
    let mut axes = Vec::new();
    for n in 0..=max_n {
        let count = 16usize.pow(n as u32);
        let shards = chunks(count, 1024);
        let locals = vp_core::par::map(shards.len(), |si| {
            let (s, e) = shards[si];
            let mut loc = Local::new();
            for idx in s..e {
                let input = lattice_seq(n, idx);
                loc.add("sequences", 1);
                let distinct = {
                    let mut d = input.clone();
                    d.sort();
                    d.dedup();
                    d.len()
                };
                if distinct >= 3 {
                    loc.add("nontrivial", 1);
                }
                if distinct < input.len() {
                    loc.add("sequences_with_repeated_points", 1);
                }
                for &(tf, verdict) in tfs {
                    check_all(fns, tf, &input, &mut loc, |loc, (sig, detail), func, eps2| {
                        if verdict {
                            loc.violation(&sig, || case_json(func, tf, &input, eps2), || detail);
                        } else {
                            loc.observe(&format!("extreme scale (observation only): {sig}"));
                        }
                    });
                }
                if n >= 3 && idx.wrapping_mul(0x9E3779B97F4A7C15) >> 48 == 5 {
                    loc.sample(1, || {
                        let pts = to_pts(Tf::Identity, &input);
                        let hull = vp_core::catch(|| (fns.hull)(&pts)).unwrap_or_default();
                        let simp = vp_core::catch(|| (fns.polygon)(&pts, 1.0)).unwrap_or_default();
                        json!({"lattice_points_yx": input.iter().map(|p| vec![p.0, p.1]).collect::<Vec<_>>(),
                               "convex_hull_yx": hull.iter().map(|p| vec![p.y, p.x]).collect::<Vec<_>>(),
                               "simplify_polygon_eps1_yx": simp.iter().map(|p| vec![p.y, p.x]).collect::<Vec<_>>()})
                    });
                }
            }
            loc
        });
        let mut nl = Local::new();
        for l in locals {
            nl.absorb(l, 3);
        }
        axes.push(json!({"points_per_sequence": n, "sequences": count,
                         "violating_cases": nl.viol.values().map(|v| v.2).sum::<u64>()}));
        total.absorb(nl, sample_cap);
    }
    (total, axes)
}

fn run_case(fns: &PolyFns, c: &Json, loc: &mut Local) -> Vec<Fail> {
    let tf = Tf::from_json(&c["transform"]);
    let input: Vec<L> = c["lattice_points_yx"]
        .as_array()
        .unwrap_or_else(|| vp_core::machinery_error("replay: points missing"))
        .iter()
        .map(|p| (p[0].as_i64().unwrap_or(0), p[1].as_i64().unwrap_or(0)))
        .collect();
    let pts = to_pts(tf, &input);
    match c["fn"].as_str().unwrap_or("") {
        "convex_hull" => check_hull(fns, tf, &input, &pts, loc),
        "min_area_rect" => check_min_area_rect(fns, tf, &input, &pts, loc),
        "simplify_polyline" => check_simplify(fns, false, tf, &input, &pts, ju(c, "eps2") as i64, loc),
        "simplify_polygon" => check_simplify(fns, true, tf, &input, &pts, ju(c, "eps2") as i64, loc),
        _ => vp_core::machinery_error("replay: unknown fn"),
    }
}

pub fn run(ctx: Ctx) -> ! {
    if let Some(path) = ctx.replay.clone() {
        let case = vp_core::read_replay_case(&path);
        let mut loc = Local::new();
        let fails = run_case(&RTEN_POLY, &case, &mut loc);
        for (sig, detail) in &fails {
            ctx.violation(sig.as_str(), case.clone(), detail.as_str());
        }
        println!("C35 replay: {} failing clause(s)", fails.len());
        ctx.finish(
            "exploration",
            json!({"evaluations": 1, "distinct_nontrivial": 2, "rule": "replay of one stored case", "samples": [case], "exhaustive": false}),
            vec![],
        );
    }
    let thorough = ctx.tier.is_thorough();
    let max_n = if thorough { 6 } else { 5 };
    let tfs = transforms(thorough);
    let (mut total, axes) = explore(&RTEN_POLY, max_n, &tfs, 10);
    for (sig, (case, _, _)) in &total.viol {
        for _ in 0..2 {
            let mut l = Local::new();
            if !run_case(&RTEN_POLY, case, &mut l).iter().any(|(s, _)| s == sig) {
                ctx.machinery(&format!("C35: violation '{sig}' did not reproduce"));
            }
        }
    }
    if total.get("hulls_with_3plus_vertices") == 0
        || total.get("simplifications_that_removed_points") == 0
        || total.get("min_area_rects_with_area") == 0
    {
        ctx.machinery("C35: oracle never reached a non-degenerate case (vacuous run)");
    }
    let evaluations = total.get("hull_calls") + total.get("min_area_rect_calls") + total.get("simplify_calls");
    let nontrivial = total.get("nontrivial");
    let counts = json!(total.counts);
    let distinct_outcomes = total.outcomes.len() as u64;
    let samples = std::mem::take(&mut total.samples);
    let n_viol: u64 = total.viol.values().map(|v| v.2).sum();
    let n_sigs = total.viol.len();
    let by_sig: Vec<Json> = total.viol.iter().map(|(s, v)| json!({"signature": s, "violating_cases": v.2})).collect();
    total.flush(&ctx);
    println!(
        "C35 summary: {} sequences (<= {} points) x {} transforms, {} calls, {} distinct hulls, {} violating cases in {} signature(s)",
        counts["sequences"],
        max_n,
        tfs.len(),
        evaluations,
        distinct_outcomes,
        n_viol,
        n_sigs
    );
    ctx.finish(
        "exploration",
        json!({
            "evaluations": evaluations,
            "distinct_nontrivial": nontrivial,
            "rule": "every sequence of 0..=N points of the 4x4 integer lattice (16^n sequences per length, repeats and collinear runs included) x every listed transform; per (sequence, transform): convex_hull, min_area_rect, simplify_polyline and simplify_polygon for epsilon in {0,0.5,1,2} (scaled with a scaling). non-trivial = sequence with >= 3 distinct points (each sequence is enumerated once, so they are distinct by construction)",
            "samples": samples,
            "exhaustive": true,
            "max_points": max_n,
            "transforms": tfs.iter().map(|(t, v)| json!({"transform": t.to_json(), "verdict": v})).collect::<Vec<_>>(),
            "epsilons": [0.0, 0.5, 1.0, 2.0],
            "per_length": axes,
            "counts": counts,
            "violating_cases_by_signature_exact": by_sig,
            "distinct_hull_outcomes": distinct_outcomes,
        }),
        vec![
            "exact i64 predicates are evaluated on the lattice pre-image; for the non-exact scalings (1e-3) the f32 images are within 1 ulp of proportional, which cannot change a strict lattice turn".into(),
            "convexity is non-strict (collinear hull vertices are accepted); containment includes the boundary".into(),
            "min_area_rect containment is checked in f64 with slack 1e-3 x (diagonal of the point set's bounding box) + 4 ulp of the largest |coordinate|".into(),
            "simplification: every INPUT point (hence every removed one) must be within epsilon of some segment of the simplified outline (closed for polygons); distance compared exactly in integers".into(),
            "a panic on a non-empty input is reported as a violation (the statement prescribes a result); simplify_polygon on an empty list panics by construction and is only observed".into(),
            "scalings by 2^-70 and 2^70 (thorough) are observation-only".into(),
        ],
    );
}
