//! C36 - Contour tracing and drawing stay on the image.
//!
//! Part A (contours): every binary mask of the listed sizes x both retrieval modes. Oracle:
//! flood fill (8-connected foreground, 4-connected background) written here.
//! Part B (drawing): every rectangle / line / polygon on a small integer lattice that extends
//! beyond the image, on a small image. Oracle: changed pixels are a subset of
//! image ∩ (bounding box of the shape inflated by the stroke width).
//!
//! Drawing calls run in isolated child processes of this binary with an in-child stuck
//! detector, because `Polygon::fill_iter` (also used by wide lines) does not return in useful
//! time for some degenerate polygons; such calls are reported as observations
//! ("did not return") and the enumeration continues after them.

use std::sync::atomic::{AtomicBool, AtomicU64, AtomicUsize, Ordering};
use std::sync::{Arc, Mutex};
use std::time::{Duration, Instant};

use rten_imageproc::{
    Line, Point, Polygon, Rect, RetrievalMode, draw_line, draw_polygon, fill_rect, find_contours, stroke_rect,
};
use rten_tensor::NdTensor;
use rten_tensor::prelude::*;
use vp_core::isolate::{Outcome, Worker};
use vp_core::{Ctx, Json, json};

use crate::util::{Local, chunks, hash_of, ju};

// =======================================================================================
// Part A: contours

#[derive(Clone, Copy, PartialEq, Eq, Debug)]
pub enum Mode {
    List,
    External,
}

impl Mode {
    fn name(self) -> &'static str {
        match self {
            Mode::List => "List",
            Mode::External => "External",
        }
    }
}

/// The function under test (indirection kept so that a scratch harness can substitute a local copy).
pub type ContourFn = dyn Fn(usize, usize, &[bool], Mode) -> Vec<Vec<(i32, i32)>> + Sync;

pub fn rten_contours(h: usize, w: usize, mask: &[bool], mode: Mode) -> Vec<Vec<(i32, i32)>> {
    let t = NdTensor::from_data([h, w], mask.to_vec());
    let polys = find_contours(
        t.view(),
        match mode {
            Mode::List => RetrievalMode::List,
            Mode::External => RetrievalMode::External,
        },
    );
    polys
        .iter()
        .map(|poly| poly.iter().map(|p| (p.y, p.x)).collect())
        .collect()
}

/// Reference analysis of a mask.
struct MaskRef {
    /// component label per pixel (usize::MAX for background), components numbered in raster
    /// order of their first pixel
    label: Vec<usize>,
    /// raster-first pixel of every component
    first: Vec<(usize, usize)>,
    /// component is 4-adjacent to the background region connected to the outside
    external: Vec<bool>,
    /// outer-border pixels of every component: pixels 4-adjacent to the part of the
    /// complement of the component that is 4-connected to the outside of the image
    outer_border: Vec<Vec<(usize, usize)>>,
}

fn analyse(h: usize, w: usize, mask: &[bool]) -> MaskRef {
    let at = |y: i32, x: i32| -> bool { y >= 0 && x >= 0 && (y as usize) < h && (x as usize) < w && mask[y as usize * w + x as usize] };
    let mut label = vec![usize::MAX; h * w];
    let mut first = Vec::new();
    for y in 0..h {
        for x in 0..w {
            if mask[y * w + x] && label[y * w + x] == usize::MAX {
                let id = first.len();
                first.push((y, x));
                let mut stack = vec![(y as i32, x as i32)];
                label[y * w + x] = id;
                while let Some((cy, cx)) = stack.pop() {
                    for dy in -1..=1 {
                        for dx in -1..=1 {
                            let (ny, nx) = (cy + dy, cx + dx);
                            if at(ny, nx) && label[ny as usize * w + nx as usize] == usize::MAX {
                                label[ny as usize * w + nx as usize] = id;
                                stack.push((ny, nx));
                            }
                        }
                    }
                }
            }
        }
    }
    // Padded grid, coordinates shifted by one.
    let (ph, pw) = (h + 2, w + 2);
    let flood = |blocked: &dyn Fn(usize, usize) -> bool| -> Vec<bool> {
        // 4-connected flood from the padded corner over cells that are not blocked
        let mut seen = vec![false; ph * pw];
        let mut stack = vec![(0usize, 0usize)];
        seen[0] = true;
        while let Some((y, x)) = stack.pop() {
            let nb = [(y as i32 - 1, x as i32), (y as i32 + 1, x as i32), (y as i32, x as i32 - 1), (y as i32, x as i32 + 1)];
            for (ny, nx) in nb {
                if ny < 0 || nx < 0 || ny as usize >= ph || nx as usize >= pw {
                    continue;
                }
                let (ny, nx) = (ny as usize, nx as usize);
                if !seen[ny * pw + nx] && !blocked(ny, nx) {
                    seen[ny * pw + nx] = true;
                    stack.push((ny, nx));
                }
            }
        }
        seen
    };
    let fg_padded = |py: usize, px: usize| -> Option<usize> {
        if py >= 1 && px >= 1 && py <= h && px <= w && mask[(py - 1) * w + (px - 1)] {
            Some(label[(py - 1) * w + (px - 1)])
        } else {
            None
        }
    };
    let outer_bg = flood(&|y, x| fg_padded(y, x).is_some());
    let n = first.len();
    let mut external = vec![false; n];
    let mut outer_border = vec![Vec::new(); n];
    for c in 0..n {
        let outside_of_c = flood(&|y, x| fg_padded(y, x) == Some(c));
        for y in 0..h {
            for x in 0..w {
                if label[y * w + x] != c {
                    continue;
                }
                let (py, px) = (y + 1, x + 1);
                let nb = [(py - 1, px), (py + 1, px), (py, px - 1), (py, px + 1)];
                if nb.iter().any(|&(a, b)| outer_bg[a * pw + b]) {
                    external[c] = true;
                }
                if nb.iter().any(|&(a, b)| outside_of_c[a * pw + b]) {
                    outer_border[c].push((y, x));
                }
            }
        }
    }
    MaskRef { label, first, external, outer_border }
}

fn mask_bits(h: usize, w: usize, bits: u64) -> Vec<bool> {
    (0..h * w).map(|i| bits >> i & 1 == 1).collect()
}

fn mask_rows(h: usize, w: usize, mask: &[bool]) -> Vec<String> {
    (0..h)
        .map(|y| (0..w).map(|x| if mask[y * w + x] { '#' } else { '.' }).collect())
        .collect()
}

/// Check one (mask, mode). Returns failures (signature, detail).
pub fn check_contours(f: &ContourFn, h: usize, w: usize, mask: &[bool], mode: Mode, loc: &mut Local) -> Vec<(String, String)> {
    let mut fails = Vec::new();
    let site = format!("find_contours({})", mode.name());
    let contours = match vp_core::catch(|| f(h, w, mask, mode)) {
        Ok(c) => c,
        Err(e) => {
            fails.push((format!("{site}: panicked"), format!("panic: {e}")));
            return fails;
        }
    };
    let r = analyse(h, w, mask);
    loc.add("contours_returned", contours.len() as u64);
    loc.add("components", r.first.len() as u64);
    let in_range = |(y, x): (i32, i32)| y >= 0 && x >= 0 && (y as usize) < h && (x as usize) < w;
    let fg = |y: i32, x: i32| in_range((y, x)) && mask[y as usize * w + x as usize];
    for c in &contours {
        for &(y, x) in c {
            loc.add("contour_points_checked", 1);
            if !in_range((y, x)) {
                fails.push((format!("{site}: contour point outside the image"), format!("point (y={y},x={x}) in contour {c:?}")));
                continue;
            }
            if !fg(y, x) {
                fails.push((format!("{site}: contour point is a background pixel"), format!("point (y={y},x={x}) in contour {c:?}")));
                continue;
            }
            let mut adj8 = false;
            let mut adj4 = false;
            for dy in -1..=1 {
                for dx in -1..=1 {
                    if (dy, dx) != (0, 0) && !fg(y + dy, x + dx) {
                        adj8 = true;
                        if dy == 0 || dx == 0 {
                            adj4 = true;
                        }
                    }
                }
            }
            if !adj8 {
                fails.push((
                    format!("{site}: contour point not adjacent to background or image edge"),
                    format!("point (y={y},x={x}) in contour {c:?}"),
                ));
            } else if !adj4 {
                loc.observe("find_contours: contour point touches background only diagonally (8- but not 4-adjacent)");
            }
        }
    }
    // every component (External: every component touching the outer background) has an outer contour
    for (ci, &(fy, fx)) in r.first.iter().enumerate() {
        if mode == Mode::External && !r.external[ci] {
            loc.add("components_enclosed_by_another_component", 1);
            continue;
        }
        loc.add("components_requiring_outer_contour", 1);
        let own = |c: &Vec<(i32, i32)>| {
            c.iter().all(|&p| in_range(p) && r.label[p.0 as usize * w + p.1 as usize] == ci)
        };
        let through_first: Vec<&Vec<(i32, i32)>> = contours
            .iter()
            .filter(|c| c.contains(&(fy as i32, fx as i32)) && own(c))
            .collect();
        if through_first.is_empty() {
            fails.push((
                format!("{site}: component has no contour through its raster-first pixel made of its own pixels"),
                format!("component #{ci} first pixel (y={fy},x={fx}); contours {contours:?}"),
            ));
            continue;
        }
        let covers = |c: &Vec<(i32, i32)>| r.outer_border[ci].iter().all(|&(y, x)| c.contains(&(y as i32, x as i32)));
        if !through_first.iter().any(|c| covers(c)) {
            fails.push((
                format!("{site}: outer contour misses outer-border pixels of its component"),
                format!(
                    "component #{ci} outer-border pixels {:?}; contours through its first pixel {:?}",
                    r.outer_border[ci], through_first
                ),
            ));
        }
    }
    let mut key = vec![mode as u64];
    for c in &contours {
        key.push(u64::MAX);
        for &(y, x) in c {
            key.push(((y as u64) << 32) | (x as u32 as u64));
        }
    }
    if h * w <= 16 {
        // distinct-outcome bookkeeping only for the small sizes (the big sweeps would need GBs)
        loc.outcomes.insert(hash_of(&key));
    }
    fails
}

fn contour_case(h: usize, w: usize, mask: &[bool], mode: Mode) -> Json {
    let bits: u64 = mask.iter().enumerate().map(|(i, &b)| (b as u64) << i).sum();
    json!({"part": "contours", "h": h, "w": w, "bits": bits, "rows": mask_rows(h, w, mask), "mode": mode.name()})
}

pub fn explore_contours(f: &ContourFn, sizes: &[(usize, usize)], sample_cap: usize) -> (Local, Vec<Json>) {
    let mut total = Local::new();
    let mut axes = Vec::new();
    for &(h, w) in sizes {
        let t0 = Instant::now();
        let n = 1usize << (h * w);
        let shards = chunks(n, 2048);
        let locals = vp_core::par::map(shards.len(), |si| {
            let (s, e) = shards[si];
            let mut loc = Local::new();
            for bits in s..e {
                let mask = mask_bits(h, w, bits as u64);
                for mode in [Mode::List, Mode::External] {
                    loc.add("contour_calls", 1);
                    for (sig, detail) in check_contours(f, h, w, &mask, mode, &mut loc) {
                        loc.violation(&sig, || contour_case(h, w, &mask, mode), || detail);
                    }
                }
                if bits != 0 {
                    loc.add("nontrivial", 1);
                }
                if (bits as u64).wrapping_mul(0x9E3779B97F4A7C15) >> 50 == 7 {
                    loc.sample(1, || {
                        let c = vp_core::catch(|| f(h, w, &mask, Mode::List)).unwrap_or_default();
                        json!({"part": "contours", "rows": mask_rows(h, w, &mask), "mode": "List", "contours_yx": c})
                    });
                }
            }
            loc
        });
        let mut size_loc = Local::new();
        for l in locals {
            size_loc.absorb(l, 2);
        }
        axes.push(json!({
            "part": "contours", "h": h, "w": w, "masks": n, "modes": 2,
            "violating_cases": size_loc.viol.values().map(|v| v.2).sum::<u64>(),
            "engine_s": (t0.elapsed().as_secs_f64() * 100.0).round() / 100.0,
        }));
        total.absorb(size_loc, sample_cap);
    }
    (total, axes)
}

// =======================================================================================
// Part B: drawing

pub const BG: u8 = 0;
pub const FG: u8 = 7;
/// A single call that consumes more CPU time than this is reported as "did not return".
const STUCK: Duration = Duration::from_millis(60);
/// Cap on points pulled from one FillIter.
const FILL_CAP: usize = 4096;

#[derive(Clone, Copy, PartialEq, Eq, Debug)]
pub enum Prim {
    FillRect,
    StrokeRect,
    DrawLine,
    DrawPolygon,
    FillIter,
}

impl Prim {
    fn name(self) -> &'static str {
        match self {
            Prim::FillRect => "fill_rect",
            Prim::StrokeRect => "stroke_rect",
            Prim::DrawLine => "draw_line",
            Prim::DrawPolygon => "draw_polygon",
            Prim::FillIter => "fill_iter",
        }
    }
    fn parse(s: &str) -> Prim {
        match s {
            "fill_rect" => Prim::FillRect,
            "stroke_rect" => Prim::StrokeRect,
            "draw_line" => Prim::DrawLine,
            "draw_polygon" => Prim::DrawPolygon,
            "fill_iter" => Prim::FillIter,
            _ => vp_core::machinery_error("unknown drawing primitive in case"),
        }
    }
}

/// One drawing call. `coords`: fill_rect/stroke_rect = [top,left,bottom,right];
/// draw_line = [y0,x0,y1,x1]; draw_polygon/fill_iter = [y0,x0,y1,x1,...].
#[derive(Clone, Debug)]
pub struct DrawCase {
    pub prim: Prim,
    pub h: usize,
    pub w: usize,
    pub coords: Vec<i32>,
    pub width: u32,
}

impl DrawCase {
    pub fn to_json(&self) -> Json {
        json!({"part": "drawing", "prim": self.prim.name(), "img_h": self.h, "img_w": self.w,
               "coords": self.coords, "width": self.width,
               "note": "coords: rect = [top,left,bottom,right]; line = [y0,x0,y1,x1]; polygon = [y0,x0,y1,x1,...]; image filled with 0, drawn value 7"})
    }
    pub fn from_json(c: &Json) -> DrawCase {
        DrawCase {
            prim: Prim::parse(c["prim"].as_str().unwrap_or("")),
            h: ju(c, "img_h") as usize,
            w: ju(c, "img_w") as usize,
            coords: c["coords"]
                .as_array()
                .unwrap_or_else(|| vp_core::machinery_error("case lacks coords"))
                .iter()
                .map(|x| x.as_i64().unwrap_or_else(|| vp_core::machinery_error("bad coord")) as i32)
                .collect(),
            width: ju(c, "width") as u32,
        }
    }
    /// Half-open bounding box (y0, x0, y1, x1) of the shape, not inflated. None = empty shape.
    fn bbox(&self) -> Option<(i32, i32, i32, i32)> {
        let c = &self.coords;
        match self.prim {
            Prim::FillRect | Prim::StrokeRect => {
                Some((c[0].min(c[2]), c[1].min(c[3]), c[0].max(c[2]), c[1].max(c[3])))
            }
            _ => {
                if c.is_empty() {
                    return None;
                }
                let ys = c.iter().step_by(2);
                let xs = c.iter().skip(1).step_by(2);
                Some((
                    *ys.clone().min().unwrap(),
                    *xs.clone().min().unwrap(),
                    *ys.max().unwrap() + 1,
                    *xs.max().unwrap() + 1,
                ))
            }
        }
    }
    /// How far beyond the bounding box a primitive may paint. Filled shapes and 1-pixel lines
    /// (Bresenham pixels never leave the closed box of the end points): 0. Strokes of width
    /// >= 2 and stroke_rect: the stroke width (lenient; covers the rounding of the rotated
    /// rectangle's corners).
    fn inflation(&self) -> i32 {
        match self.prim {
            Prim::FillRect | Prim::FillIter => 0,
            Prim::DrawLine | Prim::DrawPolygon if self.width <= 1 => 0,
            _ => self.width as i32,
        }
    }
    fn points(&self) -> Vec<Point> {
        self.coords.chunks(2).map(|c| Point::from_yx(c[0], c[1])).collect()
    }
}

/// The drawing functions under test (indirection kept so that a scratch harness can substitute local copies).
pub struct DrawFns {
    pub fill_rect: fn(&mut NdTensor<u8, 2>, Rect, u8),
    pub stroke_rect: fn(&mut NdTensor<u8, 2>, Rect, u8, u32),
    pub draw_line: fn(&mut NdTensor<u8, 2>, Line, u8, u32),
    pub draw_polygon: fn(&mut NdTensor<u8, 2>, &[Point], u8, u32),
    /// pull at most `cap` points from the fill iterator of the polygon
    pub fill_points: fn(&[Point], usize) -> Vec<Point>,
}

pub static RTEN_DRAW: DrawFns = DrawFns {
    fill_rect: |img, r, v| fill_rect(img.view_mut(), r, v),
    stroke_rect: |img, r, v, w| stroke_rect(img.view_mut(), r, v, w),
    draw_line: |img, l, v, w| draw_line(img.view_mut(), l, v, w),
    draw_polygon: |img, p, v, w| draw_polygon(img.view_mut(), p, v, w),
    fill_points: |p, cap| Polygon::new(p).fill_iter().take(cap).collect(),
};

fn panic_class(msg: &str) -> String {
    // keep the text, drop the numbers, so that observations aggregate
    let mut out = String::new();
    let mut last_digit = false;
    for ch in msg.chars() {
        if out.len() >= 60 {
            break;
        }
        if ch.is_ascii_digit() {
            if !last_digit {
                out.push('N');
            }
            last_digit = true;
        } else {
            out.push(ch);
            last_digit = false;
        }
    }
    out
}

/// What one drawing call did.
pub enum Executed {
    Fill(Result<Vec<Point>, String>),
    Image(NdTensor<u8, 2>, Result<(), String>),
}

/// Phase 1: make the call (may panic -> caught; may not return -> caller's watchdog).
pub fn execute(fns: &DrawFns, case: &DrawCase) -> Executed {
    let c = &case.coords;
    if case.prim == Prim::FillIter {
        let pts = case.points();
        return Executed::Fill(vp_core::catch(|| (fns.fill_points)(&pts, FILL_CAP)));
    }
    let mut img = NdTensor::<u8, 2>::full([case.h, case.w], BG);
    let res = vp_core::catch(|| match case.prim {
        Prim::FillRect => (fns.fill_rect)(&mut img, Rect::from_tlbr(c[0], c[1], c[2], c[3]), FG),
        Prim::StrokeRect => (fns.stroke_rect)(&mut img, Rect::from_tlbr(c[0], c[1], c[2], c[3]), FG, case.width),
        Prim::DrawLine => (fns.draw_line)(
            &mut img,
            Line::from_endpoints(Point::from_yx(c[0], c[1]), Point::from_yx(c[2], c[3])),
            FG,
            case.width,
        ),
        Prim::DrawPolygon => (fns.draw_polygon)(&mut img, &case.points(), FG, case.width),
        Prim::FillIter => unreachable!(),
    });
    Executed::Image(img, res)
}

/// Phase 2: compare what the call did with the allowed region.
pub fn judge(case: &DrawCase, ex: Executed, loc: &mut Local) -> Vec<(String, String)> {
    let mut fails = Vec::new();
    let (h, w) = (case.h, case.w);
    let bbox = case.bbox();
    let infl = case.inflation();
    // allowed region, half open, before intersecting with the image
    let allowed = bbox.map(|(y0, x0, y1, x1)| (y0 - infl, x0 - infl, y1 + infl, x1 + infl));
    let in_allowed = |y: i32, x: i32| matches!(allowed, Some((y0, x0, y1, x1)) if y >= y0 && y < y1 && x >= x0 && x < x1);
    let in_tight = |y: i32, x: i32| matches!(bbox, Some((y0, x0, y1, x1)) if y >= y0 && y < y1 && x >= x0 && x < x1);
    let bbox_meets_image = matches!(bbox, Some((y0, x0, y1, x1)) if y0 < h as i32 && x0 < w as i32 && y1 > 0 && x1 > 0 && y1 > y0 && x1 > x0);
    let bbox_inside_image = matches!(bbox, Some((y0, x0, y1, x1)) if y0 >= 0 && x0 >= 0 && y1 <= h as i32 && x1 <= w as i32);
    let class = if bbox_meets_image { "shape bbox meets the image" } else { "shape bbox disjoint from the image" };
    let width_class = if case.width <= 1 { "width<=1" } else { "width>=2" };

    let (img, res) = match ex {
        Executed::Fill(got) => {
            let pts = case.points();
            loc.add("fill_iter_calls", 1);
            match got {
                Err(e) => loc.observe(&format!("panic in Polygon::fill_iter: {}", panic_class(&e))),
                Ok(points) => {
                    loc.add("fill_iter_points_checked", points.len() as u64);
                    if !points.is_empty() {
                        loc.add("nontrivial", 1);
                    }
                    if points.len() >= FILL_CAP {
                        loc.observe("Polygon::fill_iter yielded more points than any polygon of the box can contain (capped)");
                    }
                    let zero_width = matches!(bbox, Some((_, x0, _, x1)) if x1 - x0 == 1);
                    if let Some(p) = points.iter().find(|p| !in_tight(p.y, p.x)) {
                        fails.push((
                            format!(
                                "Polygon::fill_iter: yields a pixel outside the polygon's bounding box [{}]",
                                if zero_width { "all vertices share one x (zero-width bounds)" } else { "bounds of non-zero width" }
                            ),
                            format!("point (y={},x={}) outside closed bbox of vertices {:?}; {} point(s) pulled", p.y, p.x, pts, points.len()),
                        ));
                    }
                    let mut key = vec![5u64];
                    key.extend(points.iter().take(64).map(|p| ((p.y as u64) << 32) | (p.x as u32 as u64)));
                    loc.outcomes.insert(hash_of(&key));
                }
            }
            return fails;
        }
        Executed::Image(img, res) => (img, res),
    };
    loc.add("draw_calls", 1);
    if let Err(e) = &res {
        loc.add("draw_calls_panicked", 1);
        loc.observe(&format!("panic in {} ({width_class}): {}", case.prim.name(), panic_class(e)));
    }
    let mut changed: u64 = 0;
    let mut outside: Vec<(usize, usize)> = Vec::new();
    let mut outside_tight = false;
    for y in 0..h {
        for x in 0..w {
            if img[[y, x]] != BG {
                changed |= 1 << (y * w + x);
                if !in_allowed(y as i32, x as i32) {
                    outside.push((y, x));
                }
                if !in_tight(y as i32, x as i32) {
                    outside_tight = true;
                }
            }
        }
    }
    if changed != 0 {
        loc.add("draw_calls_that_changed_pixels", 1);
    }
    if !bbox_inside_image {
        // clipping is exercised
        loc.add("nontrivial", 1);
        if changed != 0 {
            loc.add("draw_calls_partly_outside_image_that_changed_pixels", 1);
        }
    }
    if outside_tight && outside.is_empty() {
        loc.observe(&format!(
            "{} ({width_class}) changed a pixel outside the un-inflated bounding box but inside the inflated one (tolerated)",
            case.prim.name()
        ));
    }
    if !outside.is_empty() {
        // draw_polygon is a loop over draw_line: same site
        let site = match case.prim {
            Prim::DrawLine | Prim::DrawPolygon => format!("draw_line/draw_polygon({width_class})"),
            p => p.name().to_string(),
        };
        fails.push((
            format!("{site}: pixel changed outside the shape's bounding box (plus stroke allowance) [{class}]"),
            format!(
                "changed pixels (y,x) {:?} lie outside allowed half-open box {:?} (bbox {:?} inflated by {}); image after call {:?}{}",
                outside,
                allowed,
                bbox,
                infl,
                (0..h).map(|y| (0..w).map(|x| if img[[y, x]] != BG { '#' } else { '.' }).collect::<String>()).collect::<Vec<_>>(),
                if res.is_err() { " (call panicked)" } else { "" }
            ),
        ));
    }
    loc.outcomes.insert(hash_of(&[case.prim as u64, changed, res.is_err() as u64]));
    fails
}

// ---------------------------------------------------------------------------------------
// Jobs: contiguous index ranges of one primitive's box.

#[derive(Clone, Debug)]
pub struct Job {
    pub prim: Prim,
    pub h: usize,
    pub w: usize,
    pub cmin: i32,
    pub cmax: i32,
    /// number of coordinates (4 for rect/line, 2*vertices for polygons)
    pub ncoords: usize,
    pub width: u32,
    pub lo: u64,
    pub hi: u64,
    /// polygons whose bounding box has zero width and non-zero height (fill_iter does not
    /// return on most of them) are enumerated only if all their coordinates lie in this
    /// inclusive range; None = enumerate all of them
    pub zw_range: Option<(i32, i32)>,
}

impl Job {
    fn radix(&self) -> u64 {
        (self.cmax - self.cmin + 1) as u64
    }
    pub fn total(&self) -> u64 {
        self.radix().pow(self.ncoords as u32)
    }
    fn case_at(&self, mut idx: u64) -> DrawCase {
        let r = self.radix();
        let mut coords = vec![0i32; self.ncoords];
        for i in (0..self.ncoords).rev() {
            coords[i] = self.cmin + (idx % r) as i32;
            idx /= r;
        }
        DrawCase { prim: self.prim, h: self.h, w: self.w, coords, width: self.width }
    }
    fn excluded(&self, case: &DrawCase) -> bool {
        match self.zw_range {
            Some((lo, hi)) => is_zero_width_tall(case) && !case.coords.iter().all(|&c| c >= lo && c <= hi),
            None => false,
        }
    }
    fn to_json(&self) -> Json {
        json!({"prim": self.prim.name(), "h": self.h, "w": self.w, "cmin": self.cmin, "cmax": self.cmax,
               "ncoords": self.ncoords, "width": self.width, "lo": self.lo, "hi": self.hi,
               "zw_range": self.zw_range.map(|(a, b)| vec![a, b])})
    }
    fn from_json(v: &Json) -> Job {
        Job {
            prim: Prim::parse(v["prim"].as_str().unwrap_or("")),
            h: ju(v, "h") as usize,
            w: ju(v, "w") as usize,
            cmin: v["cmin"].as_i64().unwrap_or(0) as i32,
            cmax: v["cmax"].as_i64().unwrap_or(0) as i32,
            ncoords: ju(v, "ncoords") as usize,
            width: ju(v, "width") as u32,
            lo: ju(v, "lo"),
            hi: ju(v, "hi"),
            zw_range: v["zw_range"].as_array().map(|a| (a[0].as_i64().unwrap_or(0) as i32, a[1].as_i64().unwrap_or(0) as i32)),
        }
    }
}

fn is_zero_width_tall(case: &DrawCase) -> bool {
    match case.prim {
        Prim::FillIter | Prim::DrawPolygon => {
            matches!(case.bbox(), Some((y0, x0, y1, x1)) if x1 - x0 == 1 && y1 - y0 > 1)
        }
        _ => false,
    }
}

/// Enumerate a job range on a helper thread; detect a call that does not return.
/// Returns (complete results of all cases before the stuck one, Some(index of the stuck call)).
/// The helper thread holds the result lock only while judging, never during the call, so the
/// monitor can always take the results.
pub fn run_job_guarded(fns: &'static DrawFns, job: &Job) -> (Local, Option<u64>) {
    // `completed` = index of the first case whose result is not yet in `shared`; it is only
    // advanced while the result lock is held, so under the lock the results cover exactly
    // [job.lo, completed).
    let completed = Arc::new(AtomicU64::new(job.lo));
    let done = Arc::new(AtomicBool::new(false));
    let shared = Arc::new(Mutex::new(Local::new()));
    let handle;
    {
        let (completed, done, shared, job) = (completed.clone(), done.clone(), shared.clone(), job.clone());
        handle = std::thread::spawn(move || {
            for idx in job.lo..job.hi {
                let case = job.case_at(idx);
                if job.excluded(&case) {
                    let mut loc = shared.lock().unwrap();
                    loc.add("cases_excluded_zero_width_polygon", 1);
                    completed.store(idx + 1, Ordering::SeqCst);
                    continue;
                }
                let ex = execute(fns, &case);
                let mut loc = shared.lock().unwrap();
                for (sig, detail) in judge(&case, ex, &mut loc) {
                    loc.violation(&sig, || case.to_json(), || detail);
                }
                if idx.wrapping_mul(0x9E3779B97F4A7C15) >> 52 == 3 {
                    loc.sample(1, || case.to_json());
                }
                completed.store(idx + 1, Ordering::SeqCst);
            }
            done.store(true, Ordering::SeqCst);
        });
    }
    // Stuck = the helper thread has burnt more than STUCK of CPU time on one case. CPU time
    // (not wall time) makes the detector independent of machine load: a normal call needs
    // microseconds, a spinning fill_iter needs minutes.
    let cpu = thread_cpu_clock(&handle);
    let mut last = (completed.load(Ordering::SeqCst), cpu.now());
    loop {
        if done.load(Ordering::SeqCst) {
            let l = std::mem::take(&mut *shared.lock().unwrap());
            return (l, None);
        }
        std::thread::sleep(Duration::from_millis(1));
        let c = completed.load(Ordering::SeqCst);
        let now = cpu.now();
        if c != last.0 {
            last = (c, now);
        } else if now.saturating_sub(last.1) > STUCK {
            let mut g = shared.lock().unwrap();
            let c2 = completed.load(Ordering::SeqCst);
            if c2 != c || c2 >= job.hi {
                drop(g);
                last = (c2, cpu.now());
                continue;
            }
            // the call for case `c` has consumed > STUCK of CPU time
            let l = std::mem::take(&mut *g);
            return (l, Some(c));
        }
    }
}

/// CPU-time clock of another thread of this process.
struct ThreadCpu(Option<libc::clockid_t>);

fn thread_cpu_clock(h: &std::thread::JoinHandle<()>) -> ThreadCpu {
    use std::os::unix::thread::JoinHandleExt;
    let mut cid: libc::clockid_t = 0;
    let rc = unsafe { libc::pthread_getcpuclockid(h.as_pthread_t(), &mut cid) };
    // rc != 0: the thread has already finished (short job); `now` then always reports zero
    // and the monitor simply waits for the done flag.
    ThreadCpu(if rc == 0 { Some(cid) } else { None })
}

impl ThreadCpu {
    fn now(&self) -> Duration {
        let Some(cid) = self.0 else { return Duration::ZERO };
        let mut ts = libc::timespec { tv_sec: 0, tv_nsec: 0 };
        if unsafe { libc::clock_gettime(cid, &mut ts) } != 0 {
            return Duration::ZERO;
        }
        Duration::new(ts.tv_sec as u64, ts.tv_nsec as u32)
    }
}

/// Child process main loop (`--worker c36draw`).
pub fn worker_main() -> ! {
    use std::io::{BufRead, Write};
    std::panic::set_hook(Box::new(|_| {}));
    let stdin = std::io::stdin();
    for line in stdin.lock().lines() {
        let Ok(line) = line else { break };
        let Ok(v) = serde_json_from(&line) else { break };
        let job = Job::from_json(&v);
        let (loc, stuck) = run_job_guarded(&RTEN_DRAW, &job);
        let ans = json!({"local": loc.to_json(), "stuck_at": stuck});
        let out = std::io::stdout();
        let mut o = out.lock();
        let _ = writeln!(o, "{}", ans);
        let _ = o.flush();
        if stuck.is_some() {
            // the helper thread cannot be stopped; leave it to die with the process
            std::process::exit(0);
        }
    }
    std::process::exit(0);
}

fn serde_json_from(s: &str) -> Result<Json, ()> {
    vp_core::serde_json::from_str::<Json>(s).map_err(|_| ())
}

fn ask(w: &mut Worker, job: &Job, machinery: &Mutex<Option<String>>) -> Option<(Local, Option<u64>)> {
    match w.run(&job.to_json()) {
        Outcome::Answer(a) if a["local"].is_object() => Some((Local::from_json(&a["local"]), a["stuck_at"].as_u64())),
        other => {
            *machinery.lock().unwrap() = Some(format!("drawing worker failed on job {:?}: {:?}", job.to_json(), other));
            None
        }
    }
}

/// Drive one job. A "stuck" answer carries the complete results of the cases before the stuck
/// call (the child then exits); the hang is confirmed by running that single case again in a
/// fresh child, then the enumeration continues behind it.
fn drive_job(w: &mut Worker, job: &Job, out: &mut Local, hangs: &mut Vec<Json>, machinery: &Mutex<Option<String>>) {
    let mut lo = job.lo;
    while lo < job.hi {
        let mut j = job.clone();
        j.lo = lo;
        let Some((loc, stuck)) = ask(w, &j, machinery) else { return };
        out.absorb(loc, 4);
        let Some(i) = stuck else { return };
        *w = new_worker();
        let mut one = job.clone();
        one.lo = i;
        one.hi = i + 1;
        let Some((loc1, stuck1)) = ask(w, &one, machinery) else { return };
        if stuck1.is_none() {
            out.absorb(loc1, 4);
            out.add("stuck_false_alarms", 1);
        } else {
            *w = new_worker();
            let case = job.case_at(i);
            out.add("draw_calls_that_did_not_return", 1);
            out.observe(&format!(
                "{} ({}) did not return within {} ms of CPU time, twice (call abandoned, worker process killed)",
                case.prim.name(),
                if case.width <= 1 { "width<=1" } else { "width>=2" },
                STUCK.as_millis()
            ));
            if hangs.len() < 3 {
                hangs.push(case.to_json());
            }
        }
        lo = i + 1;
    }
}

fn new_worker() -> Worker {
    Worker::new("c36draw", Duration::from_secs(300), 4 << 30)
}

/// Run all jobs on isolated workers; results are merged in job order.
pub fn run_jobs(ctx: &Ctx, jobs: &[Job]) -> (Local, Vec<Json>) {
    let next = AtomicUsize::new(0);
    let results: Mutex<Vec<(usize, Local, Vec<Json>)>> = Mutex::new(Vec::new());
    let machinery: Mutex<Option<String>> = Mutex::new(None);
    std::thread::scope(|s| {
        for _ in 0..vp_core::par::threads().min(jobs.len().max(1)) {
            s.spawn(|| {
                let mut w = new_worker();
                loop {
                    let i = next.fetch_add(1, Ordering::Relaxed);
                    if i >= jobs.len() || machinery.lock().unwrap().is_some() {
                        break;
                    }
                    let mut loc = Local::new();
                    let mut hangs = Vec::new();
                    drive_job(&mut w, &jobs[i], &mut loc, &mut hangs, &machinery);
                    results.lock().unwrap().push((i, loc, hangs));
                }
            });
        }
    });
    if let Some(m) = machinery.lock().unwrap().clone() {
        ctx.machinery(&m);
    }
    let mut r = results.into_inner().unwrap();
    r.sort_by_key(|x| x.0);
    let mut total = Local::new();
    let mut hang_samples = Vec::new();
    for (_, l, h) in r {
        total.absorb(l, 8);
        for x in h {
            if hang_samples.len() < 4 {
                hang_samples.push(x);
            }
        }
    }
    (total, hang_samples)
}

/// A family = one primitive on one image with one stroke width; split into jobs.
struct Family {
    prim: Prim,
    h: usize,
    w: usize,
    cmin: i32,
    cmax: i32,
    ncoords: usize,
    width: u32,
    zw_range: Option<(i32, i32)>,
}

fn families(thorough: bool) -> Vec<Family> {
    let mut v = Vec::new();
    let images: Vec<(usize, usize)> = if thorough { vec![(4, 4), (3, 5), (5, 3), (1, 1)] } else { vec![(4, 4)] };
    for &(h, w) in &images {
        let cmax = h.max(w) as i32 + 2;
        let cmin = -2;
        v.push(Family { prim: Prim::FillRect, h, w, cmin, cmax, ncoords: 4, width: 0, zw_range: None });
        for width in [0u32, 1, 2, 5] {
            v.push(Family { prim: Prim::StrokeRect, h, w, cmin, cmax, ncoords: 4, width, zw_range: None });
        }
        let line_widths: &[u32] = if thorough { &[0, 1, 2, 3, 4, 5] } else { &[0, 1, 2, 3] };
        for &width in line_widths {
            v.push(Family { prim: Prim::DrawLine, h, w, cmin, cmax, ncoords: 4, width, zw_range: None });
        }
    }
    // polygons: 4x4 image, vertices on -1..=5
    let (h, w, cmin, cmax) = (4usize, 4usize, -1, 5);
    let poly_widths: &[u32] = if thorough { &[1, 2, 3] } else { &[1, 2] };
    for nv in 0..=4usize {
        for &width in poly_widths {
            v.push(Family { prim: Prim::DrawPolygon, h, w, cmin, cmax, ncoords: 2 * nv, width, zw_range: None });
        }
        // Zero-width polygons make fill_iter spin for ~2^32 iterations per row and every such
        // call costs two watchdog periods, so this class is enumerated on a sub-lattice only.
        let zw_range = match (thorough, nv) {
            (false, 4) => Some((0, 1)),
            (false, _) => Some((0, 2)),
            (true, 4) => Some((-1, 2)),
            (true, _) => None,
        };
        v.push(Family { prim: Prim::FillIter, h, w, cmin, cmax, ncoords: 2 * nv, width: 0, zw_range });
    }
    v
}

fn jobs_of(f: &Family, chunk: u64) -> Vec<Job> {
    let proto = Job {
        prim: f.prim,
        h: f.h,
        w: f.w,
        cmin: f.cmin,
        cmax: f.cmax,
        ncoords: f.ncoords,
        width: f.width,
        lo: 0,
        hi: 0,
        zw_range: f.zw_range,
    };
    let total = proto.total();
    let mut v = Vec::new();
    let mut lo = 0;
    while lo < total {
        let hi = (lo + chunk).min(total);
        let mut j = proto.clone();
        j.lo = lo;
        j.hi = hi;
        v.push(j);
        lo = hi;
    }
    v
}

fn contour_sizes(thorough: bool) -> Vec<(usize, usize)> {
    let mut v = Vec::new();
    for h in 1..=4 {
        for w in 1..=4 {
            v.push((h, w));
        }
    }
    v.extend([(3, 5), (5, 3), (1, 8), (8, 1), (2, 6), (6, 2)]);
    if thorough {
        v.extend([(4, 5), (5, 4), (2, 9), (9, 2), (3, 7), (7, 3), (4, 6), (6, 4), (5, 5)]);
    }
    v
}

fn replay(ctx: Ctx, path: &std::path::Path) -> ! {
    let case = vp_core::read_replay_case(path);
    let mut n = 0;
    if case["part"] == "contours" {
        let (h, w) = (ju(&case, "h") as usize, ju(&case, "w") as usize);
        let mask = mask_bits(h, w, ju(&case, "bits"));
        let mode = if case["mode"] == "External" { Mode::External } else { Mode::List };
        let mut loc = Local::new();
        for (sig, detail) in check_contours(&rten_contours, h, w, &mask, mode, &mut loc) {
            ctx.violation(sig, case.clone(), detail);
            n += 1;
        }
    } else {
        // run in a child so that a call that does not return cannot hang the replay
        let dc = DrawCase::from_json(&case);
        let r = (dc.coords.iter().map(|c| c.abs()).max().unwrap_or(0) + 1) as i32;
        let mut job = Job {
            prim: dc.prim,
            h: dc.h,
            w: dc.w,
            cmin: -r,
            cmax: r,
            ncoords: dc.coords.len(),
            width: dc.width,
            lo: 0,
            hi: 0,
            zw_range: None,
        };
        let radix = job.radix();
        let idx = dc.coords.iter().fold(0u64, |acc, &c| acc * radix + (c - job.cmin) as u64);
        job.lo = idx;
        job.hi = idx + 1;
        let (loc, hangs) = run_jobs(&ctx, &[job]);
        for (sig, (c, detail, _)) in &loc.viol {
            ctx.violation(sig.as_str(), c.clone(), detail.as_str());
            n += 1;
        }
        if !hangs.is_empty() {
            println!("C36 replay: the call did not return within {} ms of CPU time", STUCK.as_millis());
        }
        for (k, v) in &loc.obs {
            ctx.observe_n(k, *v);
        }
    }
    println!("C36 replay: {n} failing clause(s)");
    ctx.finish(
        "exploration",
        json!({"evaluations": 1, "distinct_nontrivial": 2, "rule": "replay of one stored case", "samples": [case], "exhaustive": false}),
        vec![],
    );
}

pub fn run(ctx: Ctx) -> ! {
    if let Some(path) = ctx.replay.clone() {
        replay(ctx, &path);
    }
    let thorough = ctx.tier.is_thorough();

    // Part A
    let sizes = contour_sizes(thorough);
    let (mut total, mut axes) = explore_contours(&rten_contours, &sizes, 6);
    let contour_calls = total.get("contour_calls");
    let contour_nontrivial = total.get("nontrivial");
    if total.get("contour_points_checked") == 0
        || total.get("components_requiring_outer_contour") == 0
        || (thorough && total.get("components_enclosed_by_another_component") == 0)
    {
        ctx.machinery("C36: contour oracle never reached (vacuous run)");
    }
    // determinism guard for contour violations
    for (sig, (case, _, _)) in &total.viol {
        let (h, w) = (ju(case, "h") as usize, ju(case, "w") as usize);
        let mask = mask_bits(h, w, ju(case, "bits"));
        let mode = if case["mode"] == "External" { Mode::External } else { Mode::List };
        for _ in 0..2 {
            let mut l = Local::new();
            if !check_contours(&rten_contours, h, w, &mask, mode, &mut l).iter().any(|(s, _)| s == sig) {
                ctx.machinery(&format!("C36: contour violation '{sig}' did not reproduce"));
            }
        }
    }

    // Part B
    let fams = families(thorough);
    let mut jobs = Vec::new();
    let mut fam_ranges = Vec::new();
    for f in &fams {
        // small jobs where calls may not return, so that the watchdog waits spread over workers
        let js = jobs_of(f, if f.prim == Prim::FillIter && f.ncoords <= 6 { 64 } else { 20_000 });
        fam_ranges.push((jobs.len(), jobs.len() + js.len()));
        jobs.extend(js);
    }
    let t0 = ctx.elapsed_s();
    let (draw, hang_samples) = run_jobs(&ctx, &jobs);
    let draw_s = ctx.elapsed_s() - t0;
    for (f, _) in fams.iter().zip(&fam_ranges) {
        let proto = jobs_of(f, u64::MAX);
        axes.push(json!({
            "part": "drawing", "prim": f.prim.name(), "img_h": f.h, "img_w": f.w,
            "coord_min": f.cmin, "coord_max": f.cmax, "coords_per_case": f.ncoords,
            "stroke_width": f.width, "cases": proto[0].total(),
            "zero_width_tall_polygons_enumerated_only_with_all_coords_in": f.zw_range.map(|(a, b)| vec![a, b]),
        }));
    }
    let expected_cases: u64 = jobs.iter().map(|j| j.hi - j.lo).sum();
    let accounted = draw.get("draw_calls")
        + draw.get("fill_iter_calls")
        + draw.get("cases_excluded_zero_width_polygon")
        + draw.get("draw_calls_that_did_not_return");
    if accounted != expected_cases {
        ctx.machinery(&format!("C36: drawing box not enumerated completely ({accounted} of {expected_cases})"));
    }
    if draw.get("draw_calls_partly_outside_image_that_changed_pixels") == 0 || draw.get("fill_iter_points_checked") == 0 {
        ctx.machinery("C36: drawing oracle never reached (vacuous run)");
    }
    let draw_nontrivial = draw.get("nontrivial");
    let draw_evals = draw.get("draw_calls") + draw.get("fill_iter_calls") + draw.get("draw_calls_that_did_not_return");
    let excluded = draw.get("cases_excluded_zero_width_polygon");
    total.absorb(draw, 12);
    let mut samples = std::mem::take(&mut total.samples);
    for h in &hang_samples {
        samples.push(json!({"did_not_return": h}));
    }
    let counts = json!(total.counts);
    let distinct_outcomes = total.outcomes.len() as u64;
    let n_viol: u64 = total.viol.values().map(|v| v.2).sum();
    let n_sigs = total.viol.len();
    let by_sig: Vec<Json> = total.viol.iter().map(|(s, v)| json!({"signature": s, "violating_cases": v.2})).collect();
    total.flush(&ctx);
    println!(
        "C36 summary: {} contour calls over {} mask sizes, {} drawing calls in {} families ({:.1}s), {} distinct outcomes, {} violating cases in {} signature(s)",
        contour_calls,
        sizes.len(),
        draw_evals,
        fams.len(),
        draw_s,
        distinct_outcomes,
        n_viol,
        n_sigs
    );
    ctx.finish(
        "exploration",
        json!({
            "evaluations": contour_calls + draw_evals,
            "distinct_nontrivial": contour_nontrivial + draw_nontrivial,
            "rule": "contours: every binary mask of each listed size x {List, External}; non-trivial = mask with >= 1 foreground pixel (enumeration visits every mask once). drawing: every coordinate tuple of each listed family (rect = top,left,bottom,right; line = two end points; polygon = 0..4 vertices) on the stated lattice around a small image; non-trivial = shape bounding box not contained in the image (clipping exercised) for image primitives, >= 1 point yielded for fill_iter. Counts are measured; each case is enumerated exactly once so they are distinct by construction",
            "samples": samples,
            "exhaustive": excluded == 0,
            "excluded_cases": excluded,
            "excluded_rule": "Polygon::fill_iter on polygons whose vertices all share one x and span >= 2 rows (most such calls spin for ~2^32 iterations per row, see FINDINGS.md) is enumerated only on the sub-lattice stated per family (axes[].zero_width_tall_polygons_enumerated_only_with_all_coords_in); everything else in the stated box is enumerated",
            "axes": axes,
            "counts": counts,
            "violating_cases_by_signature_exact": by_sig,
            "distinct_outcomes": distinct_outcomes,
            "distinct_outcomes_rule": "contours: distinct (mode, contour list) over masks of <= 16 pixels; drawing: distinct (primitive, changed-pixel set, panicked) resp. distinct fill_iter point lists",
            "stuck_watchdog_ms": STUCK.as_millis() as u64,
        }),
        vec![
            "a panic inside a drawing primitive is an observation, not a verdict (statement constrains which pixels change); pixels changed before the panic are still checked".into(),
            "a drawing call that does not return within the watchdog is an observation; its pixels cannot be inspected".into(),
            "bounding box of a line/polygon = closed box of its vertices; of a rect = [min(top,bottom),max) x [min(left,right),max); inflated on every side by the stroke width for stroke_rect and for lines/polygon outlines of width >= 2, by 0 for fill_rect, fill_iter and lines/outlines of width <= 1".into(),
            "contour adjacency is 8-adjacency to a background pixel or the image edge (4-adjacency failures are only observed)".into(),
            "External mode must return an outer contour for every component that is 4-adjacent to the background region connected to the outside; components enclosed by another component are not required".into(),
            "outer-border pixels of a component = its pixels 4-adjacent to the part of its complement that is 4-connected to the outside (padded frame)".into(),
        ],
    );
}
