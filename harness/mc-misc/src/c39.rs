//! C39 - CTC decoding returns distinct, correctly scored hypotheses.
//!
//! Box: every `[T, L]` matrix whose rows are points of the probability simplex lattice with a
//! given denominator (zero entries included => log-prob -inf), for a list of (T, L, den)
//! sub-boxes; every beam width and n-best count of a list. Oracle: brute force over all `L^T`
//! alignments in f64.

use std::collections::{BTreeMap, BTreeSet};

use rten::ctc::CtcDecoder;
use rten_tensor::NdTensor;
use rten_tensor::prelude::*;
use vp_core::{Ctx, Json, json};

use crate::util::{Local, chunks, hash_bytes, ju};

pub const TOL: f64 = 1e-4;
/// decode_beam and decode_beam_nbest share decode_beam_impl, so they share signatures.
const SITE: &str = "beam search (decode_beam/decode_beam_nbest)";

#[derive(Clone, Debug)]
pub struct Matrix {
    pub t: usize,
    pub l: usize,
    pub den: u32,
    /// numerators, row-major `[t][l]`, every row sums to `den`
    pub num: Vec<u32>,
    /// the f32 log-probabilities actually handed to the decoder
    pub logp: Vec<f32>,
}

impl Matrix {
    pub fn from_num(t: usize, l: usize, den: u32, num: Vec<u32>) -> Matrix {
        assert_eq!(num.len(), t * l);
        let logp = num.iter().map(|&n| (n as f32 / den as f32).ln()).collect();
        Matrix { t, l, den, num, logp }
    }
    pub fn positive(&self) -> bool {
        self.num.iter().all(|&n| n > 0)
    }
    pub fn lp(&self, t: usize, l: usize) -> f32 {
        self.logp[t * self.l + l]
    }
    pub fn rows_json(&self) -> Json {
        json!(self.num.chunks(self.l).map(|r| r.to_vec()).collect::<Vec<_>>())
    }
}

#[derive(Clone, Debug, PartialEq)]
pub struct Hyp {
    pub labels: Vec<u32>,
    pub pos: Vec<u32>,
    pub score: f32,
}

/// The decoder under test. The engine uses [`Rten`]; the indirection lets a scratch harness plug in local copies.
pub trait Decoder: Sync {
    fn greedy(&self, m: &Matrix) -> Hyp;
    fn beam_nbest(&self, m: &Matrix, width: u32, n_best: u32) -> Vec<Hyp>;
    fn beam(&self, m: &Matrix, width: u32) -> Hyp;
}

pub struct Rten;

fn tensor(m: &Matrix) -> NdTensor<f32, 2> {
    NdTensor::from_data([m.t, m.l], m.logp.clone())
}

fn hyp_of(h: &rten::ctc::CtcHypothesis) -> Hyp {
    Hyp {
        labels: h.steps().iter().map(|s| s.label).collect(),
        pos: h.steps().iter().map(|s| s.pos).collect(),
        score: h.score(),
    }
}

impl Decoder for Rten {
    fn greedy(&self, m: &Matrix) -> Hyp {
        hyp_of(&CtcDecoder::new().decode_greedy(tensor(m).view()))
    }
    fn beam_nbest(&self, m: &Matrix, width: u32, n_best: u32) -> Vec<Hyp> {
        CtcDecoder::new()
            .decode_beam_nbest(tensor(m).view(), width, n_best)
            .iter()
            .map(hyp_of)
            .collect()
    }
    fn beam(&self, m: &Matrix, width: u32) -> Hyp {
        hyp_of(&CtcDecoder::new().decode_beam(tensor(m).view(), width))
    }
}

// ---------------------------------------------------------------------------------------
// Reference model: brute force over all alignments.

/// Collapse an alignment: merge repeats, drop blanks (label 0), keep first positions.
pub fn collapse(alignment: &[u32]) -> (Vec<u32>, Vec<u32>) {
    let mut labels = Vec::new();
    let mut pos = Vec::new();
    let mut prev = 0u32;
    for (t, &a) in alignment.iter().enumerate() {
        if a != prev && a != 0 {
            labels.push(a);
            pos.push(t as u32);
        }
        prev = a;
    }
    (labels, pos)
}

pub struct Reference {
    /// label sequence -> probability (sum over all alignments of the full matrix), f64
    pub seq_prob: BTreeMap<Vec<u32>, f64>,
    /// D(t): number of distinct collapsed sequences over ALL alignments of the first t rows
    pub d: Vec<usize>,
    /// N(t): the same, counting only alignments of positive probability
    pub n_pos: Vec<usize>,
}

fn for_each_alignment(l: usize, t: usize, mut f: impl FnMut(&[u32])) {
    let mut a = vec![0u32; t];
    loop {
        f(&a);
        let mut i = t;
        loop {
            if i == 0 {
                return;
            }
            i -= 1;
            a[i] += 1;
            if (a[i] as usize) < l {
                break;
            }
            a[i] = 0;
        }
    }
}

pub fn reference(m: &Matrix) -> Reference {
    let p = |t: usize, l: usize| (m.lp(t, l) as f64).exp();
    let mut d = vec![1usize; m.t + 1];
    let mut n_pos = vec![1usize; m.t + 1];
    let mut seq_prob = BTreeMap::new();
    for t in 1..=m.t {
        let mut all: BTreeSet<Vec<u32>> = BTreeSet::new();
        let mut pos: BTreeSet<Vec<u32>> = BTreeSet::new();
        for_each_alignment(m.l, t, |a| {
            let (labels, _) = collapse(a);
            let mut pr = 1.0f64;
            for (i, &x) in a.iter().enumerate() {
                pr *= p(i, x as usize);
            }
            if pr > 0.0 {
                pos.insert(labels.clone());
            }
            if t == m.t {
                *seq_prob.entry(labels.clone()).or_insert(0.0) += pr;
            }
            all.insert(labels);
        });
        d[t] = all.len();
        n_pos[t] = pos.len();
    }
    Reference { seq_prob, d, n_pos }
}

impl Reference {
    pub fn exact_log(&self, labels: &[u32]) -> f64 {
        match self.seq_prob.get(labels) {
            Some(&p) if p > 0.0 => p.ln(),
            _ => f64::NEG_INFINITY,
        }
    }
    /// Input class used in signatures: does the beam have slots that cannot be claimed by a
    /// prefix of positive probability mass at some step >= 2?
    pub fn spare_slots(&self, width: u32) -> bool {
        (2..self.n_pos.len()).any(|t| (width as usize) > self.n_pos[t])
    }
    /// Nothing can be pruned: the beam is at least as wide as the number of distinct
    /// collapsed sequences of the whole input (D is monotone in t).
    pub fn unpruned(&self, width: u32) -> bool {
        (width as usize) >= *self.d.last().unwrap()
    }
}

fn close(score: f32, exact: f64) -> bool {
    let s = score as f64;
    if exact == f64::NEG_INFINITY {
        return s == f64::NEG_INFINITY;
    }
    s.is_finite() && (s - exact).abs() <= TOL
}

fn fmt_hyps(h: &[Hyp]) -> String {
    let v: Vec<String> = h.iter().map(|h| format!("{:?}:{}", h.labels, h.score)).collect();
    format!("[{}]", v.join(", "))
}

/// One failed clause: (signature, detail).
pub type Fail = (String, String);

/// Check the greedy clause. Ties in the arg-max are resolved in favour of the code under test:
/// any path that picks a maximal label at every step is accepted.
pub fn check_greedy(dec: &dyn Decoder, m: &Matrix, loc: &mut Local) -> Vec<Fail> {
    let mut fails = Vec::new();
    let h = match vp_core::catch(|| dec.greedy(m)) {
        Ok(h) => h,
        Err(e) => {
            fails.push((
                "ctc.decode_greedy: panicked on a well-formed matrix".to_string(),
                format!("panic: {e}"),
            ));
            return fails;
        }
    };
    // maximal label sets per step
    let mut choices: Vec<Vec<u32>> = Vec::new();
    let mut expect_score = 0.0f64;
    for t in 0..m.t {
        let mx = (0..m.l).map(|l| m.lp(t, l)).fold(f32::NEG_INFINITY, f32::max);
        choices.push((0..m.l as u32).filter(|&l| m.lp(t, l as usize) == mx).collect());
        expect_score += mx as f64;
    }
    let mut ok_path = false;
    let mut first_choice_path = None;
    let radices: Vec<usize> = choices.iter().map(|c| c.len()).collect();
    for idx in vp_core::odometer::Odometer::new(&radices) {
        let path: Vec<u32> = idx.iter().enumerate().map(|(t, &i)| choices[t][i]).collect();
        let (labels, pos) = collapse(&path);
        if first_choice_path.is_none() {
            first_choice_path = Some((labels.clone(), pos.clone()));
        }
        if labels == h.labels && pos == h.pos {
            ok_path = true;
        }
    }
    if radices.iter().any(|&r| r > 1) {
        loc.add("greedy_cases_with_ties", 1);
        if let Some((l, p)) = first_choice_path {
            if l != h.labels || p != h.pos {
                loc.observe("decode_greedy: tie in arg-max not resolved to the lowest label index");
            }
        }
    }
    if !ok_path {
        fails.push((
            "ctc.decode_greedy: labels/positions are not the collapse of an arg-max path".to_string(),
            format!("got labels {:?} pos {:?}; arg-max label sets per step {:?}", h.labels, h.pos, choices),
        ));
    }
    if !close(h.score, expect_score) {
        fails.push((
            "ctc.decode_greedy: score is not the sum of the per-step maximal log-probabilities".to_string(),
            format!("got score {} expected {}", h.score, expect_score),
        ));
    }
    loc.outcomes.insert(hash_bytes(format!("g{:?}{:?}", h.labels, h.pos).as_bytes()));
    fails
}

/// Check the beam clauses for one (matrix, width) over a list of n-best counts.
/// Returns (n_best, failure) pairs.
pub fn check_beam(
    dec: &dyn Decoder,
    m: &Matrix,
    r: &Reference,
    width: u32,
    n_bests: &[u32],
    loc: &mut Local,
) -> Vec<(u32, Fail)> {
    let mut fails: Vec<(u32, Fail)> = Vec::new();
    let positive = m.positive();
    // Input class named in the signature of the exactness clause (see Reference::spare_slots).
    // It is exact there: with beam_size >= D(T) nothing is pruned, so the number of candidates
    // of positive mass at step t is N(t). (For pruned beams it would only be a heuristic, which
    // is why the other clauses do not carry it.)
    let class = if r.spare_slots(width) {
        "spare beam slots: beam_size > #positive-mass prefixes at a step >= 2"
    } else {
        "no spare beam slots"
    };
    let unpruned = r.unpruned(width);

    let check_list = |n_best: u32, site: &str, hyps: &[Hyp], fails: &mut Vec<(u32, Fail)>, loc: &mut Local| {
        loc.add("beam_hypotheses_scored_against_brute_force", hyps.len() as u64);
        // 1. pairwise distinct label sequences
        let mut seen: BTreeSet<&[u32]> = BTreeSet::new();
        let mut dup = None;
        for h in hyps {
            if !seen.insert(&h.labels) && dup.is_none() {
                dup = Some(h.labels.clone());
            }
        }
        if let Some(d) = dup {
            fails.push((
                n_best,
                (
                    format!("ctc.{site}: duplicate label sequences in result"),
                    format!("label sequence {:?} returned more than once; result {}", d, fmt_hyps(hyps)),
                ),
            ));
        }
        for h in hyps {
            let exact = r.exact_log(&h.labels);
            let s = h.score as f64;
            // 2. finite scores (strictly positive matrices: every label sequence that can be
            //    returned has a finite exact log-probability or is impossible)
            if positive && !s.is_finite() {
                fails.push((
                    n_best,
                    (
                        format!("ctc.{site}: non-finite score on a strictly positive matrix"),
                        format!("labels {:?} score {}; result {}", h.labels, h.score, fmt_hyps(hyps)),
                    ),
                ));
                continue;
            }
            // 3. never exceeds the exact log-probability (NaN counts as exceeding)
            if s.is_nan() || s > exact + TOL {
                fails.push((
                    n_best,
                    (
                        format!("ctc.{site}: score exceeds the exact log-probability of its label sequence"),
                        format!("labels {:?} score {} exact {}", h.labels, h.score, exact),
                    ),
                ));
                continue;
            }
            // 4. exact when nothing can be pruned
            if unpruned {
                loc.add("beam_hypotheses_checked_for_exactness", 1);
                if !close(h.score, exact) {
                    fails.push((
                        n_best,
                        (
                            format!("ctc.{site}: score not exact although beam_size >= #distinct collapsed sequences [{class}]"),
                            format!(
                                "labels {:?} score {} exact {} (D(T)={}); result {}",
                                h.labels,
                                h.score,
                                exact,
                                r.d.last().unwrap(),
                                fmt_hyps(hyps)
                            ),
                        ),
                    ));
                }
            }
        }
    };

    for &n_best in n_bests {
        loc.add("beam_nbest_calls", 1);
        match vp_core::catch(|| dec.beam_nbest(m, width, n_best)) {
            Ok(hyps) => {
                if hyps.len() as u32 > n_best.min(width) {
                    fails.push((
                        n_best,
                        (
                            "ctc.decode_beam_nbest: more hypotheses than min(n_best, beam_size)".to_string(),
                            format!("{} hypotheses for n_best {} beam_size {}", hyps.len(), n_best, width),
                        ),
                    ));
                }
                if hyps.len() >= 2 {
                    loc.add("beam_results_with_2plus_hypotheses", 1);
                }
                let mut key = String::new();
                for h in &hyps {
                    key.push_str(&format!("{:?};", h.labels));
                }
                loc.outcomes.insert(hash_bytes(key.as_bytes()));
                check_list(n_best, SITE, &hyps, &mut fails, loc);
            }
            Err(e) => fails.push((
                n_best,
                (
                    "ctc.decode_beam_nbest: panicked on a well-formed matrix".to_string(),
                    format!("panic: {e}"),
                ),
            )),
        }
    }
    // single-best entry point
    loc.add("beam_best_calls", 1);
    match vp_core::catch(|| dec.beam(m, width)) {
        Ok(h) => check_list(0, SITE, std::slice::from_ref(&h), &mut fails, loc),
        Err(e) => fails.push((
            0,
            (
                "ctc.decode_beam: panicked on a well-formed matrix".to_string(),
                format!("panic: {e}"),
            ),
        )),
    }
    fails
}

// ---------------------------------------------------------------------------------------
// Enumeration.

/// All compositions of `den` into `l` non-negative parts, lexicographic.
pub fn simplex(l: usize, den: u32) -> Vec<Vec<u32>> {
    fn rec(l: usize, left: u32, cur: &mut Vec<u32>, out: &mut Vec<Vec<u32>>) {
        if cur.len() + 1 == l {
            cur.push(left);
            out.push(cur.clone());
            cur.pop();
            return;
        }
        for k in 0..=left {
            cur.push(k);
            rec(l, left - k, cur, out);
            cur.pop();
        }
    }
    let mut out = Vec::new();
    rec(l, den, &mut Vec::new(), &mut out);
    out
}

#[derive(Clone, Debug)]
pub struct SubBox {
    pub t: usize,
    pub l: usize,
    pub den: u32,
    pub widths: Vec<u32>,
    pub n_bests: Vec<u32>,
}

pub fn matrix_at(sb: &SubBox, points: &[Vec<u32>], mut idx: usize) -> Matrix {
    let mut rows = vec![0usize; sb.t];
    for t in (0..sb.t).rev() {
        rows[t] = idx % points.len();
        idx /= points.len();
    }
    let mut num = Vec::with_capacity(sb.t * sb.l);
    for t in 0..sb.t {
        num.extend_from_slice(&points[rows[t]]);
    }
    Matrix::from_num(sb.t, sb.l, sb.den, num)
}

fn boxes(ctx: &Ctx) -> Vec<SubBox> {
    let mut v = Vec::new();
    let w12: Vec<u32> = (1..=12).collect();
    if !ctx.tier.is_thorough() {
        let mut widths = w12.clone();
        widths.extend([16, 20]);
        for t in 1..=3 {
            for l in 2..=3 {
                for den in [4u32, 5] {
                    v.push(SubBox { t, l, den, widths: widths.clone(), n_bests: w12.clone() });
                }
            }
        }
        // longer sequences on coarse lattices: prefixes that are pruned and re-created
        // at a later step need T >= 4 and a narrow beam
        for (t, l, den) in [(4usize, 2usize, 4u32), (4, 3, 3), (5, 2, 3), (5, 3, 2), (6, 2, 2)] {
            v.push(SubBox { t, l, den, widths: widths.clone(), n_bests: vec![1u32, 2, 3, 5, 8, 13] });
        }
    } else {
        let mut widths: Vec<u32> = (1..=20).collect();
        widths.extend([24, 32, 64]);
        let mut nb: Vec<u32> = (1..=12).collect();
        nb.extend([16, 20, 33, 100]);
        let nb_small = vec![1u32, 2, 3, 5, 8, 13, 21, 100];
        // T <= 3: every denominator 1..=6, L <= 4 (the two largest with a reduced n-best axis;
        // T=3,L=4,den=6 (592 704 matrices) is left out for time)
        for t in 1..=3 {
            for l in 2..=4 {
                for den in 1u32..=6 {
                    if (t, l, den) == (3, 4, 6) {
                        continue;
                    }
                    let n_bests = if (t, l) == (3, 4) && den >= 4 { nb_small.clone() } else { nb.clone() };
                    v.push(SubBox { t, l, den, widths: widths.clone(), n_bests });
                }
            }
        }
        // longer sequences with a reduced n-best axis
        for (t, l, den) in [
            (4usize, 2usize, 4u32),
            (4, 2, 6),
            (4, 3, 3),
            (4, 3, 4),
            (4, 4, 2),
            (4, 4, 3),
            (5, 2, 4),
            (5, 3, 2),
            (5, 3, 3),
            (6, 2, 3),
            (6, 3, 2),
            (7, 2, 2),
        ] {
            v.push(SubBox { t, l, den, widths: widths.clone(), n_bests: nb_small.clone() });
        }
    }
    v
}

fn case_json(op: &str, m: &Matrix, width: u32, n_best: u32) -> Json {
    json!({
        "op": op, "T": m.t, "L": m.l, "den": m.den, "num": m.rows_json(),
        "beam_size": width, "n_best": n_best,
        "note": "log-prob[t][l] = ln(num[t][l] as f32 / den as f32) computed in f32; label 0 is the blank; n_best 0 means decode_beam"
    })
}

fn matrix_from_case(c: &Json) -> Matrix {
    let t = ju(c, "T") as usize;
    let l = ju(c, "L") as usize;
    let den = ju(c, "den") as u32;
    let mut num = Vec::new();
    for row in c["num"].as_array().unwrap_or_else(|| vp_core::machinery_error("replay: num missing")) {
        for x in row.as_array().unwrap_or_else(|| vp_core::machinery_error("replay: num row")) {
            num.push(x.as_u64().unwrap_or_else(|| vp_core::machinery_error("replay: num entry")) as u32);
        }
    }
    if num.len() != t * l {
        vp_core::machinery_error("replay: num has wrong size");
    }
    Matrix::from_num(t, l, den, num)
}

/// Run one case (as stored in a replay artefact) and return its failures.
fn run_case(dec: &dyn Decoder, c: &Json, loc: &mut Local) -> Vec<Fail> {
    let m = matrix_from_case(c);
    match c["op"].as_str().unwrap_or("") {
        "greedy" => check_greedy(dec, &m, loc),
        "beam" => {
            let r = reference(&m);
            let width = ju(c, "beam_size") as u32;
            let n_best = ju(c, "n_best") as u32;
            check_beam(dec, &m, &r, width, &[n_best.max(1)], loc)
                .into_iter()
                .filter(|(n, _)| *n == n_best)
                .map(|(_, f)| f)
                .collect()
        }
        _ => vp_core::machinery_error("replay: unknown op"),
    }
}

/// Enumerate one sub-box with decoder `dec`.
pub fn explore_box(dec: &dyn Decoder, sb: &SubBox, sample_cap: usize) -> Local {
    let points = simplex(sb.l, sb.den);
    let total = points.len().pow(sb.t as u32);
    let shards = chunks(total, 64);
    let locals = vp_core::par::map(shards.len(), |si| {
        let (s, e) = shards[si];
        let mut loc = Local::new();
        for idx in s..e {
            let m = matrix_at(sb, &points, idx);
            let r = reference(&m);
            loc.add("matrices", 1);
            if m.positive() {
                loc.add("matrices_strictly_positive", 1);
            }
            let n_pos_seqs = r.seq_prob.values().filter(|&&p| p > 0.0).count();
            if n_pos_seqs >= 2 {
                let bits: Vec<u32> = m.logp.iter().map(|x| x.to_bits()).collect();
                loc.nontrivial.insert(hash_bytes(format!("{}/{}/{:?}", m.t, m.l, bits).as_bytes()));
            }
            // greedy
            loc.add("greedy_calls", 1);
            for (sig, detail) in check_greedy(dec, &m, &mut loc) {
                loc.violation(&sig, || case_json("greedy", &m, 0, 0), || detail);
            }
            // beam
            for &w in &sb.widths {
                if r.unpruned(w) {
                    loc.add("beam_cases_unpruned(width>=D(T))", 1);
                } else {
                    loc.add("beam_cases_pruning_possible", 1);
                }
                for (n_best, (sig, detail)) in check_beam(dec, &m, &r, w, &sb.n_bests, &mut loc) {
                    loc.violation(&sig, || case_json("beam", &m, w, n_best), || detail);
                }
            }
            if idx % 97 == 13 || total < 8 {
                loc.sample(2, || {
                    let w = sb.widths[sb.widths.len() / 2];
                    let hy = vp_core::catch(|| dec.beam_nbest(&m, w, w))
                        .map(|h| fmt_hyps(&h))
                        .unwrap_or_else(|e| format!("panic: {e}"));
                    let exact: Vec<String> = r
                        .seq_prob
                        .iter()
                        .map(|(k, v)| format!("{:?}:{:.5}", k, v.ln()))
                        .collect();
                    json!({"T": m.t, "L": m.l, "den": m.den, "num": m.rows_json(), "beam_size": w,
                        "beam_nbest_result": hy, "brute_force_log_probs": exact, "D(t)": r.d, "N(t)": r.n_pos})
                });
            }
        }
        loc
    });
    let mut total_loc = Local::new();
    for l in locals {
        total_loc.absorb(l, sample_cap);
    }
    total_loc
}

pub fn run(ctx: Ctx) -> ! {
    let dec = Rten;
    if let Some(path) = ctx.replay.clone() {
        let case = vp_core::read_replay_case(&path);
        let mut loc = Local::new();
        let fails = run_case(&dec, &case, &mut loc);
        for (sig, detail) in &fails {
            ctx.violation(sig.as_str(), case.clone(), detail.as_str());
        }
        println!("C39 replay: {} failing clause(s)", fails.len());
        ctx.finish(
            "exploration",
            json!({"evaluations": 1, "distinct_nontrivial": 2, "rule": "replay of one stored case",
                   "samples": [case], "exhaustive": false}),
            vec![],
        );
    }

    let bxs = boxes(&ctx);
    let mut all = Local::new();
    let mut axes = Vec::new();
    for sb in &bxs {
        let t0 = ctx.elapsed_s();
        let loc = explore_box(&dec, sb, 2);
        let points = simplex(sb.l, sb.den).len();
        axes.push(json!({
            "T": sb.t, "L": sb.l, "den": sb.den, "lattice_points_per_row": points,
            "matrices": loc.get("matrices"), "beam_widths": sb.widths, "n_best": sb.n_bests,
            "beam_nbest_calls": loc.get("beam_nbest_calls"),
            "violating_cases": loc.viol.values().map(|v| v.2).sum::<u64>(),
            "engine_s": ((ctx.elapsed_s() - t0) * 100.0).round() / 100.0,
        }));
        if loc.get("matrices") != points.pow(sb.t as u32) as u64 {
            ctx.machinery("C39: sub-box not enumerated completely");
        }
        all.absorb(loc, 12);
    }

    // Determinism guard: the first case of every signature must reproduce.
    for (sig, (case, _, _)) in &all.viol {
        for _ in 0..2 {
            let mut scratch = Local::new();
            let again = run_case(&dec, case, &mut scratch);
            if !again.iter().any(|(s, _)| s == sig) {
                ctx.machinery(&format!("C39: violation '{sig}' did not reproduce on re-run (nondeterminism)"));
            }
        }
    }

    // Vacuity guards.
    let evaluations = all.get("greedy_calls") + all.get("beam_nbest_calls") + all.get("beam_best_calls");
    if all.get("beam_hypotheses_checked_for_exactness") == 0
        || all.get("beam_cases_pruning_possible") == 0
        || all.get("beam_results_with_2plus_hypotheses") == 0
        || all.get("greedy_cases_with_ties") == 0
        || all.get("matrices_strictly_positive") == 0
    {
        ctx.machinery("C39: a sub-box of the oracle was never reached (vacuous run)");
    }
    let distinct_nontrivial = all.nontrivial.len() as u64;
    let distinct_outcomes = all.outcomes.len() as u64;
    let counts = json!(all.counts);
    let samples = std::mem::take(&mut all.samples);
    let n_sigs = all.viol.len();
    let n_viol: u64 = all.viol.values().map(|v| v.2).sum();
    let by_sig: Vec<Json> = all.viol.iter().map(|(s, v)| json!({"signature": s, "violating_cases": v.2})).collect();
    all.flush(&ctx);
    println!(
        "C39 summary: {} sub-boxes, {} matrices, {} decoder calls, {} distinct outcomes, {} violating cases in {} signature(s)",
        bxs.len(),
        counts["matrices"],
        evaluations,
        distinct_outcomes,
        n_viol,
        n_sigs
    );
    ctx.finish(
        "exploration",
        json!({
            "evaluations": evaluations,
            "distinct_nontrivial": distinct_nontrivial,
            "rule": "every [T,L] matrix whose rows are points of the simplex lattice with denominator den (zeros included), per listed sub-box; x every listed beam width x every listed n-best count, plus decode_beam and decode_greedy per matrix. distinct_nontrivial = distinct matrices whose brute-force reference has >= 2 label sequences of positive probability (so merging/pruning/ordering matter) and which were decoded and compared",
            "samples": samples,
            "exhaustive": true,
            "sub_boxes": axes,
            "counts": counts,
            "distinct_outcomes": distinct_outcomes,
            "violating_cases_by_signature_exact": by_sig,
            "tolerance_log_domain": TOL,
            "oracle": "brute force over all L^T alignments in f64 on the f32 log-probabilities handed to the decoder",
        }),
        vec![
            "f64 brute-force sum over alignments is exact to well below the 1e-4 tolerance".into(),
            "ties in the greedy arg-max are accepted in any resolution (statement does not fix tie-breaking)".into(),
            "beam 'wide enough that nothing is pruned' is taken as beam_size >= number of distinct collapsed sequences over all alignments of the input".into(),
            "zero probabilities (log-prob -inf) are in the box; the finiteness clause is applied to strictly positive matrices only; elsewhere -inf is accepted iff the exact probability is 0".into(),
            "a panic on a well-formed matrix is reported as a violation (the statement prescribes a returned value)".into(),
        ],
    );
}
