//! mc-misc: bounded-exhaustive engines for
//!   C35 (rten-imageproc polygon algorithms),
//!   C36 (rten-imageproc contour tracing + drawing primitives),
//!   C39 (rten::ctc greedy / beam decoding).
//!
//! `mc-misc <Cnn> [quick|thorough] [--replay <file>]`
//! `mc-misc --worker c36draw` is the isolated child used by the C36 drawing sweep.

mod c35;
mod c36;
mod c39;
mod util;

fn main() {
    if vp_core::isolate::worker_name().as_deref() == Some("c36draw") {
        c36::worker_main();
    }
    let prop = std::env::args().nth(1).unwrap_or_default();
    match prop.as_str() {
        "C35" => c35::run(vp_core::Ctx::from_env("C35")),
        "C36" => c36::run(vp_core::Ctx::from_env("C36")),
        "C39" => c39::run(vp_core::Ctx::from_env("C39")),
        _ => vp_core::machinery_error("unknown property (mc-misc serves C35, C36, C39)"),
    }
}
