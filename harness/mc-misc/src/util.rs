//! Shard-local result collection so that verdict artefacts do not depend on thread timing.

use std::collections::{BTreeMap, HashSet};

use vp_core::{Ctx, Json};

/// Everything one shard of an enumeration produces. Shards are merged in shard order, so the
/// replay artefact of a signature is always the first failing case in enumeration order.
#[derive(Default)]
pub struct Local {
    /// signature -> (first case, detail, number of cases)
    pub viol: BTreeMap<String, (Json, String, u64)>,
    pub counts: BTreeMap<String, u64>,
    pub obs: BTreeMap<String, u64>,
    /// hashes of distinct observable outcomes
    pub outcomes: HashSet<u64>,
    /// hashes of distinct non-trivial cases
    pub nontrivial: HashSet<u64>,
    pub samples: Vec<Json>,
}

impl Local {
    pub fn new() -> Local {
        Local::default()
    }

    pub fn violation(&mut self, sig: &str, case: impl FnOnce() -> Json, detail: impl FnOnce() -> String) {
        match self.viol.get_mut(sig) {
            Some(e) => e.2 += 1,
            None => {
                self.viol.insert(sig.to_string(), (case(), detail(), 1));
            }
        }
    }

    pub fn add(&mut self, key: &str, n: u64) {
        match self.counts.get_mut(key) {
            Some(v) => *v += n,
            None => {
                self.counts.insert(key.to_string(), n);
            }
        }
    }

    pub fn get(&self, key: &str) -> u64 {
        self.counts.get(key).copied().unwrap_or(0)
    }

    pub fn observe(&mut self, what: &str) {
        match self.obs.get_mut(what) {
            Some(v) => *v += 1,
            None => {
                self.obs.insert(what.to_string(), 1);
            }
        }
    }

    pub fn sample(&mut self, cap: usize, f: impl FnOnce() -> Json) {
        if self.samples.len() < cap {
            self.samples.push(f());
        }
    }

    /// Merge `other` (a later shard) into self.
    pub fn absorb(&mut self, other: Local, sample_cap: usize) {
        for (sig, (case, detail, n)) in other.viol {
            match self.viol.get_mut(&sig) {
                Some(e) => e.2 += n,
                None => {
                    self.viol.insert(sig, (case, detail, n));
                }
            }
        }
        for (k, v) in other.counts {
            *self.counts.entry(k).or_insert(0) += v;
        }
        for (k, v) in other.obs {
            *self.obs.entry(k).or_insert(0) += v;
        }
        self.outcomes.extend(other.outcomes);
        self.nontrivial.extend(other.nontrivial);
        for s in other.samples {
            if self.samples.len() < sample_cap {
                self.samples.push(s);
            }
        }
    }

    /// Hand violations and observations to the context (main thread, deterministic order).
    /// Ctx counts one violation per call; the per-signature count handed over is capped at
    /// FLUSH_CAP (engines put the exact counts into their coverage JSON).
    pub fn flush(&mut self, ctx: &Ctx) {
        for (sig, (case, detail, n)) in std::mem::take(&mut self.viol) {
            ctx.violation(sig.clone(), case, detail);
            for _ in 1..n.min(FLUSH_CAP) {
                ctx.violation(sig.as_str(), Json::Null, "");
            }
        }
        for (k, v) in std::mem::take(&mut self.obs) {
            ctx.observe_n(&k, v);
        }
    }
}

pub const FLUSH_CAP: u64 = 100_000;

pub fn hash_of(parts: &[u64]) -> u64 {
    let mut h: u64 = 0xcbf29ce484222325;
    for p in parts {
        for b in p.to_le_bytes() {
            h ^= b as u64;
            h = h.wrapping_mul(0x100000001b3);
        }
    }
    h
}

pub fn hash_bytes(bytes: &[u8]) -> u64 {
    vp_core::fnv(bytes)
}

/// Split `0..n` into contiguous chunks of at most `chunk` items.
pub fn chunks(n: usize, chunk: usize) -> Vec<(usize, usize)> {
    let mut v = Vec::new();
    let mut s = 0;
    while s < n {
        let e = (s + chunk).min(n);
        v.push((s, e));
        s = e;
    }
    v
}

pub fn ju(v: &Json, key: &str) -> u64 {
    v[key]
        .as_u64()
        .unwrap_or_else(|| vp_core::machinery_error(&format!("replay case lacks integer field '{key}'")))
}

impl Local {
    /// Serialise for the child -> parent pipe of isolated workers.
    pub fn to_json(&self) -> Json {
        let viol: Vec<Json> = self
            .viol
            .iter()
            .map(|(s, (c, d, n))| vp_core::json!({"sig": s, "case": c, "detail": d, "n": n}))
            .collect();
        vp_core::json!({
            "viol": viol,
            "counts": self.counts,
            "obs": self.obs,
            "outcomes": self.outcomes.iter().collect::<Vec<_>>(),
            "nontrivial": self.nontrivial.iter().collect::<Vec<_>>(),
            "samples": self.samples,
        })
    }

    pub fn from_json(v: &Json) -> Local {
        let mut l = Local::new();
        let bad = || -> ! { vp_core::machinery_error("worker answer malformed") };
        for e in v["viol"].as_array().unwrap_or_else(|| bad()) {
            l.viol.insert(
                e["sig"].as_str().unwrap_or_else(|| bad()).to_string(),
                (
                    e["case"].clone(),
                    e["detail"].as_str().unwrap_or("").to_string(),
                    e["n"].as_u64().unwrap_or_else(|| bad()),
                ),
            );
        }
        for (k, x) in v["counts"].as_object().unwrap_or_else(|| bad()) {
            l.counts.insert(k.clone(), x.as_u64().unwrap_or_else(|| bad()));
        }
        for (k, x) in v["obs"].as_object().unwrap_or_else(|| bad()) {
            l.obs.insert(k.clone(), x.as_u64().unwrap_or_else(|| bad()));
        }
        for x in v["outcomes"].as_array().unwrap_or_else(|| bad()) {
            l.outcomes.insert(x.as_u64().unwrap_or_else(|| bad()));
        }
        for x in v["nontrivial"].as_array().unwrap_or_else(|| bad()) {
            l.nontrivial.insert(x.as_u64().unwrap_or_else(|| bad()));
        }
        for x in v["samples"].as_array().unwrap_or_else(|| bad()) {
            l.samples.push(x.clone());
        }
        l
    }
}
