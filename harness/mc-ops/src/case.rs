//! A catalogue case: one operator node + attributes + concrete inputs.

use crate::rt::{Dt, RT};
use vp_core::{Json, json};

/// Attribute value (harness-side, serialisable).
#[derive(Clone, Debug, PartialEq)]
pub enum AV {
    Int(i64),
    Float(f32),
    Str(String),
    Ints(Vec<i64>),
    Floats(Vec<f32>),
    /// tensor attribute (ConstantOfShape.value)
    Tensor(RT),
}

/// Float comparison rule for this case.
#[derive(Clone, Copy, Debug, PartialEq)]
pub struct Tol {
    pub abs: f64,
    pub rel: f64,
}

impl Tol {
    pub const EXACT: Tol = Tol { abs: 0.0, rel: 0.0 };
    /// Transcendental functions: rten-vecmath documents a few ULP of f32; the
    /// harness allows 1e-5 relative + 1e-6 absolute.
    pub const TRANSCENDENTAL: Tol = Tol { abs: 1e-6, rel: 1e-5 };
    /// Normalisations / softmax (rsqrt, exp, division chains in f32).
    pub const NORM: Tol = Tol { abs: 2e-5, rel: 2e-5 };
    pub fn is_exact(&self) -> bool {
        self.abs == 0.0 && self.rel == 0.0
    }
}

pub fn dt_family(dt: Dt) -> &'static str {
    match dt {
        Dt::F32 | Dt::F64 => "float",
        Dt::I32 | Dt::I64 => "int",
        Dt::Bool => "bool",
        Dt::U8 => "uint8",
        Dt::I8 => "int8",
    }
}

#[derive(Clone, Debug, PartialEq)]
pub struct Case {
    pub op: &'static str,
    /// attribute/input class: goes into the signature
    pub class: String,
    /// additional class used only for value mismatches (element-type family by default)
    pub vclass: String,
    pub domain: &'static str,
    pub opset: i64,
    pub attrs: Vec<(String, AV)>,
    /// `None` = optional input left out (empty name)
    pub inputs: Vec<Option<RT>>,
    pub n_out: usize,
    pub tol: Tol,
    /// true: an error/panic of rten on this case is reported as a C15
    /// violation when the reference defines a result; false: observation only.
    pub strict_err: bool,
}

impl Case {
    pub fn new(op: &'static str, class: impl Into<String>, inputs: Vec<Option<RT>>) -> Case {
        let vclass = inputs.iter().flatten().next().map(|t| dt_family(t.dt).to_string()).unwrap_or_default();
        Case {
            op,
            class: class.into(),
            vclass,
            domain: "",
            opset: 21,
            attrs: Vec::new(),
            inputs,
            n_out: 1,
            tol: Tol::EXACT,
            strict_err: true,
        }
    }
    pub fn attr(mut self, name: &str, v: AV) -> Case {
        self.attrs.push((name.to_string(), v));
        self
    }
    pub fn attr_i(self, name: &str, v: i64) -> Case {
        self.attr(name, AV::Int(v))
    }
    pub fn attr_f(self, name: &str, v: f32) -> Case {
        self.attr(name, AV::Float(v))
    }
    pub fn attr_s(self, name: &str, v: &str) -> Case {
        self.attr(name, AV::Str(v.to_string()))
    }
    pub fn attr_is(self, name: &str, v: &[i64]) -> Case {
        self.attr(name, AV::Ints(v.to_vec()))
    }
    pub fn vclass(mut self, v: impl Into<String>) -> Case {
        self.vclass = v.into();
        self
    }
    pub fn outs(mut self, n: usize) -> Case {
        self.n_out = n;
        self
    }
    pub fn tol(mut self, t: Tol) -> Case {
        self.tol = t;
        self
    }
    pub fn opset(mut self, o: i64) -> Case {
        self.opset = o;
        self
    }
    pub fn lenient(mut self) -> Case {
        self.strict_err = false;
        self
    }

    pub fn get(&self, name: &str) -> Option<&AV> {
        self.attrs.iter().find(|(n, _)| n == name).map(|(_, v)| v)
    }
    pub fn int(&self, name: &str, default: i64) -> i64 {
        match self.get(name) {
            Some(AV::Int(i)) => *i,
            _ => default,
        }
    }
    pub fn int_opt(&self, name: &str) -> Option<i64> {
        match self.get(name) {
            Some(AV::Int(i)) => Some(*i),
            _ => None,
        }
    }
    pub fn float(&self, name: &str, default: f32) -> f32 {
        match self.get(name) {
            Some(AV::Float(f)) => *f,
            _ => default,
        }
    }
    pub fn float_opt(&self, name: &str) -> Option<f32> {
        match self.get(name) {
            Some(AV::Float(f)) => Some(*f),
            _ => None,
        }
    }
    pub fn string(&self, name: &str, default: &str) -> String {
        match self.get(name) {
            Some(AV::Str(s)) => s.clone(),
            _ => default.to_string(),
        }
    }
    pub fn ints(&self, name: &str) -> Option<Vec<i64>> {
        match self.get(name) {
            Some(AV::Ints(v)) => Some(v.clone()),
            _ => None,
        }
    }
    pub fn input(&self, i: usize) -> Option<&RT> {
        self.inputs.get(i).and_then(|o| o.as_ref())
    }

    pub fn to_json(&self) -> Json {
        let attrs: Vec<Json> = self
            .attrs
            .iter()
            .map(|(n, v)| {
                let (k, val) = match v {
                    AV::Int(i) => ("int", json!(i)),
                    AV::Float(f) => ("float", crate::rt::num_to_json(*f as f64)),
                    AV::Str(s) => ("str", json!(s)),
                    AV::Ints(v) => ("ints", json!(v)),
                    AV::Floats(v) => ("floats", json!(v.iter().map(|f| crate::rt::num_to_json(*f as f64)).collect::<Vec<_>>())),
                    AV::Tensor(t) => ("tensor", t.to_json()),
                };
                json!({"name": n, "kind": k, "value": val})
            })
            .collect();
        json!({
            "op": self.op,
            "class": self.class,
            "vclass": self.vclass,
            "domain": self.domain,
            "opset": self.opset,
            "attrs": attrs,
            "inputs": self.inputs.iter().map(|i| match i { Some(t) => t.to_json(), None => Json::Null }).collect::<Vec<_>>(),
            "n_out": self.n_out,
            "tol": {"abs": self.tol.abs, "rel": self.tol.rel},
            "strict_err": self.strict_err,
        })
    }

    pub fn from_json(j: &Json) -> Option<Case> {
        let op_s = j["op"].as_str()?;
        let op = crate::catalogue::intern_op(op_s)?;
        let mut attrs = Vec::new();
        for a in j["attrs"].as_array()? {
            let n = a["name"].as_str()?.to_string();
            let v = &a["value"];
            let av = match a["kind"].as_str()? {
                "int" => AV::Int(v.as_i64()?),
                "float" => AV::Float(crate::rt::num_from_json(v)? as f32),
                "str" => AV::Str(v.as_str()?.to_string()),
                "ints" => AV::Ints(v.as_array()?.iter().map(|x| x.as_i64()).collect::<Option<_>>()?),
                "floats" => AV::Floats(v.as_array()?.iter().map(|x| crate::rt::num_from_json(x).map(|f| f as f32)).collect::<Option<_>>()?),
                "tensor" => AV::Tensor(RT::from_json(v)?),
                _ => return None,
            };
            attrs.push((n, av));
        }
        let mut inputs = Vec::new();
        for i in j["inputs"].as_array()? {
            if i.is_null() {
                inputs.push(None);
            } else {
                inputs.push(Some(RT::from_json(i)?));
            }
        }
        let domain = match j["domain"].as_str().unwrap_or("") {
            "" => "",
            "com.microsoft" => "com.microsoft",
            _ => return None,
        };
        Some(Case {
            op,
            class: j["class"].as_str()?.to_string(),
            vclass: j["vclass"].as_str().unwrap_or("").to_string(),
            domain,
            opset: j["opset"].as_i64()?,
            attrs,
            inputs,
            n_out: j["n_out"].as_u64()? as usize,
            tol: Tol { abs: j["tol"]["abs"].as_f64()?, rel: j["tol"]["rel"].as_f64()? },
            strict_err: j["strict_err"].as_bool().unwrap_or(true),
        })
    }

    pub fn brief(&self) -> String {
        let ins: Vec<String> = self.inputs.iter().map(|i| i.as_ref().map(|t| t.brief()).unwrap_or_else(|| "-".into())).collect();
        format!("{} attrs={:?} inputs=[{}]", self.op, self.attrs, ins.join(" ; "))
    }

    pub fn input_dts(&self) -> Vec<Option<Dt>> {
        self.inputs.iter().map(|i| i.as_ref().map(|t| t.dt)).collect()
    }
}
