//! Generators: element-wise binary / unary / variadic operators, Where, Clip, Cast.

use super::*;
use crate::case::{Case, Tol};
use crate::rt::{Dt, RT};
use vp_core::Tier;

pub fn register(v: &mut Vec<Entry>) {
    macro_rules! bin {
        ($name:literal) => {
            v.push(Entry {
                op: $name,
                claimed: true,
                axes: "every broadcastable ordered shape pair (ranks 0-3 over {1,2,3}; thorough: ranks 0-3 over {1,2,3,5} + rank 4 over {1,2,3}) + long inner extents (17,33,64) x dtypes x fills",
                r#gen: |t| binary($name, t),
            });
        };
    }
    bin!("Add");
    bin!("Sub");
    bin!("Mul");
    bin!("Div");
    bin!("Pow");
    bin!("Mod");
    bin!("And");
    bin!("Or");
    bin!("Xor");
    bin!("Equal");
    bin!("Less");
    bin!("LessOrEqual");
    bin!("Greater");
    bin!("GreaterOrEqual");
    bin!("PRelu");
    macro_rules! un {
        ($name:literal) => {
            v.push(Entry { op: $name, claimed: true, axes: "shape grid (ranks 0-4, extents 0,1,2,3,5,17,33,64,65,100) x dtypes x fills x attribute grid", r#gen: |t| unary($name, t) });
        };
    }
    for_each_unary!(un);
    macro_rules! var {
        ($name:literal) => {
            v.push(Entry { op: $name, claimed: true, axes: "1-3 inputs x every broadcastable combination of 7 shapes x dtypes x fills", r#gen: |t| variadic($name, t) });
        };
    }
    var!("Max");
    var!("Min");
    var!("Sum");
    var!("Mean");
    v.push(Entry { op: "Where", claimed: true, axes: "every broadcastable (cond,X,Y) triple of 7 shapes x dtypes", r#gen: where_ });
    v.push(Entry { op: "Clip", claimed: true, axes: "min/max presence x bounds grid (incl. min>max) x dtypes x shapes x {opset 21 inputs, opset 6 attributes}", r#gen: clip });
    v.push(Entry { op: "Cast", claimed: true, axes: "from 7 dtypes x to 7 dtypes x shapes x fills", r#gen: cast });
    v.push(Entry { op: "CastLike", claimed: true, axes: "from 7 dtypes x like 7 dtypes x shapes", r#gen: cast_like });
}

macro_rules! for_each_unary {
    ($m:ident) => {
        $m!("Abs");
        $m!("Neg");
        $m!("Sign");
        $m!("Relu");
        $m!("LeakyRelu");
        $m!("Floor");
        $m!("Ceil");
        $m!("Round");
        $m!("Sqrt");
        $m!("Reciprocal");
        $m!("Exp");
        $m!("Log");
        $m!("Sigmoid");
        $m!("Tanh");
        $m!("Erf");
        $m!("Not");
        $m!("Sin");
        $m!("Cos");
        $m!("Tan");
        $m!("Asin");
        $m!("Acos");
        $m!("Atan");
        $m!("Sinh");
        $m!("Cosh");
        $m!("Asinh");
        $m!("Acosh");
        $m!("Atanh");
        $m!("Softplus");
        $m!("Elu");
        $m!("HardSigmoid");
        $m!("HardSwish");
        $m!("Gelu");
        $m!("IsNaN");
        $m!("IsInf");
        $m!("Identity");
    };
}
use for_each_unary;

fn binary(op: &'static str, tier: Tier) -> Vec<Case> {
    let pairs = elementwise_pairs(tier);
    let mut out = Vec::new();
    let arith = matches!(op, "Add" | "Sub" | "Mul" | "Div" | "Pow" | "Mod" | "PRelu");
    let logic = matches!(op, "And" | "Or" | "Xor");
    let dts: Vec<Dt> = if logic {
        vec![Dt::Bool]
    } else if arith {
        match op {
            "PRelu" => vec![Dt::F32, Dt::I32, Dt::F64],
            "Pow" => vec![Dt::F32, Dt::I32, Dt::I64],
            _ => vec![Dt::F32, Dt::I32, Dt::I64, Dt::F64, Dt::U8, Dt::I8],
        }
    } else if op == "Equal" {
        vec![Dt::F32, Dt::I32, Dt::I64, Dt::Bool, Dt::F64]
    } else {
        vec![Dt::F32, Dt::I32, Dt::I64, Dt::F64]
    };
    for dt in dts {
        for (a, b) in &pairs {
            if op == "PRelu" && broadcast_shapes(a, b).as_deref() != Some(a.as_slice()) {
                continue;
            }
            let cls = bcast_class(a, b);
            // which fills make sense (results must stay defined and exact)
            let mut variants: Vec<(&str, RT, RT, Vec<(&str, i64)>, Tol)> = Vec::new();
            match op {
                "Add" | "Sub" => {
                    variants.push(("small", fill_small(dt, a, 0), fill_small(dt, b, 4), vec![], Tol::EXACT));
                    if dt.is_float() {
                        variants.push(("dyadic", fill_ext(dt, a, 1), fill_ext(dt, b, 6), vec![], Tol::EXACT));
                    }
                }
                "Mul" | "PRelu" => {
                    variants.push(("small", fill_small(dt, a, 0), fill_small(dt, b, 4), vec![], Tol::EXACT));
                    if dt.is_float() {
                        variants.push(("dyadic", fill_ext(dt, a, 1), fill_ext(dt, b, 6), vec![], Tol::EXACT));
                    }
                }
                "Div" => {
                    // float division may be carried out as multiplication by the reciprocal: 2 ulp
                    let t = if dt.is_float() { Tol { abs: 0.0, rel: 2.5e-7 } } else { Tol::EXACT };
                    variants.push(("small", fill_small(dt, a, 0), fill_nonzero(dt, b, 3), vec![], t));
                    if dt.is_float() {
                        variants.push(("dyadic", fill_ext(dt, a, 1), fill_nonzero(dt, b, 5), vec![], t));
                    }
                }
                "Mod" => {
                    if dt.is_float() {
                        variants.push(("small fmod=1", fill_small(dt, a, 0), fill_nonzero(dt, b, 3), vec![("fmod", 1)], Tol::EXACT));
                        variants.push(("dyadic fmod=1", fill_ext(dt, a, 1), fill_nonzero(dt, b, 5), vec![("fmod", 1)], Tol::EXACT));
                    } else {
                        variants.push(("small fmod=0", fill_small(dt, a, 0), fill_nonzero(dt, b, 3), vec![], Tol::EXACT));
                        variants.push(("small fmod=0 explicit", fill_small(dt, a, 2), fill_nonzero(dt, b, 1), vec![("fmod", 0)], Tol::EXACT));
                        variants.push(("small fmod=1", fill_small(dt, a, 0), fill_nonzero(dt, b, 3), vec![("fmod", 1)], Tol::EXACT));
                    }
                }
                "Pow" => {
                    if dt.is_float() {
                        // integral exponents of any sign on non-zero bases; fractional exponents on positive bases
                        variants.push(("int exponent", fill_nonzero(dt, a, 0), fill_table(dt, b, &[2.0, 0.0, 3.0, 1.0, -1.0, -2.0], 1, 2), vec![], Tol::TRANSCENDENTAL));
                        variants.push(("fractional exponent", fill_pos(dt, a, 1), fill_table(dt, b, &[0.5, 1.5, -0.5, 2.0, 0.25], 1, 1), vec![], Tol::TRANSCENDENTAL));
                        // exponent of another type
                        variants.push(("i32 exponent", fill_nonzero(dt, a, 0), fill_table(Dt::I32, b, &[2.0, 0.0, 3.0, 1.0], 1, 2), vec![], Tol::TRANSCENDENTAL));
                    } else {
                        variants.push(("int exponent", fill_small(dt, a, 0), fill_table(dt, b, &[2.0, 0.0, 3.0, 1.0], 1, 2), vec![], Tol::EXACT));
                    }
                }
                "And" | "Or" | "Xor" => {
                    variants.push(("bool", fill_small(dt, a, 0), fill_small(dt, b, 3), vec![], Tol::EXACT));
                    variants.push(("bool2", fill_ext(dt, a, 1), fill_small(dt, b, 5), vec![], Tol::EXACT));
                }
                _ => {
                    // comparisons
                    variants.push(("small", fill_small(dt, a, 0), fill_small(dt, b, 4), vec![], Tol::EXACT));
                    variants.push(("extremes", fill_ext(dt, a, 1), fill_ext(dt, b, 3), vec![], Tol::EXACT));
                }
            }
            for (fname, ta, tb, attrs, tol) in variants {
                let _ = fname;
                let mut c = Case::new(op, cls.to_string(), vec![Some(ta), Some(tb)]).tol(tol);
                for (n, v) in attrs {
                    c = c.attr_i(n, v);
                }
                out.push(c);
            }
        }
    }
    out
}

fn unary(op: &'static str, tier: Tier) -> Vec<Case> {
    let shapes = unary_shapes(tier);
    let mut out = Vec::new();
    let dts: Vec<Dt> = match op {
        "Abs" | "Neg" | "Sign" | "Relu" => vec![Dt::F32, Dt::I32, Dt::I64, Dt::F64, Dt::I8],
        "Not" => vec![Dt::Bool],
        "Identity" => vec![Dt::F32, Dt::I32, Dt::I64, Dt::Bool, Dt::U8, Dt::I8, Dt::F64],
        _ => vec![Dt::F32, Dt::F64],
    };
    let transcendental = matches!(
        op,
        "Exp" | "Log" | "Sigmoid" | "Tanh" | "Erf" | "Sin" | "Cos" | "Tan" | "Asin" | "Acos" | "Atan" | "Sinh" | "Cosh" | "Asinh" | "Acosh" | "Atanh" | "Softplus" | "Elu" | "Gelu" | "HardSwish" | "HardSigmoid"
    );
    // attribute grid
    let attr_grid: Vec<Vec<(&str, crate::case::AV)>> = match op {
        "LeakyRelu" => vec![vec![], vec![("alpha", AV::Float(0.5))], vec![("alpha", AV::Float(0.0))], vec![("alpha", AV::Float(-0.25))]],
        "Elu" => vec![vec![], vec![("alpha", AV::Float(0.5))], vec![("alpha", AV::Float(2.0))]],
        "HardSigmoid" => vec![vec![], vec![("alpha", AV::Float(0.5)), ("beta", AV::Float(0.25))], vec![("alpha", AV::Float(0.25))], vec![("beta", AV::Float(0.75))]],
        "Gelu" => vec![vec![], vec![("approximate", AV::Str("none".into()))], vec![("approximate", AV::Str("tanh".into()))]],
        "IsInf" => vec![vec![], vec![("detect_negative", AV::Int(0))], vec![("detect_positive", AV::Int(0))]],
        _ => vec![vec![]],
    };
    for dt in dts {
        for s in &shapes {
            let mut fills: Vec<(&str, RT)> = Vec::new();
            match op {
                "Sqrt" => {
                    fills.push(("positive", fill_pos(dt, s, 0)));
                    fills.push(("with zero", fill_table(dt, s, &[0.0, 1.0, 2.25, 6.25, 0.0625, 2.0, 3.0], 1, 0)));
                }
                "Log" => fills.push(("positive", fill_pos(dt, s, 0))),
                "Reciprocal" => fills.push(("nonzero", fill_nonzero(dt, s, 0))),
                "Asin" | "Acos" | "Atanh" => fills.push(("unit", fill_unit(dt, s, 0))),
                "Acosh" => fills.push(("positive", fill_table(dt, s, &[1.0, 4.0, 2.0, 9.0, 1.5, 16.0, 3.0], 1, 0))),
                "IsNaN" | "IsInf" => {
                    fills.push(("small", fill_small(dt, s, 0)));
                    fills.push(("non-finite", fill_table(dt, s, &[f64::NAN, 1.0, f64::INFINITY, 0.0, f64::NEG_INFINITY, -2.0], 1, 0)));
                }
                "Not" => {
                    fills.push(("small", fill_small(dt, s, 0)));
                    fills.push(("ext", fill_ext(dt, s, 0)));
                }
                "Abs" | "Neg" if !dt.is_float() => {
                    fills.push(("small", fill_small(dt, s, 0)));
                    // extremes without the type minimum (|MIN| overflows)
                    let (lo, hi) = dt.int_range().unwrap();
                    let (lo, hi) = (lo.max(i32::MIN as f64), hi.min(i32::MAX as f64));
                    fills.push(("extremes", fill_table(dt, s, &[hi, lo + 1.0, 0.0, -1.0, hi - 1.0, 1.0], 1, 0)));
                }
                "Exp" | "Sinh" | "Cosh" | "Softplus" | "Elu" | "Sigmoid" | "Tanh" | "Gelu" | "Erf" | "Sin" | "Cos" | "Tan" | "Atan" | "Asinh" => {
                    fills.push(("small", fill_small(dt, s, 0)));
                    fills.push(("fractions", fill_table(dt, s, &[0.5, -0.25, 1.5, -2.5, 0.0, 3.5, -0.75, 0.125, -1.5, 2.5, -0.0], 1, 0)));
                }
                _ => {
                    fills.push(("small", fill_small(dt, s, 0)));
                    fills.push(("extremes", fill_ext(dt, s, 0)));
                }
            }
            for (fname, t) in fills {
                for attrs in &attr_grid {
                    let aname: Vec<String> = attrs.iter().map(|(n, _)| n.to_string()).collect();
                    let _ = fname;
                    let mut c = Case::new(op, if aname.is_empty() { String::new() } else { format!("attrs {}", aname.join("+")) }, vec![Some(t.clone())]);
                    if transcendental {
                        c = c.tol(Tol::TRANSCENDENTAL);
                    }
                    for (n, v) in attrs {
                        c = c.attr(n, v.clone());
                    }
                    out.push(c);
                }
            }
        }
    }
    out
}

use crate::case::AV;

fn small_shape_set() -> Vec<Vec<usize>> {
    vec![vec![], vec![3], vec![1, 3], vec![2, 1], vec![2, 3], vec![2, 2, 3], vec![1]]
}

fn variadic(op: &'static str, tier: Tier) -> Vec<Case> {
    let set = small_shape_set();
    let mut out = Vec::new();
    let dts = [Dt::F32, Dt::I32, Dt::I64, Dt::F64];
    let mut combos: Vec<Vec<Vec<usize>>> = Vec::new();
    for a in &set {
        combos.push(vec![a.clone()]);
        for b in &set {
            if broadcast_shapes(a, b).is_none() {
                continue;
            }
            combos.push(vec![a.clone(), b.clone()]);
            for c in &set {
                if crate::rt::broadcast_all(&[a, b, c]).is_some() {
                    combos.push(vec![a.clone(), b.clone(), c.clone()]);
                }
            }
        }
    }
    if tier.is_thorough() {
        combos.push(vec![vec![17], vec![2, 17]]);
        combos.push(vec![vec![17], vec![2, 17], vec![1]]);
        combos.push(vec![vec![3, 33], vec![33]]);
        combos.push(vec![vec![2, 3]; 5]);
    } else {
        combos.push(vec![vec![17], vec![2, 17]]);
    }
    for dt in dts {
        for combo in &combos {
            for (fname, ext) in [("small", false), ("extremes", true)] {
                if ext && matches!(op, "Sum" | "Mean") && !dt.is_float() {
                    continue;
                }
                if ext && matches!(op, "Sum" | "Mean") {
                    // dyadic halves stay exact under addition; Mean divides by n (tolerance)
                }
                let ins: Vec<Option<RT>> = combo.iter().enumerate().map(|(k, s)| Some(if ext { fill_ext(dt, s, k * 3 + 1) } else { fill_small(dt, s, k * 4) })).collect();
                let _ = fname;
                let mut c = Case::new(op, format!("{} inputs", combo.len()), ins);
                if op == "Mean" {
                    c = c.tol(Tol { abs: 1e-6, rel: 1e-6 });
                }
                out.push(c);
            }
        }
    }
    out
}

fn where_(_tier: Tier) -> Vec<Case> {
    let set = small_shape_set();
    let mut out = Vec::new();
    for dt in [Dt::F32, Dt::I32, Dt::I64, Dt::Bool, Dt::F64, Dt::U8] {
        for c in &set {
            for x in &set {
                for y in &set {
                    if crate::rt::broadcast_all(&[c, x, y]).is_none() {
                        continue;
                    }
                    out.push(Case::new("Where", "", vec![Some(fill_small(Dt::Bool, c, 1)), Some(fill_small(dt, x, 0)), Some(fill_ext(dt, y, 2))]));
                }
            }
        }
        out.push(Case::new("Where", "", vec![Some(fill_small(Dt::Bool, &[2, 17], 1)), Some(fill_small(dt, &[17], 0)), Some(fill_ext(dt, &[2, 1], 2))]));
    }
    out
}

fn clip(_tier: Tier) -> Vec<Case> {
    let mut out = Vec::new();
    let shapes: Vec<Vec<usize>> = vec![vec![], vec![5], vec![2, 3], vec![2, 17], vec![0]];
    for dt in [Dt::F32, Dt::I32, Dt::I64, Dt::F64, Dt::U8, Dt::I8] {
        let bounds: Vec<(Option<f64>, Option<f64>)> = if dt == Dt::U8 {
            vec![(None, None), (Some(2.0), None), (None, Some(5.0)), (Some(2.0), Some(5.0)), (Some(6.0), Some(3.0)), (Some(3.0), Some(3.0))]
        } else {
            vec![(None, None), (Some(-2.0), None), (None, Some(3.0)), (Some(-2.0), Some(3.0)), (Some(0.0), Some(1.0)), (Some(2.0), Some(-1.0)), (Some(1.0), Some(1.0))]
        };
        for s in &shapes {
            for (lo, hi) in &bounds {
                for (fname, x) in [("small", fill_small(dt, s, 0)), ("extremes", fill_ext(dt, s, 0))] {
                    let _ = fname;
                    let cls = format!("min {} max {}{}", if lo.is_some() { "given" } else { "absent" }, if hi.is_some() { "given" } else { "absent" }, if matches!((lo, hi), (Some(l), Some(h)) if l > h) { " min>max" } else { "" });
                    let ins = vec![Some(x.clone()), lo.map(|v| RT::scalar(dt, v)), hi.map(|v| RT::scalar(dt, v))];
                    // trim trailing absent inputs (both forms are legal; keep explicit empties too)
                    out.push(Case::new("Clip", cls.clone(), ins.clone()));
                    if hi.is_none() {
                        let mut trimmed = ins.clone();
                        while matches!(trimmed.last(), Some(None)) {
                            trimmed.pop();
                        }
                        out.push(Case::new("Clip", format!("{cls} trailing inputs omitted"), trimmed));
                    }
                    if dt == Dt::F32 {
                        let mut c = Case::new("Clip", format!("{cls} opset6 attrs"), vec![Some(x.clone())]).opset(6);
                        if let Some(v) = lo {
                            c = c.attr_f("min", *v as f32);
                        }
                        if let Some(v) = hi {
                            c = c.attr_f("max", *v as f32);
                        }
                        out.push(c);
                    }
                }
            }
        }
    }
    out
}

const ALL_DTS: [Dt; 7] = [Dt::F32, Dt::F64, Dt::I32, Dt::I64, Dt::Bool, Dt::U8, Dt::I8];

fn cast_fills(from: Dt, s: &[usize]) -> Vec<(&'static str, RT)> {
    let mut v = vec![("small", fill_small(from, s, 0))];
    if from.is_float() {
        v.push(("fractions", fill_table(from, s, &[0.5, -0.5, 1.5, -1.5, 2.5, 0.0, -0.0, 3.75, -2.25, 100.0, 0.25], 1, 0)));
        v.push(("non-negative", fill_table(from, s, &[0.5, 1.5, 2.5, 0.0, 3.75, 100.0, 0.25, 127.0, 255.0], 1, 0)));
    } else {
        v.push(("extremes", fill_ext(from, s, 0)));
        if !matches!(from, Dt::Bool) {
            v.push(("non-negative", fill_table(from, s, &[0.0, 1.0, 2.0, 100.0, 127.0, 3.0], 1, 0)));
        }
    }
    v
}

fn cast(_tier: Tier) -> Vec<Case> {
    let mut out = Vec::new();
    let shapes: Vec<Vec<usize>> = vec![vec![], vec![5], vec![2, 3], vec![17], vec![0]];
    for from in ALL_DTS {
        for to in ALL_DTS {
            for s in &shapes {
                for (fname, x) in cast_fills(from, s) {
                    let _ = fname;
                    out.push(Case::new("Cast", format!("to {}", to.name()), vec![Some(x)]).attr_i("to", to.onnx() as i64).vclass(if to == Dt::Bool { String::new() } else { format!("from {}", crate::case::dt_family(from)) }));
                }
            }
        }
    }
    // attributes that do not change the result for these types
    out.push(Case::new("Cast", "f32->i32 saturate=1", vec![Some(fill_small(Dt::F32, &[5], 0))]).attr_i("to", Dt::I32.onnx() as i64).attr_i("saturate", 1));
    out.push(Case::new("Cast", "f32->i32 saturate=0", vec![Some(fill_small(Dt::F32, &[5], 0))]).attr_i("to", Dt::I32.onnx() as i64).attr_i("saturate", 0).lenient());
    out
}

fn cast_like(_tier: Tier) -> Vec<Case> {
    let mut out = Vec::new();
    for from in ALL_DTS {
        for to in ALL_DTS {
            for s in [vec![], vec![5], vec![2, 3]] {
                for (fname, x) in cast_fills(from, &s) {
                    let _ = fname;
                    out.push(Case::new("CastLike", format!("to {}", to.name()), vec![Some(x), Some(fill_small(to, &[2], 0))]).vclass(if to == Dt::Bool { String::new() } else { format!("from {}", crate::case::dt_family(from)) }));
                }
            }
        }
    }
    out
}
