//! Operators without a reference in this harness: not part of the claimed C15
//! catalogue, but enumerated for C12 (declared output types), C13 and C14.

use super::*;
use crate::case::Case;
use crate::rt::{Dt, RT};
use vp_core::Tier;

pub fn register(v: &mut Vec<Entry>) {
    v.push(Entry { op: "NonZero", claimed: false, axes: "shapes rank 0-3 x dtypes", r#gen: nonzero });
    v.push(Entry { op: "SequenceConstruct", claimed: false, axes: "1-3 inputs x dtypes", r#gen: seq_construct });
    v.push(Entry { op: "SequenceEmpty", claimed: false, axes: "dtype attribute absent / 4 types", r#gen: seq_empty });
    v.push(Entry { op: "SplitToSequence", claimed: false, axes: "shapes x axis x keepdims x split absent/scalar/1-D x dtypes", r#gen: split_to_seq });
    v.push(Entry { op: "LpNormalization", claimed: false, axes: "shapes x axis x p", r#gen: lp_norm });
    v.push(Entry { op: "RMSNormalization", claimed: false, axes: "shapes x axis x epsilon", r#gen: rms_norm });
    v.push(Entry { op: "ReverseSequence", claimed: false, axes: "shapes x batch/time axes x dtypes", r#gen: reverse_seq });
    v.push(Entry { op: "Dropout", claimed: false, axes: "shapes x ratio/training inputs x 1-2 outputs", r#gen: dropout });
    v.push(Entry { op: "Upsample", claimed: false, axes: "mode x scales (opset 9 input)", r#gen: upsample });
    v.push(Entry { op: "Scatter", claimed: false, axes: "shapes x axis x dtypes (opset 9)", r#gen: scatter });
    v.push(Entry { op: "Swish", claimed: false, axes: "shapes x alpha", r#gen: swish });
}

fn nonzero(_t: Tier) -> Vec<Case> {
    let mut out = Vec::new();
    for dt in [Dt::F32, Dt::I32, Dt::I64, Dt::Bool, Dt::U8, Dt::I8, Dt::F64] {
        for s in [vec![], vec![5], vec![2, 3], vec![2, 1, 3], vec![0], vec![17]] {
            out.push(Case::new("NonZero", "", vec![Some(fill_small(dt, &s, 0))]));
        }
    }
    out
}

fn seq_construct(_t: Tier) -> Vec<Case> {
    let mut out = Vec::new();
    for dt in [Dt::F32, Dt::I32, Dt::I64, Dt::Bool, Dt::U8, Dt::I8] {
        for n in 1..=3usize {
            let ins: Vec<Option<RT>> = (0..n).map(|k| Some(fill_small(dt, &[2, k + 1], k))).collect();
            out.push(Case::new("SequenceConstruct", format!("{n} inputs"), ins));
        }
    }
    out
}

fn seq_empty(_t: Tier) -> Vec<Case> {
    let mut out = vec![Case::new("SequenceEmpty", "dtype absent", vec![])];
    for dt in [Dt::F32, Dt::I32, Dt::I64, Dt::Bool, Dt::U8, Dt::I8, Dt::F64] {
        out.push(Case::new("SequenceEmpty", "dtype given", vec![]).attr_i("dtype", dt.onnx() as i64).vclass(dt.name()));
    }
    out
}

fn split_to_seq(_t: Tier) -> Vec<Case> {
    let mut out = Vec::new();
    for dt in [Dt::F32, Dt::I32, Dt::I64, Dt::Bool, Dt::U8] {
        for s in [vec![4usize], vec![4, 3], vec![2, 4]] {
            let r = s.len() as i64;
            let x = fill_small(dt, &s, 0);
            for axis in -r..r {
                for keepdims in [None, Some(0i64), Some(1)] {
                    for split in [None, Some(RT::scalar(Dt::I64, 2.0)), Some(i64s(&[1, 3])), Some(RT::scalar(Dt::I64, 1.0))] {
                        let ax = if axis < 0 { axis + r } else { axis } as usize;
                        if s[ax] != 4 && split.is_some() {
                            continue;
                        }
                        let mut ins = vec![Some(x.clone())];
                        let scls = match &split {
                            None => "split absent",
                            Some(t) if t.rank() == 0 => "split scalar",
                            _ => "split 1-D",
                        };
                        if let Some(sp) = split {
                            ins.push(Some(sp));
                        }
                        let mut c = Case::new("SplitToSequence", scls, ins).attr_i("axis", axis);
                        if let Some(k) = keepdims {
                            c = c.attr_i("keepdims", k);
                        }
                        out.push(c);
                    }
                }
            }
        }
    }
    out
}

fn lp_norm(_t: Tier) -> Vec<Case> {
    let mut out = Vec::new();
    for s in [vec![4usize], vec![2, 3], vec![2, 3, 2], vec![2, 17], vec![12, 100], vec![100, 12], vec![3, 1030]] {
        let r = s.len() as i64;
        for axis in -r..r {
            for p in [None, Some(1i64), Some(2)] {
                let mut c = Case::new("LpNormalization", "", vec![Some(fill_nonzero(Dt::F32, &s, 0))]).attr_i("axis", axis);
                if let Some(p) = p {
                    c = c.attr_i("p", p);
                }
                out.push(c);
            }
        }
    }
    out
}

fn rms_norm(_t: Tier) -> Vec<Case> {
    let mut out = Vec::new();
    for s in [vec![4usize], vec![2, 3], vec![2, 3, 4], vec![2, 17]] {
        let r = s.len() as i64;
        for axis in -r..r {
            let ax = if axis < 0 { axis + r } else { axis } as usize;
            for eps in [None, Some(0.5f32)] {
                let mut c = Case::new("RMSNormalization", "", vec![Some(fill_nonzero(Dt::F32, &s, 0)), Some(fill_pos(Dt::F32, &s[ax..], 1))]).attr_i("axis", axis).opset(23);
                if let Some(e) = eps {
                    c = c.attr_f("epsilon", e);
                }
                out.push(c);
            }
        }
    }
    out
}

fn reverse_seq(_t: Tier) -> Vec<Case> {
    let mut out = Vec::new();
    for dt in [Dt::F32, Dt::I32, Dt::I64, Dt::Bool, Dt::U8] {
        for s in [vec![3usize, 2], vec![3, 2, 2], vec![4, 3]] {
            for (b, t) in [(1i64, 0i64), (0, 1)] {
                let nb = s[b as usize];
                let nt = s[t as usize];
                let lens: Vec<i64> = (0..nb).map(|i| 1 + (i as i64 * 2) % nt as i64).collect();
                out.push(Case::new("ReverseSequence", format!("batch_axis {b}"), vec![Some(fill_small(dt, &s, 0)), Some(i64s(&lens))]).attr_i("batch_axis", b).attr_i("time_axis", t));
            }
        }
    }
    out
}

fn dropout(_t: Tier) -> Vec<Case> {
    let mut out = Vec::new();
    for s in [vec![4usize], vec![2, 3], vec![2, 17]] {
        let x = fill_small(Dt::F32, &s, 0);
        for n_out in [1usize, 2] {
            out.push(Case::new("Dropout", "data only", vec![Some(x.clone())]).outs(n_out));
            out.push(Case::new("Dropout", "ratio given", vec![Some(x.clone()), Some(RT::scalar(Dt::F32, 0.5))]).outs(n_out));
            out.push(Case::new("Dropout", "training_mode false", vec![Some(x.clone()), Some(RT::scalar(Dt::F32, 0.5)), Some(RT::scalar(Dt::Bool, 0.0))]).outs(n_out));
        }
    }
    out
}

fn upsample(_t: Tier) -> Vec<Case> {
    let mut out = Vec::new();
    for mode in [None, Some("nearest"), Some("linear")] {
        for sc in [[1.0, 1.0, 2.0, 2.0], [1.0, 1.0, 1.0, 3.0]] {
            let mut c = Case::new("Upsample", format!("mode {}", mode.unwrap_or("absent")), vec![Some(fill_small(Dt::F32, &[1, 1, 2, 3], 0)), Some(RT::vec(Dt::F32, &sc))]).opset(9);
            if let Some(m) = mode {
                c = c.attr_s("mode", m);
            }
            out.push(c);
        }
    }
    out
}

fn scatter(_t: Tier) -> Vec<Case> {
    let mut out = Vec::new();
    for dt in [Dt::F32, Dt::I32, Dt::I64] {
        for axis in [0i64, 1, -1] {
            let data = fill_small(dt, &[3, 3], 0);
            let ind = RT::new(Dt::I64, &[2, 3], vec![1.0, 0.0, 2.0, 0.0, 2.0, 1.0]);
            let upd = fill_small(dt, &[2, 3], 5);
            out.push(Case::new("Scatter", "", vec![Some(data), Some(ind), Some(upd)]).attr_i("axis", axis).opset(9));
        }
    }
    out
}

fn swish(_t: Tier) -> Vec<Case> {
    let mut out = Vec::new();
    for s in [vec![], vec![5usize], vec![2, 17]] {
        for a in [None, Some(0.5f32)] {
            let mut c = Case::new("Swish", "", vec![Some(fill_small(Dt::F32, &s, 0))]).opset(24);
            if let Some(a) = a {
                c = c.attr_f("alpha", a);
            }
            out.push(c);
        }
    }
    out
}
